#!/bin/sh
# Build the overlay venv offline: Python 3.12 (same interpreter as /venv, which has the repo's deps),
# plus z3-solver / cvc5 / icontract / deal / crosshair-tool from the offline wheelhouse.
set -e
cd "$(dirname "$0")"
if [ -x .venv/bin/python ] && .venv/bin/python -c "import z3, cvc5, icontract" 2>/dev/null; then
  echo "setup: .venv already usable"; exit 0
fi
rm -rf .venv
/venv/bin/python -m venv .venv
SP=$(.venv/bin/python -c "import sysconfig; print(sysconfig.get_paths()['purelib'])")
echo "import site; site.addsitedir('/venv/lib/python3.12/site-packages')" > "$SP/_repo_deps.pth"
PIP_NO_INDEX=1 .venv/bin/python -m pip install -q --no-index --find-links /opt/veriftools/wheels \
    z3-solver cvc5 icontract deal crosshair-tool jsonschema
.venv/bin/python -c "import z3, cvc5, icontract, sys; sys.path.insert(0,'/repo'); import esp_kconfiglib; print('setup: ok, z3', z3.get_version_string())"
