"""String operations (z3 sequence theory where exact, uninterpreted functions where not)."""
import z3

from .z import V, VL, Int, simp
from .values import (SV, NONE, mk_int, mk_bool, mk_str, mk_flt, mk_ref, mk_any, mk_tup, mk_py, from_py, const_of,
                     box, Unsupported)
from . import builtins_model as bm


def to_str(ex, ctx, st, v, node):
    """str(v) / f-string conversion."""
    if v.k == "str":
        return v
    if v.k == "none":
        return mk_str("None")
    if v.k == "bool":
        return mk_str(z3.If(v.t, z3.StringVal("True"), z3.StringVal("False")))
    if v.k == "int":
        ok, c = const_of(v)
        if ok:
            return mk_str(str(c))
        return mk_str(bm.ax_int_str(ctx, v.t))
    if v.k == "flt":
        ok, c = const_of(v)
        if ok:
            return mk_str(str(c))
        return mk_str(bm.ax_flt_str(ctx, v.t))
    if v.k == "py":
        from .exec import ExcValue, ExcAttr
        if isinstance(v.py, (str, int, float, bool)):
            return mk_str(str(v.py))
        if isinstance(v.py, (ExcValue, ExcAttr)):
            return mk_str(ctx.fresh("excmsg", z3.StringSort(), tuple(st.idx)))
        if isinstance(v.py, bm.NonFinite):
            return mk_str(ctx.fresh("nonfinite", z3.StringSort(), tuple(st.idx)))
        raise Unsupported(f"str() of concrete {type(v.py).__name__}")
    if v.k == "tup":
        return mk_str(bm.str_of_v(box(v)))
    if v.k == "ref":
        # objects: __str__/__repr__ of library classes may themselves evaluate things; treated as opaque text,
        # except for classes that declare a `__str__` contract
        return mk_str(bm.str_of_v(box(v)))
    # any
    t = v.t
    if ctx.branch(V.is_STR(t)):
        return mk_str(simp(V.s(t)))
    if ctx.branch(V.is_INT(t)):
        return to_str(ex, ctx, st, mk_int(simp(V.i(t))), node)
    if ctx.branch(V.is_BOOL(t)):
        return to_str(ex, ctx, st, mk_bool(simp(V.b(t))), node)
    if ctx.branch(V.is_NONE(t)):
        return mk_str("None")
    if ctx.branch(V.is_FLT(t)):
        return to_str(ex, ctx, st, mk_flt(simp(V.f(t))), node)
    return mk_str(bm.str_of_v(t))


def index(ex, ctx, st, s, key, node):
    key = ex.need_int(ctx, st, key, node)
    n = z3.Length(s.t)
    if ctx.branch(z3.And(key.t >= 0, key.t < n)):
        return mk_str(simp(z3.SubString(s.t, key.t, 1)))
    if ctx.branch(z3.And(key.t < 0, key.t >= -n)):
        return mk_str(simp(z3.SubString(s.t, n + key.t, 1)))
    ex.raise_(st, "IndexError", node)


def _clamp_index(i, n):
    # Python slice index normalisation
    return z3.If(i < 0, z3.If(i + n < 0, z3.IntVal(0), i + n), z3.If(i > n, n, i))


def slice_(ex, ctx, st, obj, lo, hi, node):
    if obj.k == "any":
        if ctx.branch(V.is_STR(obj.t)):
            obj = mk_str(simp(V.s(obj.t)))
    if obj.k == "str":
        n = z3.Length(obj.t)
        a = _clamp_index(ex.need_int(ctx, st, lo, node).t, n) if lo is not None else z3.IntVal(0)
        b = _clamp_index(ex.need_int(ctx, st, hi, node).t, n) if hi is not None else n
        return mk_str(simp(z3.If(b > a, z3.SubString(obj.t, a, b - a), z3.StringVal(""))))
    if obj.k == "tup":
        okl, l = const_of(lo) if lo is not None else (True, None)
        okh, h = const_of(hi) if hi is not None else (True, None)
        if okl and okh:
            return mk_tup(obj.t[l:h])
        raise Unsupported("symbolic tuple slice")
    from . import containers
    return containers.list_slice(ex, ctx, st, obj, lo, hi, node)


def str_repeat(ex, ctx, st, s, n, node):
    raise Unsupported("str * symbolic int")


def str_method(ex, ctx, st, recv, name, args, kwargs, node):
    s = recv.t
    okr, rc = const_of(recv)
    consts = [const_of(a) for a in args]
    if okr and all(o for o, _ in consts) and not kwargs and name not in ("join", "format"):
        try:
            res = getattr(rc, name)(*[c for _, c in consts])
        except (ValueError, TypeError, IndexError) as e:
            ex.raise_(st, type(e).__name__, node)
        if isinstance(res, list):
            return ex.new_list(ctx, st, [from_py(x) for x in res])
        return from_py(res)

    def sarg(i):
        return bm._need_str(ex, ctx, st, args[i], node)

    if name == "replace":
        if len(args) != 2:
            raise Unsupported("str.replace with count")
        a, b = sarg(0), sarg(1)
        oka, ac = const_of(a)
        if not oka or len(ac) == 0:
            raise Unsupported("str.replace with symbolic / empty needle")
        # replace ALL occurrences: z3's str.replace_all
        return mk_str(_replace_all(s, a.t, b.t))
    if name == "startswith":
        a = args[0]
        if a.k == "tup":
            cs = [z3.PrefixOf(bm._need_str(ex, ctx, st, x, node).t, s) for x in a.t]
            return mk_bool(z3.Or(*cs))
        return mk_bool(z3.PrefixOf(sarg(0).t, s))
    if name == "endswith":
        a = args[0]
        if a.k == "tup":
            cs = [z3.SuffixOf(bm._need_str(ex, ctx, st, x, node).t, s) for x in a.t]
            return mk_bool(z3.Or(*cs))
        return mk_bool(z3.SuffixOf(sarg(0).t, s))
    if name == "lower" and not args:
        return mk_str(bm.str_lower(s))
    if name == "upper" and not args:
        return mk_str(bm.str_upper(s))
    if name in ("strip", "lstrip", "rstrip"):
        if args:
            raise Unsupported(f"str.{name}(chars)")
        f = {"strip": bm.str_strip, "lstrip": bm.str_lstrip, "rstrip": bm.str_rstrip}[name]
        return mk_str(f(s))
    if name == "isdigit":
        return mk_bool(bm.str_isdigit(s))
    if name == "join":
        return str_join(ex, ctx, st, recv, args[0], node)
    if name == "format":
        return str_format(ex, ctx, st, recv, args, kwargs, node)
    if name == "find":
        return mk_int(z3.IndexOf(s, sarg(0).t, 0))
    if name == "__contains__":
        return mk_bool(z3.Contains(s, sarg(0).t))
    if name == "encode":
        raise Unsupported("str.encode")
    raise Unsupported(f"str.{name}")


def _replace_all(s, a, b):
    # z3py lacks a wrapper in some versions; build the application through the C API
    try:
        return z3.SeqRef(z3.Z3_mk_seq_replace_all(s.ctx_ref(), s.as_ast(), a.as_ast(), b.as_ast()), s.ctx)
    except AttributeError:
        f = z3.Function("str_replace_all", s.sort(), s.sort(), s.sort(), s.sort())
        return f(s, a, b)


def str_join(ex, ctx, st, sep, it, node):
    """sep.join(iterable): exact for concrete-length sequences, opaque (uninterpreted) otherwise."""
    from . import loops
    items = loops.concrete_items(ex, ctx, st, it)
    if items is None:
        # only the fact that it is a string (and raises TypeError on non-str items) matters to callers
        bad = loops.exists_non_str(ex, ctx, st, it, node)
        if bad is not None and ctx.branch(bad):
            ex.raise_(st, "TypeError", node)
        return mk_str(ctx.fresh("joined", z3.StringSort(), tuple(st.idx)))
    parts = []
    for x in items:
        parts.append(bm._need_str(ex, ctx, st, x, node))
    if not parts:
        return mk_str("")
    out = parts[0].t
    for p in parts[1:]:
        out = z3.Concat(out, sep.t, p.t)
    return mk_str(simp(out))


def str_format(ex, ctx, st, recv, args, kwargs, node):
    ok, fmt = const_of(recv)
    if not ok:
        raise Unsupported("format on symbolic template")
    import string
    out = []
    auto = 0
    for lit, field, spec, conv in string.Formatter().parse(fmt):
        if lit:
            out.append(mk_str(lit))
        if field is None:
            continue
        if spec or conv:
            raise Unsupported("format spec")
        if field == "":
            v = args[auto]
            auto += 1
        elif field.isdigit():
            v = args[int(field)]
        elif field in kwargs:
            v = kwargs[field]
        else:
            raise Unsupported(f"format field {field}")
        out.append(to_str(ex, ctx, st, v, node))
    if not out:
        return mk_str("")
    t = out[0].t
    for p in out[1:]:
        t = z3.Concat(t, p.t)
    return mk_str(simp(t))
