"""Sidecar DSL: contracts, class schemas, spec functions.  Sidecar modules live in /verif/contracts and are plain
Python: their spec functions are executed symbolically by pyvc (to obtain formulas) and natively by the replay /
bounded drivers (as the oracle) -- one source, two uses."""
import sys
from .schema import Registry, ClassInfo, FieldInfo, Contract, UF

REG = Registry()

# builtin container classes
REG.add_class(ClassInfo("list", 101, container="list"))
REG.add_class(ClassInfo("dict", 102, container="dict"))
REG.add_class(ClassInfo("set", 103, container="set"))


def uf(name, args, res, native=None):
    """Declare an uninterpreted spec function; `native` is its meaning on real objects (replay / bounded runs)."""
    if name in REG.ufs:
        return REG.ufs[name]
    u = NativeUF(name, args, res, native)
    REG.ufs[name] = u
    return u


class NativeUF(UF):
    def __init__(self, name, args, res, native):
        super().__init__(name, args, res)
        self.native = native

    def __call__(self, *a):
        if self.native is None:
            raise RuntimeError(f"spec function {self.name} has no native meaning")
        return self.native(*a)


def field(type_="any", kind="mut", inv=None, cls=None):
    return (type_, kind, inv, cls)


def klass(name, tag, module, fields, props=(), methods=(), bases=()):
    fs = {}
    for fname, spec in fields.items():
        if isinstance(spec, str):
            spec = (spec, "mut", None, None)
        t, k, inv, c = spec
        fs[fname] = FieldInfo(fname, t, k, inv, c)
    ci = ClassInfo(name, tag, module=module, fields=fs, props=props, methods=methods)
    ci.bases = tuple(bases)
    REG.add_class(ci)
    return ci


def invariant(field_name):
    """Decorator: spec function (obj, value) -> bool that every stored value of `field_name` satisfies."""
    def deco(fn):
        REG.invariants[field_name] = ("$pending", fn.__module__, fn.__name__)
        return fn
    return deco


def contract(module, qual, params, modifies=(), raises=(), kind="function", cls=None, result=None,
             param_types=None, defaults=None, trusted=False, note=None, free=()):
    """Class decorator. The class body holds `requires(...)`, `ensures(..., result)` (or several
    `ensures_<clause>`), `exsures_<Exc>(...)` written in the verified subset."""
    def deco(k):
        c = Contract(f"{module}:{qual}", list(params), modifies=modifies, raises=raises, kind=kind, cls=cls,
                     result_type=result)
        c.sidecar = (k.__module__, k.__name__)
        c.param_types = dict(param_types or {})
        c.defaults = dict(defaults or {})
        c.trusted = trusted  # contract is assumed, the body is not verified (listed in evidence)
        c.note = note
        # names in `params` that are not parameters of the function but free variables of a nested function (bound in
        # the enclosing function's frame at run time): the contract quantifies over their values like over arguments
        c.free = list(free)
        c.clauses = [n for n in vars(k) if n.startswith("ensures")]
        c.has_requires = "requires" in vars(k)
        c.exs = [n for n in vars(k) if n.startswith("exsures_")]
        REG.contracts[c.target] = c
        return k
    return deco


def lemma(name, params, param_types=None, note=None):
    """Class decorator: a lemma over spec functions only (no code).  The class body holds `requires(...)` and one or
    more `claim_<name>(...)`; pyvc proves every claim for all arguments satisfying `requires`."""
    def deco(k):
        c = Contract(f"lemma:{name}", list(params), kind="lemma")
        c.sidecar = (k.__module__, k.__name__)
        c.param_types = dict(param_types or {})
        c.defaults = {}
        c.trusted = False
        c.note = note
        c.clauses = [n for n in vars(k) if n.startswith("claim")]
        c.has_requires = "requires" in vars(k)
        c.exs = []
        REG.contracts[c.target] = c
        return k
    return deco


def inline(module, *quals):
    for q in quals:
        REG.inline.add(f"{module}:{q}")


def assumption(name, text):
    REG.assumptions[name] = text


# ---- forms available to spec functions when run natively --------------------------------------------------
def ite(c, a, b):
    return a if c else b


def is_tuple(x):
    return isinstance(x, tuple)


def is_none(x):
    return x is None


def is_int(x):
    return type(x) is int


def is_str(x):
    return type(x) is str


def is_bool(x):
    return type(x) is bool


def is_flt(x):
    return type(x) is float


def is_ref(x):
    return not isinstance(x, (tuple, str, int, float, type(None)))


def is_instance(x, name):
    return type(x).__name__ == name


def same_value(a, b):
    return type(a) is type(b) and a == b


def forall_int(lo, hi, p):
    return all(p(j) for j in range(lo, hi))


def forall_key(d, p):
    return all(p(k) for k in d)


def exists_int(lo, hi, p):
    return any(p(j) for j in range(lo, hi))


def old(x):  # natively the harness passes pre-state snapshots explicitly; old() is symbolic-only
    raise RuntimeError("old() is only available in symbolic contracts")


def parses_int(s, base):
    try:
        int(s, base)
        return True
    except (ValueError, TypeError):
        return False


def int_val(s, base):
    return int(s, base)


def parses_float(s):
    import math
    try:
        return math.isfinite(float(s))
    except (ValueError, TypeError):
        return False


def float_val(s):
    return float(s)


def to_real(x):
    return float(x) if not isinstance(x, bool) else float(int(x))


def str_of_int(i):
    return str(i)


def hex_of_int(i):
    return hex(i)


def str_of_float(x):
    return str(x)


def tuple_len_is(x, n):
    return isinstance(x, tuple) and len(x) == n


# ---- file-system model (symbolic only; pyvc/effects.py) ---------------------------------------------------------
def _symbolic_only(name):
    def f(*a):
        raise RuntimeError(f"{name}() is only available in symbolic contracts")
    f.__name__ = name
    return f


fs_trace = _symbolic_only("fs_trace")
fs_text = _symbolic_only("fs_text")
fs_readable = _symbolic_only("fs_readable")
fs_writable = _symbolic_only("fs_writable")
fs_islink = _symbolic_only("fs_islink")
fs_exists = _symbolic_only("fs_exists")
fs_op_ok = _symbolic_only("fs_op_ok")
fs_op_started = _symbolic_only("fs_op_started")
