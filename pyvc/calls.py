"""Call dispatch: builtins, spec primitives, calls by contract, inlining of helpers / closures."""
import ast
import z3

from .z import V, VL, Int, simp
from .values import (SV, NONE, mk_int, mk_bool, mk_str, mk_flt, mk_ref, mk_any, mk_tup, mk_py, from_py, const_of,
                     box, Unsupported)
from .state import (State, Frame, Explorer, Infeasible, ReturnEx, BreakEx, ContinueEx, RaiseEx, CheckerError)
from .schema import UF, cls_of

MAX_INLINE_DEPTH = 12


def eval_call(ex, ctx, st, e):
    from .exec import Closure, BoundMethod, RepoFunc, OldMarker
    # old(expr): evaluate in the pre-state (spec only)
    if isinstance(e.func, ast.Name) and e.func.id == "old" and st.ghost.get("$spec"):
        saved = st.heap
        savedp = st.ghost.get("$heap_prefix")
        st.heap = st.ghost["$old_heap"]
        st.ghost["$heap_prefix"] = "GO_"
        try:
            return ex.eval(ctx, st, e.args[0])
        finally:
            st.heap = saved
            st.ghost["$heap_prefix"] = savedp
    if isinstance(e.func, ast.Name) and e.func.id in SPEC_FORMS and st.ghost.get("$spec"):
        return SPEC_FORMS[e.func.id](ex, ctx, st, e)
    f = ex.eval(ctx, st, e.func)
    args = []
    for a in e.args:
        if isinstance(a, ast.Starred):
            raise Unsupported("*args at call site")
        args.append(ex.eval(ctx, st, a))
    kwargs = {}
    for kw in e.keywords:
        if kw.arg is None:
            raise Unsupported("**kwargs at call site")
        kwargs[kw.arg] = ex.eval(ctx, st, kw.value)
    return call_value(ex, ctx, st, f, args, kwargs, e)


def call_value(ex, ctx, st, f, args, kwargs, node):
    from .exec import Closure, BoundMethod, RepoFunc
    from . import builtins_model as bm
    if f.k != "py":
        ex.raise_(st, "TypeError", node)
    o = f.py
    if isinstance(o, UF):
        return call_uf(ex, ctx, st, o, args, node)
    from . import effects as _fx
    if isinstance(o, _fx.FileMethod):
        return _fx.file_method(ex, ctx, st, o, args, kwargs, node)
    if isinstance(o, Closure):
        return inline_call(ex, ctx, st, o.fdef, o.frame, o.module, o.qual, args, kwargs, node)
    if isinstance(o, RepoFunc):
        return call_repo_function(ex, ctx, st, o.module, o.qual, args, kwargs, node)
    if isinstance(o, BoundMethod):
        if o.cls in ("str", "py", "tup"):
            return bm.call_builtin_method(ex, ctx, st, o.recv, o.name, args, kwargs, node)
        ci = ex.reg.classes.get(o.cls)
        if ci is not None and ci.container:
            from . import containers
            return containers.call_method(ex, ctx, st, o.recv, o.name, args, kwargs, node)
        return call_member(ex, ctx, st, o.recv, o.name, args, kwargs, node)
    if o in bm.BUILTINS:
        return bm.BUILTINS[o](ex, ctx, st, args, kwargs, node)
    if isinstance(o, type):
        return bm.call_type(ex, ctx, st, o, args, kwargs, node)
    name = getattr(o, "__name__", repr(o))
    mod = getattr(o, "__module__", None)
    if mod is None and hasattr(o, "__self__"):
        mod = type(o.__self__).__module__
    key = f"{mod}.{name}"
    if mod == "esp_pylib.logger" or (hasattr(o, "__self__") and type(o.__self__).__module__ == "esp_pylib.logger"):
        if name == "die":
            ex.raise_(st, "SystemExit", node)
        return bm.x_log(ex, ctx, st, args, kwargs, node)
    if key in bm.EXTERNALS:
        return bm.EXTERNALS[key](ex, ctx, st, args, kwargs, node)
    raise Unsupported(f"call of unmodelled callable {key}")


def call_uf(ex, ctx, st, uf, args, node):
    if len(args) != len(uf.args):
        raise CheckerError(f"uninterpreted function {uf.name}: arity")
    zs = []
    for a, so in zip(args, uf.args):
        zs.append(to_sort(ex, ctx, st, a, so))
    r = uf.fn(*zs)
    return from_sort(r, uf.res)


def to_sort(ex, ctx, st, a, so):
    if so == "V":
        return box(a)
    if so == "int":
        if a.k == "any":
            return V.i(a.t)
        if a.k == "bool":
            return ex.num_term(a)
        if a.k != "int":
            raise CheckerError(f"spec function expects int, got {a.k}")
        return a.t
    if so == "bool":
        t = ex.truth(ctx, st, a)
        return z3.BoolVal(t) if isinstance(t, bool) else t
    if so == "str":
        if a.k == "any":
            return V.s(a.t)
        if a.k != "str":
            raise CheckerError(f"spec function expects str, got {a.k}")
        return a.t
    if so == "real":
        if a.k == "int":
            return z3.ToReal(a.t)
        if a.k == "any":
            return V.f(a.t)
        return a.t
    raise CheckerError(so)


def from_sort(r, so):
    if so == "V":
        return mk_any(r)
    if so == "int":
        return mk_int(r)
    if so == "bool":
        return mk_bool(r)
    if so == "str":
        return mk_str(r)
    if so == "real":
        return mk_flt(r)
    raise CheckerError(so)


# ---------------------------------------------------------------------------------------------- inlining
def bind_args(ex, ctx, st, fdef, args, kwargs, node, frame_vars):
    a = fdef.args
    params = [p.arg for p in a.posonlyargs + a.args]
    if a.vararg or a.kwarg:
        raise Unsupported("*args/**kwargs in callee signature")
    if len(args) > len(params):
        ex.raise_(st, "TypeError", node)
    for p, v in zip(params, args):
        frame_vars[p] = v
    ndef = len(a.defaults)
    defaults = dict(zip(params[len(params) - ndef:], a.defaults))
    for kw in a.kwonlyargs:
        params.append(kw.arg)
    for kw, d in zip(a.kwonlyargs, a.kw_defaults):
        if d is not None:
            defaults[kw.arg] = d
    for k, v in kwargs.items():
        if k not in params or k in frame_vars:
            ex.raise_(st, "TypeError", node)
        frame_vars[k] = v
    for p in params:
        if p not in frame_vars:
            if p in defaults:
                d = defaults[p]
                if isinstance(d, ast.Constant):
                    frame_vars[p] = from_py(d.value)
                else:
                    frame_vars[p] = ("$default", d)
            else:
                ex.raise_(st, "TypeError", node)


def inline_call(ex, ctx, st, fdef, parent_frame, module, qual, args, kwargs, node, recv=None):
    if len(st.frames) > MAX_INLINE_DEPTH:
        raise Unsupported(f"inline depth exceeded at {qual}")
    if _is_generator(fdef):
        raise Unsupported(f"generator function {qual}")
    vars_ = {}
    if recv is not None:
        args = [recv] + list(args)
    bind_args(ex, ctx, st, fdef, args, kwargs, node, vars_)
    fr = Frame(vars_, parent_frame, module, qual)
    st.frames.append(fr)
    try:
        for k, v in list(vars_.items()):
            if isinstance(v, tuple) and v and v[0] == "$default":
                vars_[k] = ex.eval(ctx, st, v[1])
        try:
            ex.exec_block(ctx, st, fdef.body)
            return NONE
        except ReturnEx as r:
            return r.value
    finally:
        st.frames.pop()


def _is_generator(fdef):
    for n in ast.walk(fdef):
        if isinstance(n, (ast.Yield, ast.YieldFrom)):
            # not if inside a nested def
            return True
    return False


def call_repo_function(ex, ctx, st, module, qual, args, kwargs, node):
    key = f"{module}:{qual}"
    c = ex.reg.contracts.get(key)
    if c is not None and not st.ghost.get("$inline_all"):
        return apply_contract(ex, ctx, st, c, args, kwargs, node)
    if st.ghost.get("$spec") and module.startswith("contracts"):
        src = ex.sources.get(module)
        fdef = src.find(qual)
        if fdef is None:
            raise CheckerError(f"source of spec function {key} not found")
        if kwargs:
            raise CheckerError("keyword arguments to spec function")
        return eval_spec_inline(ex, ctx, st, (ex.sources.scope(module), fdef), args)
    if key in ex.reg.inline or st.ghost.get("$spec") or module.startswith("contracts"):
        src = ex.sources.get(module)
        fdef = src.find(qual)
        if fdef is None:
            raise Unsupported(f"source of {key} not found")
        ex.report["inlined"].add(key)
        return inline_call(ex, ctx, st, fdef, None, ex.sources.scope(module), key, args, kwargs, node)
    raise Unsupported(f"call of {key}: no contract and not registered for inlining")


def call_member(ex, ctx, st, recv, name, args, kwargs, node, is_prop=False):
    """Method / property of a verified class: by contract, else inline if registered."""
    ci = ex.reg.classes[recv.cls]
    key = f"{ci.module}:{ci.name}.{name}"
    c = ex.reg.contracts.get(key)
    if c is not None:
        return apply_contract(ex, ctx, st, c, [recv] + list(args), kwargs, node)
    if key in ex.reg.inline or st.ghost.get("$spec"):
        src = ex.sources.get(ci.module)
        fdef = src.find(f"{ci.name}.{name}")
        if fdef is None:
            raise Unsupported(f"source of {key} not found")
        ex.report["inlined"].add(key)
        return inline_call(ex, ctx, st, fdef, None, ex.sources.scope(ci.module), key, args, kwargs, node, recv=recv)
    raise Unsupported(f"call of {key}: no contract and not registered for inlining")


# ---------------------------------------------------------------------------------------------- contracts
# Spec functions (contract clauses, invariants, loop invariants) are evaluated ONCE over formal symbols and
# generic heap arrays into a summary formula, then instantiated at every use by substitution -- so no solver work
# happens at call sites and the result does not depend on the caller's path condition.
class Summary:
    __slots__ = ("formals", "attrs", "old_attrs", "assume", "value", "is_bool", "reusable", "fresh")


_SUMMARIES = {}
_sum_n = [0]


def _proto(sv):
    """Kind signature of an argument (summary cache key)."""
    if sv.k == "tup":
        return ("tup", tuple(_proto(x) for x in sv.t))
    if sv.k == "py":
        return ("py", id(sv.py))
    if sv.k == "ref":
        return ("ref", sv.cls, repr(sv.ety) if sv.ety is not None else None)
    return (sv.k,)


def _mk_formal(sv, tag):
    """Formal SV of the same shape as sv, over fresh constants; returns (formal SV, [formal consts])."""
    k = sv.k
    _sum_n[0] += 1
    nm = f"fa{_sum_n[0]}_{tag}"
    if k == "tup":
        items, consts = [], []
        for i, x in enumerate(sv.t):
            f, cs = _mk_formal(x, f"{tag}_{i}")
            items.append(f)
            consts.extend(cs)
        return mk_tup(items), consts
    if k in ("py", "none"):
        return sv, []
    so = {"int": Int, "bool": z3.BoolSort(), "str": z3.StringSort(), "flt": z3.RealSort(), "ref": Int, "any": V}[k]
    c = z3.Const(nm, so)
    f = SV(k, c, cls=sv.cls)
    f.ety = sv.ety
    f.eguard = None  # the owner guard refers to caller terms; inside a summary the element type is assumed directly
    return f, [c]


def _actual_terms(sv):
    k = sv.k
    if k == "tup":
        out = []
        for x in sv.t:
            out.extend(_actual_terms(x))
        return out
    if k in ("py", "none"):
        return []
    t = sv.t
    if k == "bool" and isinstance(t, bool):
        t = z3.BoolVal(t)
    return [t]


def _free_fresh(t, bound_ok):
    """names of free symbols with '!' (fresh symbols) in t that are not in bound_ok"""
    out = set()
    seen = set()
    stack = [t]
    while stack:
        x = stack.pop()
        i = x.get_id()
        if i in seen:
            continue
        seen.add(i)
        if z3.is_quantifier(x):
            stack.append(x.body())
        elif z3.is_app(x):
            d = x.decl()
            if d.kind() == z3.Z3_OP_UNINTERPRETED and "!" in d.name() and d.name() not in bound_ok:
                out.add(d.name())
            stack.extend(x.children())
    return out


class _Collector:
    def __init__(self, uid):
        self.assumed = []
        self.uid = uid
        self.n = 0

    def fresh(self, base, sort, idx=()):
        self.n += 1
        return z3.Const(f"{base}!{self.uid}.m{self.n}", sort)

    def assume(self, cond, name=None):
        self.assumed.append(cond)


def build_summary(ex, spec, args, base_specs, want_bool, arg_types=None):
    scope, fdef = spec
    st = State()
    st.ghost["$spec"] = True
    st.ghost["$heap_prefix"] = "G_"
    old = {}
    st.ghost["$old_heap"] = old
    st.ghost["$write_log"] = None
    formals, consts = [], []
    for i, a in enumerate(args):
        f, cs = _mk_formal(a, f"{fdef.name}_{i}")
        formals.append(f)
        consts.extend(cs)
    base_pc = []
    base_attrs, base_old = set(), set()
    if arg_types:
        from . import types as T
        for f, ty in zip(formals, arg_types):
            if ty and f.k not in ("py", "tup", "none"):
                base_pc.append(simp(T.fact(ex, st, box(f), T.parse(ty))))
    for bentry in base_specs:
        bspec, nargs = bentry[0], bentry[1]
        when = bentry[2] if len(bentry) > 2 else "cur"
        bs = get_summary(ex, bspec, formals[:nargs], [], True, arg_types[:nargs] if arg_types else None)
        if when == "old":
            # the base clause (a precondition) speaks about the pre-state: evaluate it on the old heap
            st_b = State()
            st_b.ghost["$heap_prefix"] = "GO_"
            st_b.heap = old
            ba, bv = _instantiate(ex, bs, formals[:nargs], st_b, None)
        else:
            ba, bv = _instantiate(ex, bs, formals[:nargs], st, None)
        base_pc.extend([ba, bv])
        base_attrs |= set(bs.attrs)
        base_old |= set(bs.old_attrs)
    used = {}

    def run(c2):
        st2 = st.copy()
        vars_ = {}
        fr = Frame(vars_, None, scope, "spec:" + fdef.name)
        st2.frames = [fr]
        bind_args(ex, c2, st2, fdef, formals, {}, fdef, vars_)
        try:
            try:
                ex.exec_block(c2, st2, fdef.body)
                v = NONE
            except ReturnEx as r:
                v = r.value
        except RaiseEx as r:
            if c2.feasible(z3.BoolVal(True)) and c2.feasible_full():
                raise CheckerError(f"spec function {fdef.name} is partial: {r.exc} at {r.where}")
            raise Infeasible()
        used.update(st2.heap)
        return st2, "return", v

    from .state import _uid
    uid0_sum = _uid[0]
    sub = Explorer(base_pc=base_pc, branch_timeout_ms=2000)
    res = sub.explore(run)
    sm = Summary()
    sm.formals = consts
    sm.is_bool = want_bool
    assumes = []
    for r in res:
        assumes.extend(r.globals)
        if r.assumes:
            g = z3.And(*r.branches) if r.branches else z3.BoolVal(True)
            assumes.append(z3.Implies(g, z3.And(*r.assumes)))
    sm.assume = simp(z3.And(*assumes)) if assumes else z3.BoolVal(True)
    if want_bool:
        disj = []
        for r in res:
            t = ex.truth(None, st, r.value)
            t = z3.BoolVal(t) if isinstance(t, bool) else t
            disj.append(z3.And(*r.branches, t) if r.branches else t)
        sm.value = simp(z3.Or(*disj)) if disj else z3.BoolVal(False)
    else:
        if not res:
            raise CheckerError(f"spec function {fdef.name} has no feasible path")
        alts = [(z3.And(*r.branches) if r.branches else z3.BoolVal(True), r.value) for r in res]
        coll = _Collector(sub.uid)
        sm.value = merge_values(ex, coll, st, alts, uid0_sum)
        if coll.assumed:
            sm.assume = simp(z3.And(sm.assume, *coll.assumed))
    sm.attrs = sorted(set(k for k in used) | base_attrs)
    sm.old_attrs = sorted(set(old.keys()) | base_old)
    vt = sm.value if want_bool else (box(sm.value) if sm.value.k != "py" else None)
    # heap attributes first read inside a nested exploration (generator / comprehension bodies run on a copy of the
    # state) are not in `used`: collect every G_<attr> / GO_<attr> constant the summary actually mentions
    _names = _const_names(sm.assume) | (_const_names(vt) if vt is not None else set())
    sm.attrs = sorted(set(sm.attrs) | {n[2:] for n in _names if n.startswith("G_")})
    sm.old_attrs = sorted(set(sm.old_attrs) | {n[3:] for n in _names if n.startswith("GO_")})
    free = _free_fresh(sm.assume, set())
    if vt is not None:
        free |= _free_fresh(vt, set())
    # fresh constants (existential witnesses such as first-match indices) are renamed per instantiation;
    # fresh *functions* cannot be handled that way
    consts_, funcs_ = _fresh_decls([sm.assume] + ([vt] if vt is not None else []), free)
    sm.fresh = consts_
    sm.reusable = not funcs_
    if funcs_:
        import sys
        print("summary", fdef.name, "fresh function symbols:", sorted(funcs_)[:6], file=sys.stderr)
    return sm


def _fresh_decls(terms, names):
    consts, funcs = {}, set()
    seen = set()
    stack = list(terms)
    while stack:
        x = stack.pop()
        i = x.get_id()
        if i in seen:
            continue
        seen.add(i)
        if z3.is_quantifier(x):
            stack.append(x.body())
        elif z3.is_app(x):
            d = x.decl()
            if d.name() in names:
                if d.arity() == 0:
                    consts[d.name()] = x
                else:
                    funcs.add(d.name())
            stack.extend(x.children())
    return [consts[k] for k in sorted(consts)], funcs


def get_summary(ex, spec, args, base_specs, want_bool, arg_types=None):
    scope, fdef = spec
    key = (id(fdef), tuple(_proto(a) for a in args), want_bool,
           tuple((id(b[0][1]), b[1], b[2] if len(b) > 2 else "cur") for b in base_specs),
           tuple(arg_types) if arg_types else None)
    sm = _SUMMARIES.get(key)
    if sm is None:
        import time as _t, os as _os, sys as _sys
        _t0 = _t.time()
        sm = build_summary(ex, spec, args, base_specs, want_bool, arg_types)
        if _os.environ.get("PYVC_DEBUG"):
            print(f"summary {fdef.name} built in {_t.time() - _t0:.1f}s", file=_sys.stderr)
        _SUMMARIES[key] = sm
    return sm


def _instantiate(ex, sm, args, st, old_heap, identity=False):
    from .exec import heap_const, heap_lookup
    if identity:
        return sm.assume, sm.value
    pairs = []
    actual = []
    for a in args:
        actual.extend(_actual_terms(a))
    if len(actual) != len(sm.formals):
        raise CheckerError("summary instantiation: arity")
    for f, t in zip(sm.formals, actual):
        if not z3.eq(f, t):
            pairs.append((f, t))
    for attr in sm.attrs:
        pairs.append((heap_const("G_", attr), ex.heap_get(st, attr)))
    oh = old_heap if old_heap is not None else st.heap
    for attr in sm.old_attrs:
        pairs.append((heap_const("G_", attr) if False else z3.Const(f"GO_{attr}", heap_const("G_", attr).sort()),
                      heap_lookup(oh, attr) if old_heap is not None else ex.heap_get(st, attr)))
    _inst_n[0] += 1
    news = []
    for c_ in sm.fresh:
        nc = z3.Const(f"{c_.decl().name()}@{_inst_n[0]}", c_.sort())
        pairs.append((c_, nc))
        news.append(nc)
    _LAST_FRESH[0] = news

    def sub(t):
        return z3.substitute(t, *pairs) if pairs else t
    if sm.is_bool:
        return sub(sm.assume), sub(sm.value)
    v = sm.value
    from .loops import subst_sv
    return sub(sm.assume), (subst_sv(v, pairs) if pairs else v)


_inst_n = [0]
_LAST_FRESH = [[]]


def eval_spec_bool(ex, ctx, st, spec, args, old_heap=None, extra=None, base_specs=(), arg_types=None, as_goal=False,
                   heavy=False):
    """Truth value of a spec function on SV args, as one z3 Bool (standing assumptions met while evaluating it
    -- field types, container well-formedness -- are added to ctx as assumptions)."""
    sm = get_summary(ex, spec, args, list(base_specs), True, arg_types)
    if not sm.reusable:
        raise Unsupported(f"spec function {spec[1].name} creates fresh symbols (not summarisable)")
    a, v = _instantiate(ex, sm, args, st, old_heap)
    ctx.assume(a, "spec-standing-assumptions", heavy=heavy)
    if as_goal and _LAST_FRESH[0]:
        # Witnesses introduced by the spec's own path conditions (first-match indices ...) are existential in a
        # proof goal.  Symbols that the standing assumption `a` defines (results of relational merges and the
        # witnesses their defining disjunction mentions) must stay free: they are shared with `a`, which is
        # assumed on the path; quantifying them here would cut the goal loose from their definition.
        in_a = _const_names(a)
        bound = [f for f in _LAST_FRESH[0] if f.decl().name() not in in_a]
        if bound:
            v = z3.Exists(bound, v)
    return v


def _const_names(t):
    out = set()
    seen = set()
    stack = [t]
    while stack:
        x = stack.pop()
        i = x.get_id()
        if i in seen:
            continue
        seen.add(i)
        if z3.is_quantifier(x):
            stack.append(x.body())
        elif z3.is_app(x):
            if x.num_args() == 0 and x.decl().kind() == z3.Z3_OP_UNINTERPRETED:
                out.add(x.decl().name())
            stack.extend(x.children())
    return out


def eval_spec_value(ex, ctx, st, spec, args, old_heap=None):
    sm = get_summary(ex, spec, args, [], False)
    if not sm.reusable:
        raise Unsupported(f"spec function {spec[1].name} creates fresh symbols (not summarisable)")
    a, v = _instantiate(ex, sm, args, st, old_heap)
    if ctx is not None:
        ctx.assume(a, "spec-standing-assumptions")
    return v


def eval_spec_inline(ex, ctx, st, spec, args):
    """A spec function called from inside a spec evaluation: evaluated in place (same heaps), paths merged."""
    scope, fdef = spec
    mkey = None
    if all(a.k != "py" for a in args):
        try:
            mkey = ("inline", id(fdef), tuple(simp(box(a)).get_id() for a in args),
                    tuple(sorted((k_, h_.get_id()) for k_, h_ in st.heap.items())))
        except Unsupported:
            mkey = None
    xkey = None
    if mkey is not None:
        hit = ctx.memo_get(mkey)
        if hit is not None:
            return hit[0]
        # cross-path memo: exploration is by re-execution, so sibling paths repeat the same evaluation under the
        # same path-condition prefix (identical terms); replay its effects instead of recomputing
        xm = getattr(ctx.explorer, "xmemo", None)
        if xm is None:
            xm = ctx.explorer.xmemo = {}
        xkey = (mkey, tuple(c_.get_id() for c_ in ctx.pc), ctx.fresh_n)
        xhit = xm.get(xkey)
        if xhit is not None:
            out, pc_add, kinds_add, names_add, fresh_after, heap_add = xhit[:6]
            ctx.pc.extend(pc_add)
            ctx.kinds.extend(kinds_add)
            ctx.assumptions_used.extend(names_add)
            ctx.fresh_n = fresh_after
            for k_, h_ in heap_add.items():
                st.heap.setdefault(k_, h_)
            ctx.memo[mkey] = (out, [box(a) for a in args], dict(st.heap))
            return out
    pc_len0, names_len0, heap_keys0 = len(ctx.pc), len(ctx.assumptions_used), set(st.heap)
    pc_keep0 = list(ctx.pc)

    def run(c2):
        st2 = st.copy()
        vars_ = {}
        fr = Frame(vars_, None, scope, "spec:" + fdef.name)
        bind_args(ex, c2, st2, fdef, args, {}, fdef, vars_)
        st2.frames = [fr]
        try:
            try:
                ex.exec_block(c2, st2, fdef.body)
                v = NONE
            except ReturnEx as r:
                v = r.value
        except RaiseEx as r:
            if c2.feasible(z3.BoolVal(True)) and c2.feasible_full():
                raise CheckerError(f"spec function {fdef.name} is partial: {r.exc} at {r.where}")
            raise Infeasible()
        for k_, h_ in st2.heap.items():
            st.heap.setdefault(k_, h_)
        return st2, "return", v

    from .state import _uid
    uid0 = _uid[0]
    sub = Explorer(parent=ctx, base_kinds=ctx.kinds, base_pc=ctx.pc, branch_timeout_ms=ctx.explorer.branch_timeout_ms, stats=ctx.explorer.stats)
    res = sub.explore(run)
    if not res:
        raise Infeasible()
    for r in res:
        for g_ in r.globals:
            ctx.assume(g_, glob=True)
        if r.assumes:
            g = z3.And(*r.branches) if r.branches else z3.BoolVal(True)
            ctx.assume(z3.Implies(g, z3.And(*r.assumes)))
    out = merge_values(ex, ctx, st, [(z3.And(*r.branches) if r.branches else z3.BoolVal(True), r.value) for r in res],
                       uid0)
    if mkey is not None:
        ctx.memo[mkey] = (out, [box(a) for a in args], dict(st.heap))  # keeps the key's terms alive
    if xkey is not None:
        ctx.explorer.xmemo[xkey] = (out, list(ctx.pc[pc_len0:]), list(ctx.kinds[pc_len0:]),
                                    list(ctx.assumptions_used[names_len0:]), ctx.fresh_n,
                                    {k_: h_ for k_, h_ in st.heap.items() if k_ not in heap_keys0},
                                    pc_keep0, [box(a) for a in args], dict(st.heap))
    return out


def contract_types(ex, c, with_result=False):
    out = []
    for i, p in enumerate(c.params):
        typ = c.param_types.get(p)
        if i == 0 and c.kind in ("method", "property") and typ is None:
            typ = f"ref:{c.cls}"
        if isinstance(typ, tuple):
            typ = typ[0] if not typ[1] else f"{typ[0]}:{typ[1]}"
        out.append(typ)
    if with_result:
        out.append(c.result_type)
    return out


def contract_base(c, post=False):
    """Clauses other than `requires` are evaluated under the contract's own precondition (which speaks about the
    pre-state: `post=True` for clauses evaluated in the post-state)."""
    if c.requires is None:
        return ()
    return (((c.source_scope, c.requires), len(c.params), "old" if post else "cur"),)


def havoc(ex, ctx, st, attr, mode, tracked, recv=None):
    """Replace heap[attr] per a modifies clause. mode: 'all' | 'others' (frame: the caller's tracked receivers keep
    theirs -- ACYCLIC: evaluating something else never re-enters the object being evaluated -- EXCEPT when the
    callee's own receiver is that object: a self-call does write the receiver's side results)."""
    from .exec import SPECIAL_SORTS, VArr
    old = ex.heap_get(st, attr)
    new = ctx.fresh(f"H_{attr.replace('$', 'S')}", old.sort(), tuple(st.idx))
    if mode == "others":
        for r in tracked:
            keep = z3.Select(new, r) == z3.Select(old, r)
            if recv is not None:
                keep = z3.Implies(r != recv, keep)
            ctx.assume(keep)
    elif mode in ("reset", "reset0"):
        # the callee may only EMPTY the field (invalidation): every object keeps its value or gets the reset value
        rv = V.NONE if mode == "reset" else V.INT(z3.IntVal(0))
        x = z3.Int(f"rx!{ctx.explorer.uid}.{ctx.fresh_n}")
        ctx.fresh_n += 1
        ctx.assume(z3.ForAll([x], z3.Or(z3.Select(new, x) == z3.Select(old, x), z3.Select(new, x) == rv)))
    st.heap[attr] = new


def apply_contract(ex, ctx, st, c, args, kwargs, node):
    """Call by contract: obligation requires; havoc modifies; assume ensures."""
    ex.report["contracts_used"].add(c.target)
    fname = st.frames[-1].fname if st.frames else "?"
    # bind keyword args positionally
    if kwargs:
        pos = list(args)
        for p in c.params[len(pos):]:
            if p in kwargs:
                pos.append(kwargs[p])
            else:
                break
        if len(pos) != len(args) + len(kwargs):
            raise Unsupported(f"keyword arguments to contract {c.target}")
        args = pos
    if len(args) < len(c.params):
        dflt = getattr(c, "defaults", {})
        args = list(args)
        for p in c.params[len(args):]:
            if p in dflt:
                args.append(from_py(dflt[p]))
            else:
                raise Unsupported(f"missing argument {p} to contract {c.target}")
    spec_mode = st.ghost.get("$spec")
    if c.requires is not None and not spec_mode:
        pre = eval_spec_bool(ex, ctx, st, (c.source_scope, c.requires), args, arg_types=contract_types(ex, c),
                             as_goal=True)
        ctx.oblige(f"{fname}#call:{c.target.split(':')[1]}.requires", pre,
                   {"kind": "call-precondition", "line": getattr(node, "lineno", None)})
        ctx.assume(pre)
    old_heap = dict(st.heap)
    if not spec_mode:
        for m in c.modifies:
            attr, _, mode = m.partition("@")
            if attr == "$fs":
                from . import effects as _fx2
                _fx2.havoc_trace(ex, ctx, st)
                continue
            rcv = None
            if c.kind in ("method", "property") and args and args[0].k == "ref":
                rcv = args[0].t
            havoc(ex, ctx, st, attr, mode or "all", st.tracked, rcv)
    elif c.modifies and not c.pure:
        pass  # spec mode: evaluators are observationally pure (results are functions of the epoch)
    # result
    rt = c.result_type or "any"
    raw = ctx.fresh("r_" + c.target.split(":")[1].replace(".", "_"), V, tuple(st.idx))
    result = ex.typed(ctx, st, raw, rt, assume=True, why=f"result-type:{c.target}")
    # exceptional exits
    if c.raises and not spec_mode:
        for i, exc in enumerate(c.raises):
            flag = ctx.fresh("raises_" + exc, z3.BoolSort(), tuple(st.idx))
            if ctx.branch(flag):
                xs = c.exsures.get(exc)
                if xs is not None:
                    ctx.assume(eval_spec_bool(ex, ctx, st, (c.source_scope, xs), args, old_heap,
                                              base_specs=contract_base(c, post=True), arg_types=contract_types(ex, c)))
                ex.raise_(st, exc, node)
    for _name, fdef in c.ensures_clauses:
        post = eval_spec_bool(ex, ctx, st, (c.source_scope, fdef), list(args) + [result], old_heap,
                              base_specs=contract_base(c, post=True), arg_types=contract_types(ex, c, True))
        ctx.assume(post, f"contract:{c.target}")
    return result


# ---------------------------------------------------------------------------------------------- spec forms
def _sf_implies(ex, ctx, st, e):
    a = ex.truth(ctx, st, ex.eval(ctx, st, e.args[0]))
    a = z3.BoolVal(a) if isinstance(a, bool) else a
    if z3.is_false(simp(a)):
        return mk_bool(True)
    # evaluate consequent under the antecedent (so partial operations stay guarded)
    ctx2_pc_len = len(ctx.pc)
    res = eval_guarded(ex, ctx, st, e.args[1], a)
    return mk_bool(simp(z3.Implies(a, res)))


def eval_guarded(ex, ctx, st, expr, guard):
    """Evaluate a boolean spec expression under an extra assumption, merged into one z3 Bool."""
    fdef = ast.FunctionDef(name="<guarded>", args=ast.arguments(posonlyargs=[], args=[], kwonlyargs=[],
                           kw_defaults=[], defaults=[]), body=[ast.Return(value=expr)], decorator_list=[],
                           lineno=getattr(expr, "lineno", 0), col_offset=0)
    fr = st.frames[-1]

    def run(c2):
        st2 = st.copy()
        try:
            v = ex.eval(c2, st2, expr)
            return st2, "return", v
        except RaiseEx as r:
            if c2.feasible(z3.BoolVal(True)) and c2.feasible_full():
                raise CheckerError(f"spec expression is partial: {r.exc} at {r.where}")
            raise Infeasible()

    sub = Explorer(parent=ctx, base_kinds=ctx.kinds, base_pc=ctx.pc + [guard], branch_timeout_ms=ctx.explorer.branch_timeout_ms, stats=ctx.explorer.stats)
    res = sub.explore(run)
    disj = []
    for r in res:
        for k_, h_ in r.state.heap.items():
            st.heap.setdefault(k_, h_)
        for g_ in r.globals:
            ctx.assume(g_, glob=True)
        if r.assumes:
            g = z3.And(guard, *r.branches)
            ctx.assume(z3.Implies(g, z3.And(*r.assumes)))
        t = ex.truth(ctx, st, r.value)
        t = z3.BoolVal(t) if isinstance(t, bool) else t
        disj.append(z3.And(*r.branches, t) if r.branches else t)
    if not disj:
        return z3.BoolVal(True)  # guard infeasible
    return simp(z3.Or(*disj))


def _uid_of(name):
    if "!" not in name:
        return None
    tail = name.split("!", 1)[1]
    try:
        return int(tail.split(".", 1)[0].split("@")[0])
    except ValueError:
        return None


def has_new_witness(t, uid0):
    """does t mention a fresh symbol created by an explorer younger than uid0 (an existential witness of the
    sub-evaluation, e.g. a first-match index)?"""
    seen = set()
    stack = [t]
    while stack:
        x = stack.pop()
        i = x.get_id()
        if i in seen:
            continue
        seen.add(i)
        if z3.is_quantifier(x):
            stack.append(x.body())
        elif z3.is_app(x):
            d = x.decl()
            if d.kind() == z3.Z3_OP_UNINTERPRETED:
                u = _uid_of(d.name())
                if u is not None and u > uid0:
                    return True
            stack.extend(x.children())
    return False


def merge_values(ex, ctx, st, alts, uid0=None):
    """alts: list of (guard z3 Bool, SV) covering the current path -> one SV.
    Deterministic guards give an ite chain.  If a guard mentions an existential witness of the sub-evaluation
    the merge is relational: a fresh result r with the assumption OR_i (guard_i and r == v_i) -- sound because
    the alternatives are exhaustive (every evaluation takes one of the paths)."""
    alts = [(g, v) for g, v in alts if not z3.is_false(simp(g))]
    if not alts:
        raise Infeasible()
    if len(alts) == 1 and (uid0 is None or not has_new_witness(alts[0][0], uid0)):
        return alts[0][1]
    kinds = {v.k for _, v in alts}
    relational = uid0 is not None and any(has_new_witness(g, uid0) for g, _ in alts)
    if relational:
        if ctx is None:
            raise CheckerError("relational merge needs a context")
        if len(kinds) == 1 and next(iter(kinds)) in ("int", "bool", "str", "flt"):
            k = alts[0][1].k
            so = {"int": Int, "bool": z3.BoolSort(), "str": z3.StringSort(), "flt": z3.RealSort()}[k]
            r = ctx.fresh("mrg", so, tuple(st.idx))
            ctx.assume(z3.Or(*[z3.And(g, r == v.t) for g, v in alts]))
            return SV(k, r)
        if "py" in kinds:
            raise Unsupported("relational merge of concrete python objects: " + repr([(v.k, v.py) for _, v in alts]))
        r = ctx.fresh("mrg", V, tuple(st.idx))
        ctx.assume(z3.Or(*[z3.And(g, r == box(v)) for g, v in alts]))
        return mk_any(r)
    if len(kinds) == 1 and next(iter(kinds)) in ("int", "bool", "str", "flt"):
        k = alts[0][1].k
        out = alts[-1][1].t
        for g, v in reversed(alts[:-1]):
            out = z3.If(g, v.t, out)
        return SV(k, simp(out))
    if kinds == {"none"}:
        return NONE
    if "py" in kinds:
        ok = [const_of(v) for _, v in alts]
        if all(o for o, _ in ok) and len({repr(c) for _, c in ok}) == 1:
            return alts[0][1]
        raise Unsupported("merge of concrete python objects in spec expression")
    out = box(alts[-1][1])
    for g, v in reversed(alts[:-1]):
        out = z3.If(g, box(v), out)
    return mk_any(simp(out))


class _GuardedCtx:
    """ctx proxy whose assumptions are added under a guard"""

    def __init__(self, ctx, guard):
        self._c = ctx
        self._g = guard

    def fresh(self, *a, **k):
        return self._c.fresh(*a, **k)

    def assume(self, cond, name=None):
        self._c.assume(z3.Implies(self._g, cond), name)


def eval_merged(ex, ctx, st, expr, guard=None):
    """Evaluate a spec expression in a sub-exploration (optionally under an extra guard) and merge its paths
    into one value.  Paths that hit an undefined operation must be infeasible (else the spec is partial)."""
    def run(c2):
        st2 = st.copy()
        try:
            v = ex.eval(c2, st2, expr)
            return st2, "return", v
        except RaiseEx as r:
            if c2.feasible(z3.BoolVal(True)) and c2.feasible_full():
                raise CheckerError(f"spec expression is partial: {r.exc} at {r.where}")
            raise Infeasible()

    base = ctx.pc + ([guard] if guard is not None else [])
    from .state import _uid
    uid0 = _uid[0]
    sub = Explorer(parent=ctx, base_kinds=ctx.kinds, base_pc=base, branch_timeout_ms=ctx.explorer.branch_timeout_ms, stats=ctx.explorer.stats)
    res = sub.explore(run)
    for r in res:
        for k_, h_ in r.state.heap.items():
            st.heap.setdefault(k_, h_)
        for g_ in r.globals:
            ctx.assume(g_, glob=True)
        if r.assumes:
            g = z3.And(*r.branches) if r.branches else z3.BoolVal(True)
            if guard is not None:
                g = z3.And(guard, g)
            ctx.assume(z3.Implies(g, z3.And(*r.assumes)))
    alts = [(z3.And(*r.branches) if r.branches else z3.BoolVal(True), r.value) for r in res]
    if not alts:
        return None
    if guard is not None and any(has_new_witness(g_, uid0) for g_, _ in alts):
        # relational merge is only asserted under the guard
        v = merge_values(ex, _GuardedCtx(ctx, guard), st, alts, uid0)
        return v
    return merge_values(ex, ctx, st, alts, uid0)


def state_sig(st):
    sig = [tuple(sorted((a, h.get_id()) for a, h in st.heap.items()))]
    for fr in st.frames:
        f = fr
        while f is not None:
            row = []
            for n, v in f.vars.items():
                if isinstance(v, SV):
                    if v.k in ("py", "none"):
                        row.append((n, v.k, id(v.py)))
                    elif v.k == "tup":
                        row.append((n, "tup", z3.simplify(box(v)).get_id() if all(x.k != "py" for x in v.t) else id(v)))
                    else:
                        t = v.t
                        row.append((n, v.k, t.get_id() if hasattr(t, "get_id") else t))
                else:
                    row.append((n, "?", id(v)))
            sig.append(tuple(sorted(row, key=lambda r: r[0])))
            f = f.parent
    tr = st.ghost.get("$trace")
    sig.append(len(tr) if tr is not None else -1)
    so = st.ghost.get("$stdout")
    sig.append(len(so) if so is not None else -1)
    sig.append(len(st.ghost.get("$alloc", [])))
    return tuple(sig)


def try_merge_expr(ex, ctx, st, expr, guard):
    """Normal mode: evaluate `expr` under `guard` in a sub-exploration; if every path is effect-free (no state
    change, no obligation, no exception) return the merged value, else None (the caller forks as usual)."""
    sig0 = state_sig(st)
    ok = [True]

    def run(c2):
        st2 = st.copy()
        try:
            v = ex.eval(c2, st2, expr)
        except (RaiseEx, ReturnEx, BreakEx, ContinueEx):
            ok[0] = False
            raise Infeasible()
        if c2.obligations or state_sig(st2) != sig0 or v.k == "py":
            ok[0] = False
            raise Infeasible()
        return st2, "return", v

    from .state import _uid
    uid0 = _uid[0]
    sub = Explorer(parent=ctx, base_kinds=ctx.kinds, base_pc=ctx.pc + [guard], branch_timeout_ms=ctx.explorer.branch_timeout_ms, stats=ctx.explorer.stats,
                   max_paths=64)
    try:
        res = sub.explore(run)
    except Unsupported:
        return None
    if not ok[0] or not res:
        return None
    for r in res:
        for g_ in r.globals:
            ctx.assume(g_, glob=True)
        if r.assumes:
            ctx.assume(z3.Implies(z3.And(guard, *r.branches), z3.And(*r.assumes)))
        ctx.assumptions_used.extend(r.assumptions)
    alts_ = [(z3.And(*r.branches) if r.branches else z3.BoolVal(True), r.value) for r in res]
    if any(has_new_witness(g_, uid0) for g_, _ in alts_):
        return None
    try:
        return merge_values(ex, ctx, st, alts_)
    except Unsupported:
        return None


def _sf_ite(ex, ctx, st, e):
    c = ex.truth(ctx, st, ex.eval(ctx, st, e.args[0]))
    if isinstance(c, bool) or z3.is_true(simp(c)) or z3.is_false(simp(c)):
        cc = c if isinstance(c, bool) else z3.is_true(simp(c))
        return ex.eval(ctx, st, e.args[1 if cc else 2])
    a = eval_merged(ex, ctx, st, e.args[1], c)
    b = eval_merged(ex, ctx, st, e.args[2], z3.Not(c))
    if a is None:
        return b if b is not None else NONE
    if b is None:
        return a
    return merge_values(ex, ctx, st, [(c, a), (z3.Not(c), b)])


def _sf_tuple_len_is(ex, ctx, st, e):
    from .z import vl_len_is
    v = ex.eval(ctx, st, e.args[0])
    ok, n = const_of(ex.eval(ctx, st, e.args[1]))
    if v.k == "tup":
        return mk_bool(len(v.t) == n)
    if v.k == "any":
        return mk_bool(z3.And(V.is_TUP(v.t), vl_len_is(V.t(v.t), n)))
    return mk_bool(False)


def _quant(ex, ctx, st, e, universal):
    """forall_int / exists_int(lo, hi, lambda j: P(j)) over lo <= j < hi.  Standing assumptions met while
    evaluating P at the generic index (element types ...) hold for every index and are re-added quantified."""
    from .loops import mentions
    lo = ex.need_int(ctx, st, ex.eval(ctx, st, e.args[0]), e)
    hi = ex.need_int(ctx, st, ex.eval(ctx, st, e.args[1]), e)
    lam = e.args[2]
    if not isinstance(lam, ast.Lambda):
        raise CheckerError("forall_int / exists_int need a lambda")
    j = ctx.fresh("q", Int)
    rng = z3.And(lo.t <= j, j < hi.t)
    saved_idx = list(st.idx)
    st.idx = st.idx + [j]
    fr = st.frames[-1]
    name = lam.args.args[0].arg
    had = name in fr.vars
    prev = fr.vars.get(name)
    fr.vars[name] = mk_int(j)
    n0 = len(ctx.pc)
    try:
        body = eval_guarded(ex, ctx, st, lam.body, rng)
    finally:
        st.idx = saved_idx
        if had:
            fr.vars[name] = prev
        else:
            fr.vars.pop(name, None)
    jn = {j.decl().name()}
    keep_pc, keep_k = ctx.pc[:n0], ctx.kinds[:n0]
    for c, k in zip(ctx.pc[n0:], ctx.kinds[n0:]):
        if mentions(c, jn):
            c = z3.ForAll([j], c)
        keep_pc.append(c)
        keep_k.append(k)
    ctx.pc[:] = keep_pc
    ctx.kinds[:] = keep_k
    ctx._solver = None
    if universal:
        return mk_bool(z3.ForAll([j], z3.Implies(rng, body)))
    return mk_bool(z3.Exists([j], z3.And(rng, body)))


def _sf_forall_int(ex, ctx, st, e):
    return _quant(ex, ctx, st, e, True)


def _sf_forall_key(ex, ctx, st, e):
    """forall_key(d, lambda k: P(k)): P holds for every key of the dict / set d -- stated pointwise over values
    (forall x. x in d => P(x)), without going through the key list, which keeps the obligations inside array theory."""
    from .loops import mentions
    from . import containers
    d = ex.eval(ctx, st, e.args[0])
    lam = e.args[1]
    if not isinstance(lam, ast.Lambda):
        raise CheckerError("forall_key needs a lambda")
    d = containers.as_ref(ex, d)
    if containers.kind_of(ex, ctx, st, d) not in ("dict", "set"):
        raise Unsupported("forall_key over something else than a dict / set")
    kx = ctx.fresh("fk", V)
    has = z3.Select(z3.Select(ex.heap_get(st, "$has"), d.t), kx)
    # keys are hashable, never containers; bool keys are stored as the ints they equal (container-wf)
    ctags = [c.tag for c in ex.reg.classes.values() if c.container]
    from .schema import cls_of
    wf = z3.And(z3.Not(V.is_BOOL(kx)), z3.Not(z3.And(V.is_REF(kx), z3.Or(*[cls_of(V.r(kx)) == t for t in ctags]))))
    rng = z3.And(has, wf)
    fr = st.frames[-1]
    name = lam.args.args[0].arg
    had = name in fr.vars
    prev = fr.vars.get(name)
    fr.vars[name] = mk_any(kx)
    n0 = len(ctx.pc)
    try:
        body = eval_guarded(ex, ctx, st, lam.body, rng)
    finally:
        if had:
            fr.vars[name] = prev
        else:
            fr.vars.pop(name, None)
    kn = {kx.decl().name()}
    keep_pc, keep_k = ctx.pc[:n0], ctx.kinds[:n0]
    for c, k in zip(ctx.pc[n0:], ctx.kinds[n0:]):
        if mentions(c, kn):
            c = z3.ForAll([kx], c)
        keep_pc.append(c)
        keep_k.append(k)
    ctx.pc[:] = keep_pc
    ctx.kinds[:] = keep_k
    ctx._solver = None
    return mk_bool(z3.ForAll([kx], z3.Implies(rng, body)))


def _sf_exists_int(ex, ctx, st, e):
    return _quant(ex, ctx, st, e, False)


def _sf_is_tuple(ex, ctx, st, e):
    v = ex.eval(ctx, st, e.args[0])
    if v.k == "tup":
        return mk_bool(True)
    if v.k == "any":
        return mk_bool(V.is_TUP(v.t))
    return mk_bool(False)


def _sf_kind_test(kind):
    def f(ex, ctx, st, e):
        v = ex.eval(ctx, st, e.args[0])
        t = ex.tag_test(v, kind)
        return mk_bool(t)
    return f


def _sf_is_instance(ex, ctx, st, e):
    v = ex.eval(ctx, st, e.args[0])
    okc, cname = const_of(ex.eval(ctx, st, e.args[1]))
    ci = ex.reg.classes[cname]
    if v.k == "ref":
        if v.cls:
            return mk_bool(v.cls == cname)
        return mk_bool(cls_of(v.t) == ci.tag)
    if v.k == "any":
        return mk_bool(z3.And(V.is_REF(v.t), cls_of(V.r(v.t)) == ci.tag))
    return mk_bool(False)


def _sf_tracked(ex, ctx, st, e):
    raise CheckerError("tracked() not available")


def _sf_parses_int(ex, ctx, st, e):
    from . import builtins_model as bm
    s_ = ex.eval(ctx, st, e.args[0])
    b_ = ex.eval(ctx, st, e.args[1])
    ts_, tb_ = to_sort(ex, ctx, st, s_, "str"), to_sort(ex, ctx, st, b_, "int")
    ctx.assume(z3.Implies(bm.is_base_n(ts_, tb_), z3.Length(ts_) > 0), "axiom:parse-nonempty")
    return mk_bool(bm.is_base_n(ts_, tb_))


def _sf_int_val(ex, ctx, st, e):
    from . import builtins_model as bm
    s_ = ex.eval(ctx, st, e.args[0])
    b_ = ex.eval(ctx, st, e.args[1])
    return mk_int(bm.int_of(to_sort(ex, ctx, st, s_, "str"), to_sort(ex, ctx, st, b_, "int")))


def _sf_parses_float(ex, ctx, st, e):
    from . import builtins_model as bm
    s_ = to_sort(ex, ctx, st, ex.eval(ctx, st, e.args[0]), "str")
    ctx.assume(z3.Implies(bm.is_float_str(s_), z3.Length(s_) > 0), "axiom:parse-nonempty")
    return mk_bool(z3.And(bm.is_float_str(s_), bm.is_finite_str(s_)))


def _sf_float_val(ex, ctx, st, e):
    from . import builtins_model as bm
    s_ = to_sort(ex, ctx, st, ex.eval(ctx, st, e.args[0]), "str")
    return mk_flt(bm.float_of(s_))


def _sf_to_real(ex, ctx, st, e):
    v = ex.eval(ctx, st, e.args[0])
    return mk_flt(to_sort(ex, ctx, st, v, "real"))


def _sf_str_of_int(ex, ctx, st, e):
    from . import builtins_model as bm
    v = ex.eval(ctx, st, e.args[0])
    return mk_str(bm.ax_int_str(ctx, to_sort(ex, ctx, st, v, "int")))


def _sf_hex_of_int(ex, ctx, st, e):
    from . import builtins_model as bm
    v = ex.eval(ctx, st, e.args[0])
    return mk_str(bm.ax_int_hex(ctx, to_sort(ex, ctx, st, v, "int")))


def _sf_str_of_float(ex, ctx, st, e):
    from . import builtins_model as bm
    v = ex.eval(ctx, st, e.args[0])
    return mk_str(bm.ax_flt_str(ctx, to_sort(ex, ctx, st, v, "real")))


def _sf_fs_trace(ex, ctx, st, e):
    from . import effects
    return effects.trace_ref(ex, ctx, st)


def _sf_fs_fun(name, nstr):
    def f(ex, ctx, st, e):
        from . import effects
        from .builtins_model import _need_str
        args = [ex.eval(ctx, st, a) for a in e.args]
        ss = [_need_str(ex, ctx, st, a, e).t for a in args[:nstr]]
        n = ex.need_int(ctx, st, args[nstr], e)
        r = getattr(effects, name)(*ss, n.t)
        return mk_str(r) if name == "fs_text" else mk_bool(r)
    return f


def _sf_same_value(ex, ctx, st, e):
    """same_value(a, b): a and b are the same Python value in the sense of the value sort (structural identity of
    boxed values: same kind and same payload) -- stronger than `==` (which also equates 1 and True)."""
    a = ex.eval(ctx, st, e.args[0])
    b = ex.eval(ctx, st, e.args[1])
    if a.k == "py" or b.k == "py":
        raise Unsupported("same_value on a concrete python object")
    return mk_bool(simp(box(a) == box(b)))


SPEC_FORMS = {
    "same_value": _sf_same_value,
    "fs_trace": _sf_fs_trace,
    "fs_text": _sf_fs_fun("fs_text", 1),
    "fs_readable": _sf_fs_fun("fs_readable", 1),
    "fs_writable": _sf_fs_fun("fs_writable", 1),
    "fs_islink": _sf_fs_fun("fs_islink", 1),
    "fs_exists": _sf_fs_fun("fs_exists", 1),
    "fs_op_ok": _sf_fs_fun("fs_op_ok", 2),
    "fs_op_started": _sf_fs_fun("fs_op_started", 2),
    "implies": _sf_implies,
    "ite": _sf_ite,
    "forall_int": _sf_forall_int,
    "forall_key": _sf_forall_key,
    "exists_int": _sf_exists_int,
    "is_tuple": _sf_is_tuple,
    "is_none": _sf_kind_test("none"),
    "is_int": _sf_kind_test("int"),
    "is_str": _sf_kind_test("str"),
    "is_bool": _sf_kind_test("bool"),
    "is_ref": _sf_kind_test("ref"),
    "is_flt": _sf_kind_test("flt"),
    "is_instance": _sf_is_instance,
    "tuple_len_is": _sf_tuple_len_is,
    "parses_int": _sf_parses_int,
    "int_val": _sf_int_val,
    "parses_float": _sf_parses_float,
    "float_val": _sf_float_val,
    "to_real": _sf_to_real,
    "str_of_int": _sf_str_of_int,
    "hex_of_int": _sf_hex_of_int,
    "str_of_float": _sf_str_of_float,
}
