"""Verification driver: one function against its contract -> named obligations -> discharge."""
import ast
import importlib
import os
import subprocess
import sys
import tempfile
import time
import traceback
import z3

from .z import V, Int, simp
from .values import SV, NONE, mk_any, mk_ref, box, Unsupported, const_of
from .state import (State, Frame, Explorer, Infeasible, ReturnEx, BreakEx, ContinueEx, RaiseEx, CheckerError,
                    Obligation)
from .schema import cls_of
from .exec import Exec, ModuleScope
from .extract import Sources
from . import calls

Z3_TIMEOUT_MS = int(os.environ.get("PYVC_Z3_TIMEOUT_MS", "40000"))
CVC5_TIMEOUT_MS = int(os.environ.get("PYVC_CVC5_TIMEOUT_MS", "90000"))


def load_sidecars(names):
    """Import sidecar modules (registers into dsl.REG) and bind the ASTs of their clauses."""
    from . import dsl
    mods = [importlib.import_module(n) for n in names]
    reg = dsl.REG
    sources = Sources()
    for key, c in reg.contracts.items():
        if getattr(c, "_bound", False):
            continue
        smod, scls = c.sidecar
        src = sources.get(smod)
        c.source_scope = sources.scope(smod)
        c.requires = src.find(f"{scls}.requires") if c.has_requires else None
        c.ensures_clauses = [(n, src.find(f"{scls}.{n}")) for n in c.clauses]
        c.ensures = None
        c.exsures = {n[len("exsures_"):]: src.find(f"{scls}.{n}") for n in c.exs}
        c.assume_entry = src.find(f"{scls}.assume_entry")
        c.cases = {qn.split(".case_", 1)[1]: node for qn, node in src.index.items()
                   if qn.startswith(f"{scls}.case_") and qn.count(".") == 1}
        c.loop_invs = {}
        for qn, node in src.index.items():
            if qn.startswith(f"{scls}.loop_inv_") and qn.count(".") == 1:
                c.loop_invs[int(qn.rsplit("_", 1)[1])] = (c.source_scope, node)
        c._bound = True
    for fname, spec in list(reg.invariants.items()):
        if spec[0] == "$pending":
            _, smod, fn = spec
            reg.invariants[fname] = (sources.scope(smod), sources.get(smod).find(fn))
    return reg, sources


def eval_ensures_all(ex, ctx, st, c, args, result, old_heap):
    conj = []
    for name, fdef in c.ensures_clauses:
        conj.append((name, calls.eval_spec_bool(ex, ctx, st, (c.source_scope, fdef), list(args) + [result], old_heap,
                                                base_specs=calls.contract_base(c, post=True),
                                                arg_types=calls.contract_types(ex, c, True), as_goal=True)))
    return conj


class FunctionReport:
    def __init__(self, key):
        self.key = key
        self.status = "ok"  # ok | out_of_reach | checker_error
        self.reason = None
        self.obligations = []  # dicts
        self.paths = 0
        self.reachable_paths = 0
        self.assumptions = set()
        self.span = None
        self.digest = None
        self.dropped = []
        self.inlined = []
        self.contracts_used = []
        self.time = 0.0
        self.stats = {}

    def to_dict(self):
        d = dict(self.__dict__)
        d["assumptions"] = sorted(self.assumptions)
        return d


def make_params(ex, ctx, st, c):
    args = []
    for i, p in enumerate(c.params):
        raw = z3.Const("arg_" + p, V)
        typ = c.param_types.get(p)
        if i == 0 and c.kind in ("method", "property") and typ is None:
            typ = ("ref", c.cls)
        if typ is None:
            typ = ("any", None)
        if isinstance(typ, str):
            typ = (typ, None)
        sv = ex.typed(ctx, st, raw, typ[0], typ[1], assume=True, why=f"param-type:{c.target}:{p}", glob=True)
        if typ[0] in ("ref",):
            ctx.assume(sv.t >= 0)  # pre-existing object
        args.append(sv)
    return args


def verify_lemma(reg, sources, key, c):
    """A lemma over spec functions: for all arguments satisfying `requires`, every `claim_*` holds."""
    rep = FunctionReport(key)
    t0 = time.time()
    ex = Exec(reg, sources)
    ex.loop_ids, ex.loop_invs, ex.top_frame_index = {}, {}, -1
    explorer = Explorer(max_paths=2000)
    name = key.split(":", 1)[1]

    def run(ctx):
        st = State()
        args = make_params(ex, ctx, st, c)
        st.frames = [Frame({}, None, c.source_scope, name)]
        if c.requires is not None:
            ctx.assume(calls.eval_spec_bool(ex, ctx, st, (c.source_scope, c.requires), args,
                                            arg_types=calls.contract_types(ex, c)), f"requires:{key}")
        if not ctx.feasible(z3.BoolVal(True)):
            raise CheckerError(f"precondition of {key} is unsatisfiable (vacuous lemma)")
        for cname, fdef in c.ensures_clauses:
            g = calls.eval_spec_bool(ex, ctx, st, (c.source_scope, fdef), args, arg_types=calls.contract_types(ex, c),
                                     as_goal=True)
            ctx.oblige(f"{name}#{cname}", g, {"kind": "lemma"})
        return st, "return", NONE

    try:
        results = explorer.explore(run)
    except Unsupported as u:
        rep.status, rep.reason = "out_of_reach", str(u)
        return rep
    except CheckerError as e:
        rep.status, rep.reason = "checker_error", str(e)
        return rep
    rep.paths = len(results)
    obls = []
    for r in results:
        rep.assumptions.update(a for a in r.assumptions if a)
        obls.extend(r.obligations)
    rep._obls = obls
    rep._results = results
    rep.stats = dict(explorer.stats)
    rep.time = time.time() - t0
    return rep


def verify_function(reg, sources, key, canary=True):
    """Symbolically execute the real function `key` against its contract. Returns FunctionReport with
    undischarged obligations attached as z3 objects in `rep._obls` (discharged by discharge())."""
    case = None
    full_key = key
    if "#" in key:
        key, case = key.split("#", 1)
    c = reg.contracts[key]
    if key.startswith("lemma:"):
        return verify_lemma(reg, sources, key, c)
    module, qual = key.split(":")
    rep = FunctionReport(full_key)
    t0 = time.time()
    src = sources.get(module)
    fdef = src.find(qual) if src else None
    if fdef is None:
        rep.status = "out_of_reach"
        rep.reason = f"function {key} not found in {module} (moved or renamed?)"
        return rep
    rep.span = src.span(qual)
    rep.digest = src.digest(qual)
    rep.dropped = src.dropped(qual)
    ex = Exec(reg, sources)
    loops_ = sorted([n for n in ast.walk(fdef) if isinstance(n, (ast.For, ast.While))],
                    key=lambda n: (n.lineno, n.col_offset))
    ex.loop_ids = {id(n): i for i, n in enumerate(loops_)}
    ex.loop_invs = dict(c.loop_invs)
    ex.top_frame_index = 0
    scope = sources.scope(module)
    explorer = Explorer(max_paths=int(os.environ.get("PYVC_MAX_PATHS", "6000")))
    all_obls = []
    entry_memo = {}

    def run(ctx):
        st = State()
        args = make_params(ex, ctx, st, c)
        ex.entry_args = dict(zip(c.params, args))  # loop invariants may name `<param>_entry`
        if c.kind in ("method", "property"):
            st.tracked = [args[0].t]
        fr0 = Frame({}, None, scope, qual)
        st.frames = [fr0]
        if c.requires is not None:
            if True:
                entry_memo["pre"] = calls.eval_spec_bool(ex, ctx, st, (c.source_scope, c.requires), args,
                                                         arg_types=calls.contract_types(ex, c))
            ctx.assume(entry_memo["pre"], f"requires:{key}")
        if case == "*":
            # exhaustiveness of the case split: under the precondition some case applies
            alts = [calls.eval_spec_bool(ex, ctx, st, (c.source_scope, node), args, arg_types=calls.contract_types(ex, c))
                    for _, node in sorted(c.cases.items())]
            ctx.oblige(f"{qual}#cases-exhaustive", z3.Or(*alts), {"kind": "case-split-exhaustive"})
            return st, "return", NONE
        if case is not None:
            cs = calls.eval_spec_bool(ex, ctx, st, (c.source_scope, c.cases[case]), args,
                                      arg_types=calls.contract_types(ex, c))
            ctx.assume(cs, f"case:{case}", glob=True)
        if c.assume_entry is not None:
            if True:
                bs = calls.contract_base(c)
                if case is not None:
                    bs = tuple(bs) + (((c.source_scope, c.cases[case]), len(c.params), "cur"),)
                entry_memo["ent"] = calls.eval_spec_bool(ex, ctx, st, (c.source_scope, c.assume_entry), args,
                                                         base_specs=bs,
                                                         arg_types=calls.contract_types(ex, c), heavy=True)
            ctx.assume(entry_memo["ent"], f"definition:{key}", heavy=True)
        if "feasible" not in entry_memo:
            entry_memo["feasible"] = ctx.feasible(z3.BoolVal(True))
            if not entry_memo["feasible"]:
                raise CheckerError(f"precondition of {key} is unsatisfiable (vacuous contract)")
        old_heap = dict(st.heap)
        vars_ = {}
        free_ = set(getattr(c, "free", ()))
        calls.bind_args(ex, ctx, st, fdef, [a for p_, a in zip(c.params, args) if p_ not in free_], {}, fdef, vars_)
        for p_, a in zip(c.params, args):
            if p_ in free_:
                vars_[p_] = a  # free variable of a nested function: an arbitrary value of the declared type
        fr = Frame(vars_, None, scope, qual)
        st.frames = [fr]
        outcome, value = "return", NONE
        try:
            for k_, v_ in list(vars_.items()):
                if isinstance(v_, tuple) and v_ and v_[0] == "$default":
                    vars_[k_] = ex.eval(ctx, st, v_[1])
            ex.exec_block(ctx, st, fdef.body)
        except ReturnEx as r:
            value = r.value
        except RaiseEx as r:
            outcome, value = "raise", r
        st.frames = [fr0]
        if outcome in ("return", "raise") and not getattr(c, "no_frame_check", False):
            # frame: a declared (mutable) field that the contract's modifies clause does not name is unchanged on
            # every object when the function returns -- callers rely on exactly this at call sites
            from .exec import heap_lookup
            named = {m.partition("@")[0] for m in c.modifies}
            for ci_ in reg.classes.values():
                for fi_ in ci_.fields.values():
                    a_ = fi_.name
                    if fi_.kind == "imm" or a_ in named or a_.startswith("$"):
                        continue
                    named.add(a_)  # once per attribute name
                    cur = st.heap.get(a_)
                    if cur is None:
                        continue
                    was = heap_lookup(old_heap, a_)
                    if cur.eq(was):
                        continue
                    ctx.oblige(f"{qual}#frame:{a_}", cur == was, {"kind": "frame"})
        if outcome in ("return", "raise") and "$fs" not in {m.partition("@")[0] for m in c.modifies}:
            # a function that performs file-system write effects must say so (`$fs` in modifies): callers of a
            # contract without it rely on the effect trace being unchanged
            from . import effects as _fx
            from .exec import heap_lookup as _hl
            cur_len = st.heap.get("$len")
            if cur_len is not None:
                was_len = _hl(old_heap, "$len")
                g = simp(z3.Select(cur_len, _fx.FS_TRACE) == z3.Select(was_len, _fx.FS_TRACE))
                if not z3.is_true(g):
                    ctx.oblige(f"{qual}#frame:fs-trace", g, {"kind": "frame"})
        if outcome == "return":
            for name, post in eval_ensures_all(ex, ctx, st, c, args, value, old_heap):
                ctx.oblige(f"{qual}#{name}", post, {"kind": "postcondition"})
        else:
            exc = value.exc
            if exc in c.raises:
                xs = c.exsures.get(exc)
                if xs is not None:
                    post = calls.eval_spec_bool(ex, ctx, st, (c.source_scope, xs), args, old_heap,
                                                base_specs=calls.contract_base(c, post=True),
                                                arg_types=calls.contract_types(ex, c))
                    ctx.oblige(f"{qual}#exsures_{exc}", post, {"kind": "exceptional-postcondition"})
            else:
                ctx.oblige(f"{qual}#noraise", z3.BoolVal(False),
                           {"kind": "exception-freedom", "exception": exc, "where": value.where})
        return st, outcome, value

    try:
        results = explorer.explore(run)
    except Unsupported as u:
        rep.status = "out_of_reach"
        rep.reason = str(u)
        if os.environ.get("PYVC_DEBUG"):
            print(getattr(u, "tb", ""), file=sys.stderr)
        rep.time = time.time() - t0
        return rep
    except CheckerError as e:
        rep.status = "checker_error"
        rep.reason = str(e)
        rep.time = time.time() - t0
        return rep
    rep.paths = len(results)
    for r in results:
        rep.assumptions.update(a for a in r.assumptions if a)
        all_obls.extend(r.obligations)
    rep._obls = all_obls
    rep._results = results
    rep.inlined = sorted(ex.report["inlined"])
    rep.contracts_used = sorted(ex.report["contracts_used"])
    rep.stats = dict(explorer.stats)
    rep.time = time.time() - t0
    return rep


def solve(pc, goal, timeout_ms=Z3_TIMEOUT_MS):
    """Check validity of pc => goal. Returns (status, seconds, model_or_reason, backend).
    A goal that is a conjunction is proved conjunct by conjunct; when the solver gives up, the path condition is
    split on its top-level disjunctions that contain quantifiers (the alternatives of a merged loop exit) and
    every case is proved separately -- both are plain proof rules (and-introduction, or-elimination)."""
    from .state import has_quantifier
    t0 = time.time()
    quick = min(timeout_ms, int(os.environ.get("PYVC_Z3_QUICK_MS", "5000")))
    st, dt, m, be = _solve1(pc, goal, quick, retries=False)
    if st in ("discharged", "failed"):
        return st, dt, m, be
    if z3.is_and(goal) and goal.num_args() > 1:
        worst = None
        for g in goal.children():
            st, dt, m, be = solve(pc, g, timeout_ms)
            if st == "failed":
                return st, time.time() - t0, m, be
            if st != "discharged":
                worst = (st, m, be)
        if worst is None:
            return "discharged", time.time() - t0, None, be + " (conjuncts)"
        return worst[0], time.time() - t0, worst[1], worst[2]
    ors = [i for i, c in enumerate(pc) if z3.is_or(c) and c.num_args() > 1 and has_quantifier(c)]
    if ors and len(pc) < 4000:
        i = ors[0]
        rest = pc[:i] + pc[i + 1:]
        worst = None
        be = "z3"
        for d in pc[i].children():
            st, dt, m, be = solve(rest + [d], goal, timeout_ms)
            if st == "failed":
                return st, time.time() - t0, m, be
            if st != "discharged":
                worst = (st, m, be)
        if worst is None:
            return "discharged", time.time() - t0, None, be.split(" (")[0] + " (case split)"
        return worst[0], time.time() - t0, worst[1], worst[2]
    return _solve1(pc, goal, timeout_ms, retries=True)


def _solve1(pc, goal, timeout_ms, retries=True):
    s = z3.Solver()
    s.set("timeout", timeout_ms)
    for c in pc:
        s.add(c)
    s.add(z3.Not(goal))
    t0 = time.time()
    r = s.check()
    dt = time.time() - t0
    if r == z3.unsat:
        return "discharged", dt, None, "z3-" + z3.get_version_string()
    if r == z3.sat:
        return "failed", dt, s.model(), "z3-" + z3.get_version_string()
    if not retries:
        return "undecided", dt, "z3: " + s.reason_unknown(), "z3-" + z3.get_version_string()
    # unknown: retry with other seeds, then cvc5
    for seed in (1, 2):
        s2 = z3.Solver()
        s2.set("timeout", timeout_ms)
        s2.set("random_seed", seed)
        for c in pc:
            s2.add(c)
        s2.add(z3.Not(goal))
        r2 = s2.check()
        if r2 == z3.unsat:
            return "discharged", time.time() - t0, None, f"z3-{z3.get_version_string()}(seed {seed})"
        if r2 == z3.sat:
            return "failed", time.time() - t0, s2.model(), f"z3-{z3.get_version_string()}(seed {seed})"
    smt2 = s.to_smt2()
    st, why = run_cvc5(smt2)
    if st == "unsat":
        return "discharged", time.time() - t0, None, "cvc5"
    if st == "sat":
        return "failed", time.time() - t0, why, "cvc5"
    return "undecided", time.time() - t0, f"z3: {s.reason_unknown()}; cvc5: {why}", "z3+cvc5"


def run_cvc5(smt2):
    exe = "/usr/bin/cvc5"
    if not os.path.exists(exe):
        return "unknown", "cvc5 not installed"
    with tempfile.NamedTemporaryFile("w", suffix=".smt2", delete=False) as f:
        f.write("(set-logic ALL)\n" + smt2)
        path = f.name
    try:
        p = subprocess.run([exe, "--lang=smt2", "--strings-exp", f"--tlimit={CVC5_TIMEOUT_MS}", path],
                           stdout=subprocess.PIPE, stderr=subprocess.PIPE, text=True,
                           timeout=CVC5_TIMEOUT_MS / 1000 + 10)
        out = p.stdout.strip().splitlines()
        first = out[0] if out else ""
        if first in ("unsat", "sat"):
            return first, "\n".join(out[1:20])
        return "unknown", (p.stdout + p.stderr)[:300]
    except subprocess.TimeoutExpired:
        return "unknown", "cvc5 timeout"
    finally:
        os.unlink(path)


def model_summary(m, limit=60):
    if m is None:
        return None
    if isinstance(m, str):
        return m[:4000]
    out = {}
    for d in m.decls():
        name = d.name()
        if d.arity() == 0 and (name.startswith("arg_") or name.startswith("r_") or "!" not in name):
            out[name] = str(m[d])[:300]
        if len(out) >= limit:
            break
    return out


def _discharge_one(ob):
    if ob.meta.get("trivial"):
        return {"name": ob.name, "status": "discharged", "time": 0.0, "backend": "simplifier",
                "kind": ob.meta.get("kind")}
    status, dt, model, backend = solve(ob.pc, ob.goal)
    d = {"name": ob.name, "status": status, "time": round(dt, 4), "backend": backend,
         "kind": ob.meta.get("kind"), "line": ob.meta.get("line")}
    if ob.meta.get("kind") == "exception-freedom":
        d["exception"] = ob.meta.get("exception")
        d["where"] = ob.meta.get("where")
    if status == "failed":
        d["model"] = model_summary(model)
        d["_model"] = model
        d["_ob"] = ob
    elif status == "undecided":
        d["reason"] = str(model)[:500]
    return d


def _plain(d):
    """obligation record without z3 objects (what a forked discharge worker can send back)"""
    out = {k: v for k, v in d.items() if not k.startswith("_")}
    if d.get("status") == "failed" and "_ob" in d:
        try:
            s = z3.Solver()
            for c in d["_ob"].pc:
                s.add(c)
            s.add(z3.Not(d["_ob"].goal))
            out["smt2"] = s.to_smt2()[:200000]
            m = d.get("_model")
            out["model_full"] = str(m)[:20000] if m is not None else None
        except Exception:
            pass
    return out


_CHILDREN = []  # (pid, path, chunk) of the discharge workers of the function being verified (killed on a budget overrun)


def kill_children():
    import signal as _sig
    for pid, path, _ch in list(_CHILDREN):
        try:
            os.kill(pid, _sig.SIGKILL)
            os.waitpid(pid, 0)
        except OSError:
            pass
        try:
            os.unlink(path)
        except OSError:
            pass
    del _CHILDREN[:]


def discharge(rep, jobs=1):
    """Discharge all obligations of a FunctionReport. Fills rep.obligations (plain dicts).  With jobs > 1 the
    obligations are split over forked worker processes (the z3 terms live in the forked address space; results come
    back as plain dicts through temporary files)."""
    obls = list(getattr(rep, "_obls", []))
    hard = [i for i, ob in enumerate(obls) if not ob.meta.get("trivial")]
    if jobs <= 1 or len(hard) < 2 * jobs:
        rep.obligations = [_discharge_one(ob) for ob in obls]
        return rep
    import pickle
    chunks = [hard[k::jobs] for k in range(jobs)]
    children = _CHILDREN
    del children[:]
    for ch in chunks:
        fd, path = tempfile.mkstemp(suffix=".pkl")
        os.close(fd)
        pid = os.fork()
        if pid == 0:
            code = 0
            try:
                res = [(i, _plain(_discharge_one(obls[i]))) for i in ch]
                with open(path, "wb") as f:
                    pickle.dump(res, f)
            except BaseException:
                traceback.print_exc()
                code = 1
            finally:
                os._exit(code)
        children.append((pid, path, ch))
    out = {}
    failed_children = []
    for pid, path, ch in children:
        _, st = os.waitpid(pid, 0)
        try:
            if st == 0 and os.path.getsize(path) > 0:
                with open(path, "rb") as f:
                    for i, d in pickle.load(f):
                        out[i] = d
            else:
                failed_children.append(ch)
        finally:
            try:
                os.unlink(path)
            except OSError:
                pass
    for ch in failed_children:  # a worker died: redo its share in-process
        for i in ch:
            out[i] = _discharge_one(obls[i])
    rep.obligations = [out[i] if i in out else _discharge_one(ob) for i, ob in enumerate(obls)]
    return rep
