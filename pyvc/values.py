"""Symbolic values handled by the executor (shallow where the Python type is known, boxed V otherwise)."""
import z3
from .z import V, VL, vl_from, simp


class SV:
    """k: none | bool | int | str | flt | ref | tup | any | py
    t: z3 term of the unboxed sort (Bool/Int/String/Real/Int-id), list[SV] for tup, V-term for any
    cls: class name for refs when statically known; py: concrete Python object for k == 'py'."""

    __slots__ = ("k", "t", "cls", "py", "ety", "eguard")

    def __init__(self, k, t=None, cls=None, py=None):
        self.k = k
        self.t = t
        self.cls = cls
        self.py = py
        self.eguard = None  # z3 Bool under which the element type holds (class of the owning object)
        self.ety = None  # element type (types.Ty) of a list reference, instantiated on element access

    def __repr__(self):
        if self.k == "py":
            return f"SV(py {self.py!r})"
        if self.k == "tup":
            return f"SV(tup {self.t})"
        return f"SV({self.k} {self.t}{' :' + self.cls if self.cls else ''})"


NONE = SV("none")


def mk_int(x):
    return SV("int", z3.IntVal(x) if isinstance(x, int) else x)


def mk_bool(x):
    return SV("bool", z3.BoolVal(x) if isinstance(x, bool) else x)


def mk_str(x):
    return SV("str", z3.StringVal(x) if isinstance(x, str) else x)


def mk_flt(x):
    return SV("flt", z3.RealVal(x) if isinstance(x, (int, float)) else x)


def mk_ref(t, cls=None):
    return SV("ref", t, cls=cls)


def mk_any(t):
    return SV("any", t)


def mk_tup(items):
    return SV("tup", list(items))


def mk_py(o):
    return SV("py", py=o)


def from_py(o):
    """Concrete Python constant -> SV (containers of constants become concrete 'py' values)."""
    if o is None:
        return NONE
    if isinstance(o, bool):
        return mk_bool(o)
    if isinstance(o, int):
        return mk_int(o)
    if isinstance(o, str):
        return mk_str(o)
    if isinstance(o, float):
        return mk_flt(o)
    if isinstance(o, tuple):
        return mk_tup([from_py(x) for x in o])
    return mk_py(o)


def const_of(sv):
    """Return (True, python value) if sv is a concrete scalar/tuple constant, else (False, None)."""
    if sv.k == "none":
        return True, None
    if sv.k == "py":
        return True, sv.py
    if sv.k in ("bool", "int", "str", "flt"):
        t = simp(sv.t)
        if sv.k == "bool":
            if z3.is_true(t):
                return True, True
            if z3.is_false(t):
                return True, False
        elif sv.k == "int" and z3.is_int_value(t):
            return True, t.as_long()
        elif sv.k == "str" and z3.is_string_value(t):
            return True, t.as_string()
        elif sv.k == "flt" and z3.is_rational_value(t):
            return True, float(t.as_fraction())
        return False, None
    if sv.k == "tup":
        out = []
        for x in sv.t:
            ok, v = const_of(x)
            if not ok:
                return False, None
            out.append(v)
        return True, tuple(out)
    return False, None


def box(sv):
    """SV -> V term."""
    k = sv.k
    if k == "any":
        return sv.t
    if k == "none":
        return V.NONE
    if k == "bool":
        return V.BOOL(sv.t)
    if k == "int":
        return V.INT(sv.t)
    if k == "str":
        return V.STR(sv.t)
    if k == "flt":
        return V.FLT(sv.t)
    if k == "ref":
        return V.REF(sv.t)
    if k == "tup":
        return V.TUP(vl_from([box(x) for x in sv.t]))
    if k == "py":
        o = sv.py
        if isinstance(o, (tuple,)):
            return box(from_py(o))
        raise Unsupported(f"cannot box concrete python object {type(o).__name__}")
    raise Unsupported(f"box {k}")


class Unsupported(Exception):
    """Construct outside the verified subset: the function is out of reach (never a violation)."""
