"""Loops without named invariants (DESIGN §2.5; soundness argument in LOOPS.md).

for-loops over a symbolic sequence are summarised by executing the body twice on a *generic* iteration j:
  pass 1 from a havocked carried state, to classify every carried variable / heap array as
         same     -- no continue-path changes it (invariant),
         uniform  -- every continue-path leaves the same havoc-free term f(j) in it
                     (so before iteration k >= 1 it holds f(k-1)),
         havoc    -- anything else (unknown function of the iteration index; tracked receivers' own cells
                     that provably stay untouched are framed);
  pass 2 from the resulting pre-state pre(j), which yields the continue condition C(j) and the exit paths.
The loop then either runs to completion (forall j < n: C(j); state pre(n); `else` clause) or leaves through an
exit path at some first index k (forall j < k: C(j)).  Every fresh symbol created in the body is a skolem
function of the generic index, so substituting the index is sound.
"""
import ast
import z3

from .z import V, VL, Int, simp
from .values import (SV, NONE, mk_int, mk_bool, mk_str, mk_flt, mk_ref, mk_any, mk_tup, mk_py, from_py, const_of,
                     box, Unsupported)
from .state import (State, Frame, Explorer, Infeasible, ReturnEx, BreakEx, ContinueEx, RaiseEx, CheckerError)
from .schema import cls_of


class GenExp:
    def __init__(self, node, frame):
        self.node = node
        self.frame = frame


class SeqView:
    """Abstract finite sequence: length term + element accessor (index term -> SV)."""

    def __init__(self, n, elem, desc=""):
        self.n = n
        self.elem = elem
        self.desc = desc


def _elem(view, j, c):
    try:
        return view.elem(j, c)
    except TypeError:
        return view.elem(j)


def assigned_names(stmts):
    names = set()

    class Vis(ast.NodeVisitor):
        def visit_Name(self, n):
            if isinstance(n.ctx, (ast.Store, ast.Del)):
                names.add(n.id)

        def visit_FunctionDef(self, n):
            names.add(n.name)  # do not descend: separate scope

        def visit_Lambda(self, n):
            pass

        def visit_ListComp(self, n):
            pass

        def visit_SetComp(self, n):
            pass

        def visit_DictComp(self, n):
            pass

        def visit_GeneratorExp(self, n):
            pass

        def visit_ExceptHandler(self, n):
            if n.name:
                names.add(n.name)
            self.generic_visit(n)

    v = Vis()
    for s in stmts:
        v.visit(s)
    return names


def target_names(t):
    if isinstance(t, ast.Name):
        return {t.id}
    if isinstance(t, (ast.Tuple, ast.List)):
        out = set()
        for e in t.elts:
            out |= target_names(e)
        return out
    raise Unsupported("loop target that is not a name / tuple")


def mutable_attrs(ex):
    attrs = set(["$len", "$elems", "$has", "$val", "$keys"])
    for ci in ex.reg.classes.values():
        for fi in ci.fields.values():
            if fi.kind != "imm":
                attrs.add(fi.name)
    return attrs


# ------------------------------------------------------------------------------------------------ sequences
def concrete_items(ex, ctx, st, it):
    """List of SV if the iterable has a statically known length, else None."""
    if it.k == "tup":
        return list(it.t)
    if it.k == "py":
        o = it.py
        if isinstance(o, (tuple, list)):
            return [from_py(x) for x in o]
        if isinstance(o, dict):
            return [from_py(x) for x in o.keys()]
        if isinstance(o, (frozenset, set)):
            try:
                return [from_py(x) for x in sorted(o)]
            except TypeError:
                return None
        return None
    if it.k == "str":
        ok, s = const_of(it)
        if ok:
            return [mk_str(c) for c in s]
        return None
    if it.k in ("ref", "any"):
        if it.k == "any":
            return None
        if it.cls == "list" or (it.cls is None and False):
            ln = simp(z3.Select(ex.heap_get(st, "$len"), it.t))
            if z3.is_int_value(ln):
                el = z3.Select(ex.heap_get(st, "$elems"), it.t)
                return [mk_any(simp(z3.Select(el, i))) for i in range(ln.as_long())]
    return None


def seq_view(ex, ctx, st, it, node):
    """SeqView for a symbolic iterable."""
    from . import containers
    if it.k == "py" and isinstance(it.py, containers.View):
        return it.py.seq_view(ex, ctx, st, node)
    if it.k == "any":
        if ctx.branch(V.is_TUP(it.t)):
            raise Unsupported("iteration over a symbolic tuple of unknown arity")
        if ctx.branch(V.is_STR(it.t)):
            raise Unsupported("iteration over a symbolic string")
        if not ctx.branch(V.is_REF(it.t)):
            ex.raise_(st, "TypeError", node)
        it = mk_ref(simp(V.r(it.t)))
    if it.k == "str":
        s = it.t
        return SeqView(z3.Length(s), lambda j: mk_str(z3.SubString(s, j, 1)), "chars")
    if it.k != "ref":
        ex.raise_(st, "TypeError", node)
    for kind in ("list", "set", "dict"):
        if ex.is_container(ctx, st, it, kind):
            if kind == "list":
                ln = z3.Select(ex.heap_get(st, "$len"), it.t)
                el = z3.Select(ex.heap_get(st, "$elems"), it.t)
                ctx.assume(ln >= 0, "container-length-nonnegative")
                from . import types as T
                lst = it
                return SeqView(ln, lambda j, c=None: T.elem(ex, c or ctx, st, lst, z3.Select(el, j), j), "list")
            return containers.keys_view(ex, ctx, st, it, node)
    ex.raise_(st, "TypeError", node)


# ------------------------------------------------------------------------------------------------ substitution
def subst_term(t, pairs):
    return z3.substitute(t, *pairs)


def subst_sv(sv, pairs, memo=None):
    if sv is None:
        return None
    k = sv.k
    if k in ("bool", "int", "str", "flt", "any"):
        return SV(k, z3.substitute(sv.t, *pairs))
    if k == "ref":
        r = SV(k, z3.substitute(sv.t, *pairs), cls=sv.cls)
        r.ety = sv.ety
        r.eguard = z3.substitute(sv.eguard, *pairs) if sv.eguard is not None else None
        return r
    if k == "tup":
        return SV(k, [subst_sv(x, pairs) for x in sv.t])
    return sv


def subst_state(st, pairs):
    for a in list(st.heap):
        st.heap[a] = z3.substitute(st.heap[a], *pairs)
    seen = set()
    for fr in st.frames:
        f = fr
        while f is not None and id(f) not in seen:
            seen.add(id(f))
            for n, v in list(f.vars.items()):
                if isinstance(v, SV):
                    f.vars[n] = subst_sv(v, pairs)
            f = f.parent
    st.tracked = [z3.substitute(t, *pairs) for t in st.tracked]
    if "$alloc" in st.ghost:
        st.ghost["$alloc"] = [z3.substitute(t, *pairs) for t in st.ghost["$alloc"]]
    tr = st.ghost.get("$trace")
    if tr is not None:
        st.ghost["$trace"] = [e.subst(pairs) for e in tr]


def mentions(t, syms):
    """Does term t mention any of the z3 constants / function declarations in syms (set of decl names)?"""
    seen = set()
    stack = [t]
    while stack:
        x = stack.pop()
        if x.get_id() in seen:
            continue
        seen.add(x.get_id())
        if z3.is_app(x):
            if x.decl().name() in syms:
                return True
            stack.extend(x.children())
        elif z3.is_quantifier(x):
            stack.append(x.body())
    return False


# ------------------------------------------------------------------------------------------------ for
def exec_for(ex, ctx, st, s):
    it = ex.eval(ctx, st, s.iter)
    if it.k == "py" and isinstance(it.py, GenExp):
        raise Unsupported("for over a generator expression")
    items = concrete_items(ex, ctx, st, it)
    if items is not None:
        broke = False
        for x in items:
            ex.assign_target(ctx, st, s.target, x)
            try:
                ex.exec_block(ctx, st, s.body)
            except BreakEx:
                broke = True
                break
            except ContinueEx:
                continue
        if not broke:
            ex.exec_block(ctx, st, s.orelse)
        return
    view = seq_view(ex, ctx, st, it, s)
    sym_for(ex, ctx, st, s, view)


def _run_body(ex, st_in, s, view, j, setup, on_continue=None):
    def run(c2):
        st2 = st_in.copy()
        st2.idx = st2.idx + [j]
        setup(c2, st2)
        try:
            try:
                ex.assign_target(c2, st2, s.target, _elem(view, j, c2))
                ex.exec_block(c2, st2, s.body)
                out = "fall"
            except ContinueEx:
                out = "continue"
            if on_continue is not None:
                on_continue(c2, st2)
            return st2, out, None
        except BreakEx:
            return st2, "break", None
        except ReturnEx as r:
            return st2, "return", r.value
        except RaiseEx as r:
            return st2, "raise", r
    return run


def classify(ex, gpc, st, W, attrs, h_loc, h_heap, cont, hsyms, tracked, typed_vars=(), s0=None):
    """Pass-1 classification of carried locals and heap arrays."""
    cls_loc = {}
    for v in W:
        vals = []
        for r in cont:
            cur = r.state.frames[len(st.frames) - 1].vars.get(v)
            vals.append(cur)
        if all(x is not None and x.k in ("any", "int", "str", "bool", "flt") and z3.eq(simp(x.t), h_loc[v]) for x in vals):
            cls_loc[v] = ("same", None)
            continue
        boxed = []
        ok = True
        for x in vals:
            if x is None or x.k == "py":
                ok = False
                break
            boxed.append(simp(box(x)))
        if ok and boxed and all(z3.eq(b, boxed[0]) for b in boxed) and not mentions(boxed[0], hsyms):
            cls_loc[v] = ("uniform", vals[0])
        else:
            # concrete python objects (closures...) that stay identical are fine
            if vals and all(x is not None and x.k == "py" for x in vals) and len({id(x.py) for x in vals}) == 1:
                cls_loc[v] = ("uniform", vals[0])
            else:
                cls_loc[v] = ("havoc", s0[v].k if v in typed_vars else None)
    cls_heap = {}
    for a in attrs:
        finals = [r.state.heap.get(a) for r in cont]
        if all(f is not None and z3.eq(f, h_heap[a]) for f in finals):
            cls_heap[a] = ("same", [], None)
            continue
        kept = []
        cand = list(tracked)
        if a in ("$len", "$elems"):
            # the ghost file-system trace (reserved id -1) is carried through a loop that performs no write effect
            cand = cand + [z3.IntVal(-1)]
        for tr in cand:
            good = True
            for r, f in zip(cont, finals):
                sv = z3.Solver()
                sv.set("timeout", 2000)
                if gpc:
                    sv.add(*gpc)
                sv.add(*r.pc)
                sv.add(z3.Select(f, tr) != z3.Select(h_heap[a], tr))
                if sv.check() != z3.unsat:
                    good = False
                    break
            if good:
                kept.append(tr)
        # reset-only step: every continue path leaves each entry as it was or sets it to the reset value (None / 0);
        # by induction over the iterations every entry of the pre-state of any iteration is the initial one or reset
        rv_ok = None
        try:
            is_v = h_heap[a].sort().range() == V
        except Exception:
            is_v = False
        if is_v and finals and all(f is not None for f in finals):
            for rv in (V.NONE, V.INT(z3.IntVal(0))):
                xq = z3.Int("rstx")
                good = True
                for r, f in zip(cont, finals):
                    sv = z3.Solver()
                    sv.set("timeout", 3000)
                    if gpc:
                        sv.add(*gpc)
                    sv.add(*r.pc)
                    sv.add(z3.Select(f, xq) != z3.Select(h_heap[a], xq), z3.Select(f, xq) != rv)
                    if sv.check() != z3.unsat:
                        good = False
                        break
                if good:
                    rv_ok = rv
                    break
        cls_heap[a] = ("havoc", kept, rv_ok)
    return cls_loc, cls_heap


_LOOP_CACHE = {}
_loop_n = [0]


class LoopSummary:
    pass


def global_facts(ctx):
    return [c for c, k in zip(ctx.pc, ctx.kinds) if k == "G"]


def compute_loop_summary(ex, gpc, st, s, view, stats, branch_timeout_ms):
    """Path-condition independent summary of one for-loop from the entry state `st` (cached by state signature)."""
    _loop_n[0] += 1
    uid = f"L{_loop_n[0]}"
    n = view.n
    fr_i = len(st.frames) - 1
    fr = st.frames[fr_i]
    W = sorted(assigned_names(s.body) | target_names(s.target))
    attrs = sorted(mutable_attrs(ex))
    for a in attrs:
        ex.heap_get(st, a)
    s0 = {v: fr.vars.get(v) for v in W}
    heap0 = dict(st.heap)
    j = z3.Int(f"j!{uid}")
    base = [j >= 0, j < n]
    L = LoopSummary()
    L.j, L.n, L.W, L.attrs, L.fr_i = j, n, W, attrs, fr_i

    # ---------------- explicit invariant (sidecar `loop_inv_<n>`), bound by loop ordinal and local names
    inv = None
    n_loop = None
    if fr_i == getattr(ex, "top_frame_index", -1):
        n_loop = ex.loop_ids.get(id(s))
        inv = ex.loop_invs.get(n_loop)
    L.inv, L.n_loop = inv, n_loop

    def eval_inv(c2, st2, jj, as_goal=False):
        scope, fdef = inv
        f2 = st2.frames[fr_i]
        args = []
        for a in fdef.args.args:
            if a.arg == "j":
                args.append(mk_int(jj))
            elif a.arg.endswith("_entry") and a.arg[:-6] in getattr(ex, "entry_args", {}):
                args.append(ex.entry_args[a.arg[:-6]])
            elif a.arg in f2.vars:
                args.append(f2.vars[a.arg])
            else:
                raise CheckerError(f"loop invariant {fdef.name}: no local named {a.arg}")
        from . import calls
        return calls.eval_spec_bool(ex, c2, st2, (scope, fdef), args, as_goal=as_goal)

    L.eval_inv = eval_inv

    # ---------------- pass 1: havocked carried state (scalars keep their kind while every continue path does)
    SC = {"int": Int, "str": z3.StringSort(), "bool": z3.BoolSort(), "flt": z3.RealSort()}
    typed_vars = {v for v in W if s0[v] is not None and s0[v].k in SC}
    h_heap = {a: z3.Const(f"hH_{a.replace('$', 'S')}!{uid}", heap0[a].sort()) for a in attrs}
    while True:
        h_loc = {}
        h_sv = {}
        for v in W:
            if v in typed_vars:
                t = z3.Const(f"h_{v}!{uid}", SC[s0[v].k])
                h_loc[v] = t
                h_sv[v] = SV(s0[v].k, t)
            else:
                t = z3.Const(f"h_{v}!{uid}", V)
                h_loc[v] = t
                h_sv[v] = mk_any(t)
        hsyms = {t.decl().name() for t in list(h_loc.values()) + list(h_heap.values())}

        def setup1(c2, st2):
            f2 = st2.frames[fr_i]
            for v in W:
                f2.vars[v] = h_sv[v]
            for a in attrs:
                st2.heap[a] = h_heap[a]
            if inv is not None:
                c2.assume(eval_inv(c2, st2, j))

        sub1 = Explorer(base_pc=gpc + base, branch_timeout_ms=branch_timeout_ms, stats=stats)
        res1 = sub1.explore(_run_body(ex, st, s, view, j, setup1))
        cont1 = [r for r in res1 if r.outcome in ("fall", "continue")]
        bad = set()
        for v in typed_vars:
            for r in cont1:
                cur = r.state.frames[fr_i].vars.get(v)
                if cur is None or cur.k != s0[v].k:
                    bad.add(v)
        if not bad:
            break
        typed_vars -= bad
    cls_loc, cls_heap = classify(ex, gpc, st, W, attrs, h_loc, h_heap, cont1, hsyms, st.tracked, typed_vars, s0)

    # ---------------- pre-state as a function of the iteration index
    hv_fun = {}
    idx0 = list(st.idx)

    def pre_state(c2, st2, jj):
        f2 = st2.frames[fr_i]
        for v in W:
            kind, f = cls_loc[v]
            init = s0[v]
            if kind == "same":
                if init is None:
                    f2.vars.pop(v, None)
                else:
                    f2.vars[v] = init
            elif kind == "uniform":
                fj = subst_sv(f, [(j, jj - 1)]) if f.k != "py" else f
                if init is None or f.k == "py":
                    f2.vars[v] = fj  # python-semantics:unbound-after-zero-iterations treated as arbitrary
                elif init.k == fj.k and init.k in ("int", "bool", "str", "flt"):
                    f2.vars[v] = SV(init.k, simp(z3.If(jj == 0, init.t, fj.t)))
                elif init.k == "py":
                    f2.vars[v] = fj
                else:
                    f2.vars[v] = mk_any(simp(z3.If(jj == 0, box(init), box(fj))))
            else:
                key = ("L", v)
                if key not in hv_fun:
                    hv_fun[key] = z3.Function(f"hv_{v}!{uid}", *[i.sort() for i in idx0], Int, V)
                hv = hv_fun[key](*idx0, jj)
                tk = f  # kind kept by every continue path (typed havoc) or None
                if init is None or init.k == "py":
                    f2.vars[v] = mk_any(hv)
                elif tk is not None and init.k == tk:
                    unb = {"int": V.i, "str": V.s, "bool": V.b, "flt": V.f}[tk]
                    f2.vars[v] = SV(tk, simp(z3.If(jj == 0, init.t, unb(hv))))
                else:
                    f2.vars[v] = mk_any(simp(z3.If(jj == 0, box(init), hv)))
        for a in attrs:
            kind, kept, rv_ok = cls_heap[a]
            if kind == "same":
                st2.heap[a] = heap0[a]
            else:
                key = ("H", a)
                if key not in hv_fun:
                    hv_fun[key] = z3.Function(f"hvH_{a.replace('$', 'S')}!{uid}", *[i.sort() for i in idx0], Int,
                                              heap0[a].sort())
                hv = hv_fun[key](*idx0, jj)
                arr = z3.If(jj == 0, heap0[a], hv)
                st2.heap[a] = simp(arr)
                for tr in kept:
                    c2.assume(z3.Select(hv, tr) == z3.Select(heap0[a], tr))
                if rv_ok is not None:
                    xq = z3.Int(f"rstq!{uid}")
                    c2.assume(z3.ForAll([xq], z3.Or(z3.Select(hv, xq) == z3.Select(heap0[a], xq),
                                                    z3.Select(hv, xq) == rv_ok)))
        if inv is not None:
            c2.assume(eval_inv(c2, st2, jj))

    L.pre_state = pre_state

    # ---------------- pass 2
    def setup2(c2, st2):
        pre_state(c2, st2, j)

    def on_cont(c2, st2):
        if inv is not None:
            c2.oblige(f"{fr.fname}#loop{n_loop}.invariant-preserved", eval_inv(c2, st2, j + 1, as_goal=True),
                      {"kind": "loop-invariant", "line": s.lineno})

    sub2 = Explorer(base_pc=gpc + base, branch_timeout_ms=branch_timeout_ms, stats=stats)
    res2 = sub2.explore(_run_body(ex, st, s, view, j, setup2, on_cont))
    L.cont = [r for r in res2 if r.outcome in ("fall", "continue")]
    L.exits = []
    for r in res2:
        if r.outcome in ("fall", "continue"):
            continue
        # drop exits that are infeasible once quantified facts (field invariants, ...) are taken into account;
        # unknown keeps the exit (sound: more paths)
        sv = z3.Solver()
        sv.set("timeout", 3000)
        sv.add(*gpc)
        sv.add(*base)
        sv.add(*r.pc)
        if sv.check() == z3.unsat:
            stats["infeasible"] = stats.get("infeasible", 0) + 1
            continue
        L.exits.append(r)
    L.res2 = res2
    cj = z3.Or(*[z3.And(*r.pc) if r.pc else z3.BoolVal(True) for r in L.cont]) if L.cont else z3.BoolVal(False)
    L.cj = simp(cj)
    L.uid = uid
    return L


def loop_cache_key(ex, st, s, view):
    from .calls import state_sig
    return (id(s), z3.simplify(view.n).get_id(), view.desc, state_sig(st), tuple(i.get_id() for i in st.idx),
            tuple(t.get_id() for t in st.tracked))


def sym_for(ex, ctx, st, s, view):
    gpc = global_facts(ctx)
    key = loop_cache_key(ex, st, s, view) + (tuple(c.get_id() for c in gpc),)
    ent = _LOOP_CACHE.get(key)
    if ent is None:
        L = compute_loop_summary(ex, gpc, st, s, view, ctx.explorer.stats, ctx.explorer.branch_timeout_ms)
        # keep the z3 terms of the key alive together with the entry (ids are only unique while alive)
        _LOOP_CACHE[key] = (L, gpc, view, st.copy())
    else:
        L = ent[0]
    j, n = L.j, L.n
    fr = st.frames[L.fr_i]
    if L.inv is not None:
        ctx.oblige(f"{fr.fname}#loop{L.n_loop}.invariant-initial", L.eval_inv(ctx, st, z3.IntVal(0), as_goal=True),
                   {"kind": "loop-invariant", "line": s.lineno})
    from .state import Obligation
    for r in L.res2:
        for ob in r.obligations:
            nob = Obligation(ob.name, ctx.pc + ob.pc, ob.goal, dict(ob.meta, generic_iteration=True))
            ctx.obligations.append(nob)
        ctx.assumptions_used.extend(r.assumptions)
    cj = L.cj

    def all_before(k):
        q = z3.Int(f"q!{L.uid}")
        body = z3.substitute(cj, (j, q))
        return z3.ForAll([q], z3.Implies(z3.And(q >= 0, q < k), body))

    exits = L.exits
    import os as _os
    if _os.environ.get("PYVC_NO_MERGE") is None and exits:
        if _merged_exits(ex, ctx, st, s, L, cj, all_before):
            return
    d = ctx.choose(1 + len(exits))
    if d == 0:
        ctx.assume(n >= 0)
        if not z3.is_true(cj):
            ctx.constrain(all_before(n))
        L.pre_state(ctx, st, n)
        ctx.check_feasible()
        ex.exec_block(ctx, st, s.orelse)
        return
    _take_exit(ctx, st, L, exits[d - 1], all_before)


def _take_exit(ctx, st, L, p, all_before):
    j, n, cj = L.j, L.n, L.cj
    k = ctx.fresh("k", Int, tuple(st.idx))
    pairs = [(j, k)]
    ctx.constrain(z3.And(k >= 0, k < n))
    if not z3.is_true(cj):
        ctx.constrain(all_before(k))
    for c, kd in zip(p.pc, p.kinds):
        if kd in ("A", "G"):
            ctx.assume(z3.substitute(c, *pairs), glob=(kd == "G"))
        else:
            ctx.constrain(z3.substitute(c, *pairs))
    ctx.check_feasible()
    if not ctx.feasible_full_memo(3000):
        raise Infeasible()
    # adopt the exit path's final state at index k
    ps = p.state.copy()
    subst_state(ps, pairs)
    st.heap = ps.heap
    st.frames = ps.frames
    st.ghost = ps.ghost
    st.idx = st.idx[:len(st.idx)]  # leave generic index scope (idx of the entry state)
    st.tracked = ps.tracked
    if p.outcome == "break":
        return
    if p.outcome == "return":
        raise ReturnEx(subst_sv(p.value, pairs) if isinstance(p.value, SV) else p.value)
    if p.outcome == "raise":
        raise RaiseEx(p.value.exc, p.value.msg, p.value.where)
    raise CheckerError(p.outcome)


class _AltCtx:
    """Collects the assumptions / constraints of one alternative without committing them to the path."""

    def __init__(self, ctx):
        self._c = ctx
        self.items = []  # (cond, kind)
        self.names = []

    def assume(self, cond, name=None, glob=False, heavy=False):
        cond = simp(cond) if not isinstance(cond, bool) else z3.BoolVal(cond)
        if not z3.is_true(cond):
            self.items.append((cond, "G" if glob else "A"))
        if name:
            self.names.append(name)

    def constrain(self, cond):
        cond = simp(cond) if not isinstance(cond, bool) else z3.BoolVal(cond)
        if not z3.is_true(cond):
            self.items.append((cond, "B"))

    def __getattr__(self, name):
        return getattr(self._c, name)


def _same_val(a, b):
    if a is b:
        return True
    if a is None or b is None or not isinstance(a, SV) or not isinstance(b, SV):
        return False
    if a.k == "py" or b.k == "py":
        return a.k == b.k and a.py is b.py
    if a.k == "none" and b.k == "none":
        return True
    try:
        return z3.eq(simp(box(a)), simp(box(b)))
    except Exception:
        return False


def _merged_exits(ex, ctx, st, s, L, cj, all_before):
    """State merge at the loop exit: the alternatives that continue after the loop (no `break` + else-block that
    falls through, and every `break` exit) become ONE continuation whose carried locals and heap arrays are fresh
    symbols constrained by the disjunction of the alternatives (each alternative = its exit condition and the
    equations state' = state_i).  Sound and complete for the set of post-loop states; it replaces the product of
    path counts of consecutive loops by their sum.  Returns False (nothing changed) when a merge is not possible
    (concrete Python objects differ, non-falling else-block ...): the caller then forks as before."""
    j, n = L.j, L.n
    if any(p.outcome not in ("break",) for p in L.exits):
        others = [p for p in L.exits if p.outcome != "break"]
    else:
        others = []
    breaks = [p for p in L.exits if p.outcome == "break"]
    if not breaks:
        return False
    nfr = len(st.frames)
    alts = []  # (items [(cond, kind)], state, names)
    # ---- the no-break alternative (else-block executed)
    a0 = _AltCtx(ctx)
    st0 = st.copy()
    a0.assume(n >= 0)
    if not z3.is_true(cj):
        a0.constrain(all_before(n))
    L.pre_state(a0, st0, n)
    else_obls = []
    if s.orelse:
        base_pc = list(ctx.pc) + [c for c, _ in a0.items]
        base_kinds = list(ctx.kinds) + [k for _, k in a0.items]
        sub = Explorer(parent=ctx, base_kinds=base_kinds, base_pc=base_pc,
                       branch_timeout_ms=ctx.explorer.branch_timeout_ms, stats=ctx.explorer.stats)

        def run_else(c2):
            st2 = st0.copy()
            ex.exec_block(c2, st2, s.orelse)
            return st2, "fall", None
        try:
            res = sub.explore(run_else)
        except (BreakEx, ContinueEx):
            return False
        if any(r.outcome != "fall" for r in res):
            return False  # else-block returns / raises on some path: keep the forking rule
        for r in res:
            items = list(a0.items) + list(zip(r.pc, r.kinds))
            alts.append((items, r.state, list(a0.names) + list(r.assumptions)))
            else_obls.extend(r.obligations)
    else:
        alts.append((list(a0.items), st0, list(a0.names)))
    # ---- break alternatives
    for p in breaks:
        a = _AltCtx(ctx)
        k = ctx.fresh("k", Int, tuple(st.idx))
        pairs = [(j, k)]
        a.constrain(z3.And(k >= 0, k < n))
        if not z3.is_true(cj):
            a.constrain(all_before(k))
        for c, kd in zip(p.pc, p.kinds):
            a.items.append((simp(z3.substitute(c, *pairs)), "G" if kd == "G" else ("A" if kd in ("A", "D") else "B")))
        ps = p.state.copy()
        subst_state(ps, pairs)
        alts.append((a.items, ps, list(p.assumptions)))
    # ---- can the states be merged?
    for _, sa, _n in alts:
        if len(sa.frames) != nfr or len(sa.tracked) != len(st.tracked):
            return False
        if set(sa.ghost) != set(st.ghost):
            return False
        for gk, gv in sa.ghost.items():
            ov = st.ghost[gk]
            if gv is ov:
                continue
            if isinstance(gv, list) and isinstance(ov, list) and len(gv) == len(ov) and \
                    all((x is y) or (z3.is_expr(x) and z3.is_expr(y) and z3.eq(x, y)) for x, y in zip(gv, ov)):
                continue
            if isinstance(gv, (bool, str, int, type(None))) and gv == ov:
                continue
            return False
        if any(not z3.eq(x, y) for x, y in zip(sa.tracked, st.tracked)):
            return False
    eqs = [[] for _ in alts]
    new_frames_vars = []
    for fi in range(nfr):
        names = set()
        for _, sa, _n in alts:
            names |= set(sa.frames[fi].vars)
        merged = {}
        for v in sorted(names):
            vals = [sa.frames[fi].vars.get(v) for _, sa, _n in alts]
            present = [x for x in vals if x is not None]
            if all(_same_val(present[0], x) for x in present[1:]) and len(present) == len(vals):
                merged[v] = present[0]
                continue
            if any(x.k == "py" for x in present):
                if all(_same_val(present[0], x) for x in present[1:]):
                    merged[v] = present[0]  # unbound on some alternatives: treated as this value there
                    continue
                return False
            kinds = {x.k for x in present}
            if len(present) == len(vals) and len(kinds) == 1 and next(iter(kinds)) in ("int", "bool", "str", "flt"):
                kd = present[0].k
                so = {"int": Int, "bool": z3.BoolSort(), "str": z3.StringSort(), "flt": z3.RealSort()}[kd]
                r = ctx.fresh("mx_" + v, so, tuple(st.idx))
                for i, x in enumerate(vals):
                    t = x.t
                    if isinstance(t, bool):
                        t = z3.BoolVal(t)
                    eqs[i].append(r == t)
                merged[v] = SV(kd, r)
            else:
                r = ctx.fresh("mx_" + v, V, tuple(st.idx))
                for i, x in enumerate(vals):
                    if x is not None:  # python-semantics: a local unbound on this alternative is arbitrary
                        eqs[i].append(r == box(x))
                merged[v] = mk_any(r)
        new_frames_vars.append(merged)
    attrs = set()
    for _, sa, _n in alts:
        attrs |= set(sa.heap)
    new_heap = {}
    for a_ in sorted(attrs):
        terms = [ex.heap_get(sa, a_) for _, sa, _n in alts]
        if all(z3.eq(terms[0], t) for t in terms[1:]):
            new_heap[a_] = terms[0]
            continue
        r = ctx.fresh("mxH_" + a_.replace("$", "S"), terms[0].sort(), tuple(st.idx))
        for i, t in enumerate(terms):
            eqs[i].append(r == t)
        new_heap[a_] = r
    # ---- commit: first decide between the merged continuation and the exits that leave the function
    d = ctx.choose(1 + len(others))
    if d > 0:
        _take_exit(ctx, st, L, others[d - 1], all_before)
        return True
    disj = []
    for (items, sa, names_), e in zip(alts, eqs):
        for c, kd in items:
            if kd == "G":
                ctx.assume(c, glob=True)
        conj = [c for c, kd in items if kd != "G"] + e
        disj.append(z3.And(*conj) if conj else z3.BoolVal(True))
        ctx.assumptions_used.extend(names_)
    ctx.constrain(z3.Or(*disj) if len(disj) > 1 else disj[0])
    from .state import Obligation
    for ob in else_obls:
        ctx.obligations.append(ob)
    ctx.check_feasible()
    for fi in range(nfr):
        st.frames[fi].vars.clear()
        st.frames[fi].vars.update(new_frames_vars[fi])
    st.heap = new_heap
    return True


# ------------------------------------------------------------------------------------------------ while
def exec_while(ex, ctx, st, s):
    """Arbitrary-iteration rule: carried state is classified as for `for`; the loop exits either because the
    test is false in some (havocked) state or through break / return / raise of a generic iteration.
    No termination claim."""
    fr_i = len(st.frames) - 1
    fr = st.frames[fr_i]
    # concrete fast path: test is concretely decidable and loop ends quickly
    W = sorted(assigned_names(s.body))
    attrs = sorted(mutable_attrs(ex))
    for a in attrs:
        ex.heap_get(st, a)
    s0 = {v: fr.vars.get(v) for v in W}
    heap0 = dict(st.heap)
    j = ctx.fresh("w", Int)
    stats = ctx.explorer.stats
    h_loc = {v: z3.Const(f"h_{v}!{ctx.explorer.uid}.{ctx.fresh_n}", V) for v in W}
    h_heap = {a: z3.Const(f"hH_{a.replace('$', 'S')}!{ctx.explorer.uid}.{ctx.fresh_n}", heap0[a].sort()) for a in attrs}
    hsyms = {t.decl().name() for t in list(h_loc.values()) + list(h_heap.values())}

    # explicit invariant (sidecar `loop_inv_<n>`), bound by loop ordinal; its parameters name locals of the function
    inv = None
    n_loop = None
    if fr_i == getattr(ex, "top_frame_index", -1):
        n_loop = ex.loop_ids.get(id(s))
        inv = ex.loop_invs.get(n_loop)

    def eval_inv(c2, st2, as_goal=False):
        scope, fdef = inv
        f2 = st2.frames[fr_i]
        args = []
        for a in fdef.args.args:
            if a.arg.endswith("_entry") and a.arg[:-6] in getattr(ex, "entry_args", {}):
                args.append(ex.entry_args[a.arg[:-6]])
            elif a.arg in f2.vars:
                args.append(f2.vars[a.arg])
            else:
                raise CheckerError(f"loop invariant {fdef.name}: no local named {a.arg}")
        from . import calls
        return calls.eval_spec_bool(ex, c2, st2, (scope, fdef), args, as_goal=as_goal)

    if inv is not None:
        ctx.oblige(f"{fr.fname}#loop{n_loop}.invariant-initial", eval_inv(ctx, st, as_goal=True),
                   {"kind": "loop-invariant", "line": s.lineno})

    def run_iter(setup, check_inv=False):
        def run(c2):
            st2 = st.copy()
            st2.idx = st2.idx + [j]
            setup(c2, st2)
            if inv is not None:
                c2.assume(eval_inv(c2, st2))
            try:
                c = ex.truth(c2, st2, ex.eval(c2, st2, s.test))
                if not c2.branch(c):
                    return st2, "exit", None
                try:
                    ex.exec_block(c2, st2, s.body)
                except ContinueEx:
                    pass
                if inv is not None and check_inv:
                    c2.oblige(f"{fr.fname}#loop{n_loop}.invariant-preserved", eval_inv(c2, st2, as_goal=True),
                              {"kind": "loop-invariant", "line": s.lineno})
                return st2, "fall", None
            except ContinueEx:
                return st2, "continue", None
            except BreakEx:
                return st2, "break", None
            except ReturnEx as r:
                return st2, "return", r.value
            except RaiseEx as r:
                return st2, "raise", r
        return run

    def setup1(c2, st2):
        f2 = st2.frames[fr_i]
        for v in W:
            f2.vars[v] = mk_any(h_loc[v])
        for a in attrs:
            st2.heap[a] = h_heap[a]

    sub1 = Explorer(parent=ctx, base_kinds=ctx.kinds, base_pc=ctx.pc + [j >= 0], branch_timeout_ms=ctx.explorer.branch_timeout_ms, stats=stats)
    res1 = sub1.explore(run_iter(setup1))
    cont1 = [r for r in res1 if r.outcome in ("fall", "continue")]
    cls_loc, cls_heap = classify(ex, global_facts(ctx), st, W, attrs, h_loc, h_heap, cont1, hsyms, st.tracked)
    hv_fun = {}

    def setup2(c2, st2):
        f2 = st2.frames[fr_i]
        for v in W:
            kind, f = cls_loc[v]
            init = s0[v]
            if kind == "same":
                if init is not None:
                    f2.vars[v] = init
                else:
                    f2.vars.pop(v, None)
            else:
                hv = c2.fresh(f"hw_{v}", V, tuple(st2.idx))
                if init is None or init.k == "py":
                    f2.vars[v] = mk_any(hv)
                else:
                    f2.vars[v] = mk_any(simp(z3.If(j == 0, box(init), hv)))
        for a in attrs:
            kind, kept = cls_heap[a][:2]
            if kind == "same":
                st2.heap[a] = heap0[a]
            else:
                hv = c2.fresh(f"hwH_{a.replace('$', 'S')}", heap0[a].sort(), tuple(st2.idx))
                st2.heap[a] = simp(z3.If(j == 0, heap0[a], hv))
                for tr in kept:
                    c2.assume(z3.Select(hv, tr) == z3.Select(heap0[a], tr))

    sub2 = Explorer(parent=ctx, base_kinds=ctx.kinds, base_pc=ctx.pc + [j >= 0], branch_timeout_ms=ctx.explorer.branch_timeout_ms, stats=stats)
    res2 = sub2.explore(run_iter(setup2, check_inv=True))
    exits = [r for r in res2 if r.outcome not in ("fall", "continue")]
    for r in res2:
        for ob in r.obligations:
            ob.meta = dict(ob.meta, generic_iteration=True)
            ctx.obligations.append(ob)
        ctx.assumptions_used.extend(r.assumptions)
    d = ctx.choose(len(exits))
    p = exits[d]
    k = ctx.fresh("wk", Int, tuple(st.idx))
    pairs = [(j, k)]
    ctx.constrain(k >= 0)
    for c, kd in zip(p.pc, p.kinds):
        if kd in ("A", "G"):
            ctx.assume(z3.substitute(c, *pairs), glob=(kd == "G"))
        else:
            ctx.constrain(z3.substitute(c, *pairs))
    ctx.check_feasible()
    ps = p.state
    subst_state(ps, pairs)
    st.heap = ps.heap
    st.frames = ps.frames
    st.ghost = ps.ghost
    st.tracked = ps.tracked
    if p.outcome == "exit":
        ex.exec_block(ctx, st, s.orelse)
        return
    if p.outcome == "break":
        return
    if p.outcome == "return":
        raise ReturnEx(subst_sv(p.value, pairs) if isinstance(p.value, SV) else p.value)
    if p.outcome == "raise":
        raise RaiseEx(p.value.exc, p.value.msg, p.value.where)


# ------------------------------------------------------------------------------------------------ any / all / comprehensions
def _gen_parts(node):
    if len(node.generators) != 1:
        raise Unsupported("nested comprehension")
    g = node.generators[0]
    if g.is_async:
        raise Unsupported("async comprehension")
    return g


def pure_generic(ex, ctx, st, frame, g, exprs, view, j, extra_guard=None):
    """Evaluate [ifs..., exprs...] at generic index j without side effects; returns (guard Bool, [SV per expr])
    merged over paths. Raises Unsupported if a path can raise."""
    results = []

    def run(c2):
        st2 = st.copy()
        st2.idx = st2.idx + [j]
        st2.ghost["$write_log"] = None
        # comprehension scope: new frame whose parent is the defining frame
        pf = st2.frames[st.frames.index(frame)] if frame in st.frames else st2.frames[-1]
        f2 = Frame({}, pf, pf.globals_mod, pf.fname + ".<comp>")
        st2.frames.append(f2)
        try:
            ex.assign_target(c2, st2, g.target, _elem(view, j, c2))
            guard_ok = True
            for cond in g.ifs:
                c = ex.truth(c2, st2, ex.eval(c2, st2, cond))
                if not c2.branch(c):
                    guard_ok = False
                    break
            if not guard_ok:
                return st2, "skip", None
            vals = [ex.eval(c2, st2, e) for e in exprs]
            return st2, "ok", vals
        except RaiseEx as r:
            return st2, "raise", r

    sub = Explorer(parent=ctx, base_kinds=ctx.kinds, base_pc=ctx.pc + [j >= 0, j < view.n], branch_timeout_ms=ctx.explorer.branch_timeout_ms,
                   stats=ctx.explorer.stats)
    res = sub.explore(run)
    return res


def any_all(ex, ctx, st, it, is_all, node):
    if it.k == "py" and isinstance(it.py, GenExp):
        ge = it.py
        g = _gen_parts(ge.node)
        src = eval_in_frame(ex, ctx, st, ge.frame, g.iter)
        items = concrete_items(ex, ctx, st, src)
        if items is not None:
            acc = []
            for x in items:
                f2 = Frame({}, ge.frame, ge.frame.globals_mod, ge.frame.fname + ".<comp>")
                st.frames.append(f2)
                try:
                    ex.assign_target(ctx, st, g.target, x)
                    ok = True
                    for cond in g.ifs:
                        if not ctx.branch(ex.truth(ctx, st, ex.eval(ctx, st, cond))):
                            ok = False
                            break
                    if not ok:
                        continue
                    t = ctx.branch(ex.truth(ctx, st, ex.eval(ctx, st, ge.node.elt)))
                finally:
                    st.frames.pop()
                if is_all and not t:
                    return mk_bool(False)
                if not is_all and t:
                    return mk_bool(True)
            return mk_bool(is_all)
        view = seq_view(ex, ctx, st, src, node)
        j = ctx.fresh("g", Int)
        res = pure_generic(ex, ctx, st, ge.frame, g, [ge.node.elt], view, j)
        if any(r.outcome == "raise" for r in res):
            raise Unsupported("any()/all() body may raise")
        # truth of element at j, merged
        hit = []
        for r in res:
            if r.outcome != "ok":
                continue
            t = ex.truth(ctx, st, r.value[0])
            t = z3.BoolVal(t) if isinstance(t, bool) else t
            want = z3.Not(t) if is_all else t
            hit.append(z3.And(*r.pc, want) if r.pc else want)
        for r in res:
            ctx.assumptions_used.extend(r.assumptions)
        witness = simp(z3.Or(*hit)) if hit else z3.BoolVal(False)
        q = z3.Int(f"q!{ctx.explorer.uid}.{ctx.fresh_n}a")
        ex_q = z3.Exists([q], z3.And(q >= 0, q < view.n, z3.substitute(witness, (j, q))))
        return mk_bool(z3.Not(ex_q) if is_all else ex_q)
    items = concrete_items(ex, ctx, st, it)
    if items is not None:
        for x in items:
            t = ctx.branch(ex.truth(ctx, st, x))
            if is_all and not t:
                return mk_bool(False)
            if not is_all and t:
                return mk_bool(True)
        return mk_bool(is_all)
    view = seq_view(ex, ctx, st, it, node)
    q = z3.Int(f"q!{ctx.explorer.uid}.{ctx.fresh_n}b")
    t = ex.truth(ctx, st, view.elem(q))
    t = z3.BoolVal(t) if isinstance(t, bool) else t
    if is_all:
        return mk_bool(z3.ForAll([q], z3.Implies(z3.And(q >= 0, q < view.n), t)))
    return mk_bool(z3.Exists([q], z3.And(q >= 0, q < view.n, t)))


def eval_in_frame(ex, ctx, st, frame, expr):
    """Evaluate expr with `frame` as innermost scope (generator expressions evaluate lazily in their own
    defining scope)."""
    f2 = Frame({}, frame, frame.globals_mod, frame.fname)
    st.frames.append(f2)
    try:
        return ex.eval(ctx, st, expr)
    finally:
        st.frames.pop()


def exists_non_str(ex, ctx, st, it, node):
    return None


def eval_comprehension(ex, ctx, st, e, kind, frame=None):
    from . import containers
    g = _gen_parts(e)
    frame = frame or st.frames[-1]
    src = eval_in_frame(ex, ctx, st, frame, g.iter)
    exprs = [e.key, e.value] if kind == "dict" else [e.elt]
    items = concrete_items(ex, ctx, st, src)
    if items is not None:
        out = []
        for x in items:
            f2 = Frame({}, frame, frame.globals_mod, frame.fname + ".<comp>")
            st.frames.append(f2)
            try:
                ex.assign_target(ctx, st, g.target, x)
                ok = True
                for cond in g.ifs:
                    if not ctx.branch(ex.truth(ctx, st, ex.eval(ctx, st, cond))):
                        ok = False
                        break
                if ok:
                    out.append([ex.eval(ctx, st, x_) for x_ in exprs])
            finally:
                st.frames.pop()
        if kind == "list":
            return ex.new_list(ctx, st, [o[0] for o in out])
        if kind == "set":
            return containers.new_set(ex, ctx, st, [o[0] for o in out])
        d = ex.new_dict(ctx, st)
        for kx, vx in out:
            ex.set_item(ctx, st, d, kx, vx, e)
        return d
    view = seq_view(ex, ctx, st, src, e)
    return containers.comprehension(ex, ctx, st, e, kind, frame, g, exprs, view)
