"""Models of Python builtins / str methods / trusted externals.

Everything axiomatised here is listed in AXIOMS (name -> text) and cross-checked against CPython on a small
exhaustive domain by pyvc.axiomcheck on every run.
"""
import builtins as _bi
import math
import z3

from .z import V, VL, Int, simp
from .values import (SV, NONE, mk_int, mk_bool, mk_str, mk_flt, mk_ref, mk_any, mk_tup, mk_py, from_py, const_of,
                     box, Unsupported)
from .state import RaiseEx, CheckerError, Explorer
from .schema import cls_of

S = z3.StringSort()
R = z3.RealSort()
B = z3.BoolSort()

# --- uninterpreted builtins -------------------------------------------------------------------------------
is_base_n = z3.Function("py_is_base_n", S, Int, B)      # int(s, n) does not raise ValueError
int_of = z3.Function("py_int_of", S, Int, Int)          # int(s, n) when it does not raise
str_of_int = z3.Function("py_str_of_int", Int, S)       # str(i)
hex_of_int = z3.Function("py_hex_of_int", Int, S)       # hex(i)
is_float_str = z3.Function("py_float_parses", S, B)     # float(s) does not raise (may be inf/nan)
is_finite_str = z3.Function("py_float_finite", S, B)    # float(s) parses and is finite
float_of = z3.Function("py_float_of", S, R)             # float(s) when finite
str_of_flt = z3.Function("py_str_of_float", R, S)       # str(x) for a finite float x
str_of_v = z3.Function("py_str_of_value", V, S)         # str(x) for other values (opaque)
rich_escape = z3.Function("rich_escape", S, S)
str_lower = z3.Function("py_str_lower", S, S)
str_upper = z3.Function("py_str_upper", S, S)
str_strip = z3.Function("py_str_strip", S, S)
str_lstrip = z3.Function("py_str_lstrip", S, S)
str_rstrip = z3.Function("py_str_rstrip", S, S)
str_isdigit = z3.Function("py_str_isdigit", S, B)

AXIOMS = {
    "int-str-roundtrip": "for every int i: int(str(i), 10) parses and equals i",
    "int-hex-roundtrip": "for every int i: int(hex(i), 16) parses and equals i",
    "float-str-roundtrip": "for every finite float x: float(str(x)) parses, is finite and equals x",
    "parse-nonempty": "int(s, base) and float(s) raise ValueError for the empty string",
    "int-is-float": "every base-10 integer literal accepted by int(s,10) whose magnitude is < 2**53 is accepted by"
                    " float(s) with the same numeric value (used only where stated)",
}


def ax_int_str(ctx, i):
    s = str_of_int(i)
    ctx.assume(z3.And(is_base_n(s, 10), int_of(s, 10) == i), "axiom:int-str-roundtrip")
    return s


def ax_int_hex(ctx, i):
    s = hex_of_int(i)
    ctx.assume(z3.And(is_base_n(s, 16), int_of(s, 16) == i), "axiom:int-hex-roundtrip")
    return s


def ax_flt_str(ctx, x):
    s = str_of_flt(x)
    ctx.assume(z3.And(is_float_str(s), is_finite_str(s), float_of(s) == x), "axiom:float-str-roundtrip")
    return s


def _need_str(ex, ctx, st, v, node, exc="TypeError"):
    if v.k == "str":
        return v
    if v.k == "any":
        if ctx.branch(V.is_STR(v.t)):
            return mk_str(simp(V.s(v.t)))
    ex.raise_(st, exc, node)


# --- builtin functions ------------------------------------------------------------------------------------
def b_len(ex, ctx, st, args, kwargs, node):
    (v,) = args
    if v.k == "str":
        return mk_int(z3.Length(v.t))
    if v.k == "tup":
        return mk_int(len(v.t))
    if v.k == "py":
        try:
            return mk_int(len(v.py))
        except TypeError:
            ex.raise_(st, "TypeError", node)
    if v.k == "any":
        if ctx.branch(V.is_STR(v.t)):
            return mk_int(z3.Length(V.s(v.t)))
        if ctx.branch(V.is_TUP(v.t)):
            items = ex.as_tuple_items(ctx, v)
            return mk_int(len(items))
        if not ctx.branch(V.is_REF(v.t)):
            ex.raise_(st, "TypeError", node)
        v = mk_ref(simp(V.r(v.t)))
    if v.k == "ref":
        for kind in ("list", "dict", "set"):
            if ex.is_container(ctx, st, v, kind):
                ln = z3.Select(ex.heap_get(st, "$len"), v.t)
                ctx.assume(ln >= 0, "container-length-nonnegative")
                return mk_int(simp(ln))
    ex.raise_(st, "TypeError", node)


def _minmax(is_min):
    def f(ex, ctx, st, args, kwargs, node):
        if kwargs:
            raise Unsupported("min/max keyword arguments")
        if len(args) == 1:
            raise Unsupported("min/max over an iterable")
        vals = [ex.need_num(ctx, st, a, node) for a in args]
        if any(v.k == "flt" for v in vals):
            ts = [z3.ToReal(ex.num_term(v)) if v.k != "flt" else v.t for v in vals]
            mk = mk_flt
        else:
            ts = [ex.num_term(v) for v in vals]
            mk = mk_int
        cur = ts[0]
        for t in ts[1:]:
            # Python's min/max return the first extremal element; on numbers only the value matters
            cur = z3.If(t < cur, t, cur) if is_min else z3.If(t > cur, t, cur)
        return mk(simp(cur))
    return f


def b_int(ex, ctx, st, args, kwargs, node):
    if not args:
        return mk_int(0)
    v = args[0]
    base = args[1] if len(args) > 1 else kwargs.get("base")
    if base is None:
        if v.k == "any":
            v2 = ex.concretize_kind(ctx, v, ("int", "bool", "str", "flt"))
            if v2 is None:
                ex.raise_(st, "TypeError", node)
            v = v2
        if v.k in ("int", "bool"):
            return mk_int(ex.num_term(v))
        if v.k == "flt":
            raise Unsupported("int(float)")
        if v.k == "str":
            ctx.assume(z3.Implies(is_base_n(v.t, 10), z3.Length(v.t) > 0), "axiom:parse-nonempty")
            if not ctx.branch(is_base_n(v.t, 10)):
                ex.raise_(st, "ValueError", node)
            return mk_int(int_of(v.t, 10))
        ex.raise_(st, "TypeError", node)
    b = ex.need_int(ctx, st, base, node)
    if v.k == "any":
        if not ctx.branch(V.is_STR(v.t)):
            ex.raise_(st, "TypeError", node)  # int(non-str, base) -> TypeError
        v = mk_str(simp(V.s(v.t)))
    if v.k != "str":
        ex.raise_(st, "TypeError", node)
    okb, bv = const_of(b)
    okv, vv = const_of(v)
    if okb and okv:
        try:
            return mk_int(int(vv, bv))
        except ValueError:
            ex.raise_(st, "ValueError", node)
    ctx.assume(z3.Implies(is_base_n(v.t, b.t), z3.Length(v.t) > 0), "axiom:parse-nonempty")
    if not ctx.branch(is_base_n(v.t, b.t)):
        ex.raise_(st, "ValueError", node)
    return mk_int(int_of(v.t, b.t))


def b_float(ex, ctx, st, args, kwargs, node):
    (v,) = args
    if v.k == "any":
        v2 = ex.concretize_kind(ctx, v, ("flt", "int", "bool", "str"))
        if v2 is None:
            ex.raise_(st, "TypeError", node)
        v = v2
    if v.k == "flt":
        return v
    if v.k in ("int", "bool"):
        return mk_flt(z3.ToReal(ex.num_term(v)))
    if v.k == "str":
        ok, s = const_of(v)
        if ok:
            try:
                x = float(s)
            except ValueError:
                ex.raise_(st, "ValueError", node)
            if math.isfinite(x):
                from fractions import Fraction
                fr = Fraction(x)
                return mk_flt(z3.RealVal(f"{fr.numerator}/{fr.denominator}"))
            return mk_py(x)  # inf / nan as concrete python floats
        ctx.assume(z3.Implies(is_float_str(v.t), z3.Length(v.t) > 0), "axiom:parse-nonempty")
        if not ctx.branch(is_float_str(v.t)):
            ex.raise_(st, "ValueError", node)
        if not ctx.branch(is_finite_str(v.t)):
            return mk_py(NonFinite(v.t))
        return mk_flt(float_of(v.t))
    ex.raise_(st, "TypeError", node)


class NonFinite:
    """float('inf'/'nan'...) of a symbolic string: only math.isfinite() may consume it."""

    def __init__(self, s):
        self.s = s


def b_str(ex, ctx, st, args, kwargs, node):
    if not args:
        return mk_str("")
    return ex.to_str(ctx, st, args[0], node)


def b_hex(ex, ctx, st, args, kwargs, node):
    (v,) = args
    if v.k == "any":
        v2 = ex.concretize_kind(ctx, v, ("int", "bool"))
        if v2 is None:
            ex.raise_(st, "TypeError", node)
        v = v2
    if v.k not in ("int", "bool"):
        ex.raise_(st, "TypeError", node)
    ok, c = const_of(v)
    if ok:
        return mk_str(hex(c))
    return mk_str(ax_int_hex(ctx, ex.num_term(v)))


def b_bool(ex, ctx, st, args, kwargs, node):
    if not args:
        return mk_bool(False)
    t = ex.truth(ctx, st, args[0])
    return mk_bool(t)


def b_abs(ex, ctx, st, args, kwargs, node):
    v = ex.need_num(ctx, st, args[0], node)
    t = ex.num_term(v)
    return SV("flt" if v.k == "flt" else "int", simp(z3.If(t < 0, -t, t)))


def class_test(ex, ctx, st, v, cls_obj, node):
    """isinstance(v, cls_obj) as z3 Bool / python bool."""
    if isinstance(cls_obj, tuple):
        cs = [class_test(ex, ctx, st, v, c, node) for c in cls_obj]
        if any(c is True for c in cs):
            return True
        cs = [c for c in cs if c is not False]
        return z3.Or(*cs) if cs else False
    kinds = {tuple: "tup", str: "str", int: ("int", "bool"), bool: "bool", float: "flt", type(None): "none"}
    if cls_obj in kinds:
        k = kinds[cls_obj]
        ks = k if isinstance(k, tuple) else (k,)
        if v.k == "any":
            return z3.Or(*[ex.tag_test(v, kk) for kk in ks])
        if v.k == "py":
            return isinstance(v.py, cls_obj)
        return v.k in ks
    if cls_obj in (list, dict, set, frozenset):
        name = {list: "list", dict: "dict", set: "set", frozenset: "set"}[cls_obj]
        if v.k == "py":
            return isinstance(v.py, cls_obj)
        return _ref_has_class(ex, v, [name])
    if cls_obj is object:
        return True
    name = getattr(cls_obj, "__name__", None)
    if name in ex.reg.classes:
        if v.k == "py":
            return False
        # subclasses registered with `bases`
        names = [name] + [c.name for c in ex.reg.classes.values() if name in getattr(c, "bases", ())]
        return _ref_has_class(ex, v, names)
    raise Unsupported(f"isinstance against unregistered class {name}")


def _ref_has_class(ex, v, names):
    tags = [ex.reg.classes[n].tag for n in names]
    if v.k == "ref":
        if v.cls:
            return v.cls in names
        return z3.Or(*[cls_of(v.t) == t for t in tags])
    if v.k == "any":
        return z3.And(V.is_REF(v.t), z3.Or(*[cls_of(V.r(v.t)) == t for t in tags]))
    return False


def b_isinstance(ex, ctx, st, args, kwargs, node):
    v, c = args
    ok, cls_obj = const_of(c)
    if not ok:
        raise Unsupported("isinstance with symbolic class")
    return mk_bool(class_test(ex, ctx, st, v, cls_obj, node))


class TypeOf:
    """Result of type(x): only compared with `is` / `==` / `in` against concrete classes."""

    def __init__(self, v):
        self.v = v


def b_type(ex, ctx, st, args, kwargs, node):
    (v,) = args
    return mk_py(TypeOf(v))


def type_is(ex, ctx, st, v, cls_obj, node=None):
    """type(v) is cls_obj (exact class: bool is not int; subclasses registered with `bases` are other classes)."""
    if not isinstance(cls_obj, type):
        return False
    if cls_obj is int:
        if v.k == "any":
            return ex.tag_test(v, "int")
        if v.k == "py":
            return type(v.py) is int
        return v.k == "int"
    name = getattr(cls_obj, "__name__", None)
    if name in ex.reg.classes and not ex.reg.classes[name].container:
        if v.k == "py":
            return False
        return _ref_has_class(ex, v, [name])
    return class_test(ex, ctx, st, v, cls_obj, node)


def b_hasattr(ex, ctx, st, args, kwargs, node):
    v, n = args
    ok, name = const_of(n)
    if not ok:
        raise Unsupported("hasattr with symbolic name")
    cands = ex.reg.classes_with_attr(name)
    if v.k == "py":
        return mk_bool(hasattr(v.py, name))
    if v.k == "str":
        return mk_bool(hasattr("", name))
    if v.k in ("int", "bool", "flt", "none", "tup"):
        return mk_bool(False)
    return mk_bool(_ref_has_class(ex, v, [c.name for c in cands]) if cands else False)


def b_print(ex, ctx, st, args, kwargs, node):
    from . import effects
    return effects.do_print(ex, ctx, st, args, kwargs, node)


def b_tuple(ex, ctx, st, args, kwargs, node):
    if not args:
        return mk_tup([])
    v = args[0]
    if v.k == "tup":
        return v
    raise Unsupported("tuple(iterable)")


def b_any_all(is_all):
    def f(ex, ctx, st, args, kwargs, node):
        from . import loops
        return loops.any_all(ex, ctx, st, args[0], is_all, node)
    return f


def b_list(ex, ctx, st, args, kwargs, node):
    from . import containers
    return containers.make_list(ex, ctx, st, args, node)


def b_dict(ex, ctx, st, args, kwargs, node):
    from . import containers
    return containers.make_dict(ex, ctx, st, args, kwargs, node)


def b_set(ex, ctx, st, args, kwargs, node):
    from . import containers
    return containers.make_set(ex, ctx, st, args, node)


def b_reversed(ex, ctx, st, args, kwargs, node):
    from . import containers
    return containers.reversed_(ex, ctx, st, args[0], node)


def b_sorted(ex, ctx, st, args, kwargs, node):
    from . import containers
    return containers.sorted_(ex, ctx, st, args, kwargs, node)


def b_repr(ex, ctx, st, args, kwargs, node):
    return mk_str(str_of_v(V.TUP(VL.CONS(box(args[0]), VL.NIL))))


BUILTINS = {
    _bi.len: b_len,
    _bi.min: _minmax(True),
    _bi.max: _minmax(False),
    _bi.hex: b_hex,
    _bi.abs: b_abs,
    _bi.isinstance: b_isinstance,
    _bi.hasattr: b_hasattr,
    _bi.print: b_print,
    _bi.any: b_any_all(False),
    _bi.all: b_any_all(True),
    _bi.reversed: b_reversed,
    _bi.sorted: b_sorted,
    _bi.repr: b_repr,
}


def _fx(name):
    def f(ex, ctx, st, args, kwargs, node):
        from . import effects
        return getattr(effects, name)(ex, ctx, st, args, kwargs, node)
    return f


BUILTINS[_bi.open] = _fx("b_open")


def call_type(ex, ctx, st, o, args, kwargs, node):
    if o is int:
        return b_int(ex, ctx, st, args, kwargs, node)
    if o is float:
        return b_float(ex, ctx, st, args, kwargs, node)
    if o is str:
        return b_str(ex, ctx, st, args, kwargs, node)
    if o is bool:
        return b_bool(ex, ctx, st, args, kwargs, node)
    if o is type:
        return b_type(ex, ctx, st, args, kwargs, node)
    if o is tuple:
        return b_tuple(ex, ctx, st, args, kwargs, node)
    if o is list:
        return b_list(ex, ctx, st, args, kwargs, node)
    if o is dict:
        return b_dict(ex, ctx, st, args, kwargs, node)
    if o in (set, frozenset):
        return b_set(ex, ctx, st, args, kwargs, node)
    if isinstance(o, type) and issubclass(o, BaseException):
        return mk_py(o)
    name = getattr(o, "__name__", "?")
    if name in ex.reg.classes:
        key = f"{ex.reg.classes[name].module}:{name}.__init__"
        c = ex.reg.contracts.get(key)
        if c is not None:
            from . import calls
            obj = ex.new_obj(ctx, st, name)
            calls.apply_contract(ex, ctx, st, c, [obj] + list(args), kwargs, node)
            return obj
    raise Unsupported(f"construction of {name}")


# --- str methods ------------------------------------------------------------------------------------------
def call_builtin_method(ex, ctx, st, recv, name, args, kwargs, node):
    from . import strings
    if recv.k == "str":
        return strings.str_method(ex, ctx, st, recv, name, args, kwargs, node)
    if recv.k == "tup":
        if name == "index":
            for i, it in enumerate(recv.t):
                if ctx.branch(ex.py_eq(ctx, st, it, args[0])):
                    return mk_int(i)
            ex.raise_(st, "ValueError", node)
        raise Unsupported(f"tuple.{name}")
    o = recv.py
    if isinstance(o, dict):
        if name == "get":
            key = args[0]
            dflt = args[1] if len(args) > 1 else NONE
            ok, kv = const_of(key)
            if ok:
                try:
                    hash(kv)
                except TypeError:
                    ex.raise_(st, "TypeError", node)
                return from_py(o[kv]) if kv in o else dflt
            for k2, v2 in o.items():
                if ctx.branch(ex.py_eq(ctx, st, key, from_py(k2))):
                    return from_py(v2)
            return dflt
        if name in ("items", "keys", "values"):
            vals = {"items": [(k, v) for k, v in o.items()], "keys": list(o.keys()), "values": list(o.values())}[name]
            return from_py(tuple(vals))
    if isinstance(o, str):
        return strings.str_method(ex, ctx, st, mk_str(o), name, args, kwargs, node)
    raise Unsupported(f"method {name} of concrete {type(o).__name__}")


# --- externals (trusted, listed in evidence) --------------------------------------------------------------
def x_log(ex, ctx, st, args, kwargs, node):
    # arguments were evaluated by the caller (exceptions while formatting are seen); no effect on verified state
    return NONE


def x_escape(ex, ctx, st, args, kwargs, node):
    s = _need_str(ex, ctx, st, args[0], node)
    return mk_str(rich_escape(s.t))


def x_isfinite(ex, ctx, st, args, kwargs, node):
    v = args[0]
    if v.k == "py" and isinstance(v.py, NonFinite):
        return mk_bool(False)
    if v.k == "py" and isinstance(v.py, float):
        return mk_bool(math.isfinite(v.py))
    v = ex.need_num(ctx, st, v, node)
    return mk_bool(True)


path_abspath = z3.Function("os_path_abspath", S, S)
path_dirname = z3.Function("os_path_dirname", S, S)
path_join = z3.Function("os_path_join", S, S, S)


def x_abspath(ex, ctx, st, args, kwargs, node):
    s = _need_str(ex, ctx, st, args[0], node)
    return mk_str(path_abspath(s.t))


def x_dirname(ex, ctx, st, args, kwargs, node):
    s = _need_str(ex, ctx, st, args[0], node)
    return mk_str(path_dirname(s.t))


def x_pathjoin(ex, ctx, st, args, kwargs, node):
    if len(args) != 2:
        raise Unsupported("os.path.join with other than two arguments")
    a = _need_str(ex, ctx, st, args[0], node)
    b = _need_str(ex, ctx, st, args[1], node)
    return mk_str(path_join(a.t, b.t))


EXTERNALS = {
    "posix.replace": _fx("x_replace"),
    "shutil.copyfile": _fx("x_copyfile"),
    "posixpath.islink": _fx("x_islink"),
    "genericpath.islink": _fx("x_islink"),
    "genericpath.exists": _fx("x_exists"),
    "posixpath.abspath": x_abspath,
    "posixpath.dirname": x_dirname,
    "posixpath.join": x_pathjoin,
    "rich.markup.escape": x_escape,
    "math.isfinite": x_isfinite,
}

TRUSTED = {
    "esp_pylib.logger": "log.* calls: arguments are evaluated, the call itself has no effect on verified state",
    "rich.markup.escape": "total function str -> str (uninterpreted)",
    "math.isfinite": "True exactly for finite floats",
    "posixpath.abspath": "os.path.abspath: total function str -> str (uninterpreted; the cwd does not change during a call)",
    "posixpath.dirname": "os.path.dirname: total function str -> str (uninterpreted)",
    "posixpath.join": "os.path.join(a, b): total function str x str -> str (uninterpreted)",
}
