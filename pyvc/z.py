"""z3 value universe for pyvc: one algebraic sort V for every Python value the target functions handle.

V  = NONE | BOOL(b) | INT(i) | STR(s) | REF(r) | TUP(t: VL) | FLT(f: Real)
VL = NIL | CONS(hd: V, tl: VL)

Objects (class instances, lists, dicts, sets) are REF(id); their contents live in heap arrays (state.py).
Python semantics assumed by this encoding (reported as `python-semantics:*` in evidence):
  * int is a mathematical integer (true in CPython); float is a real number, only compared / converted;
  * str is a z3 String (sequence of unicode code points);
  * bool is a subclass of int: True == 1, False == 0 in comparisons and arithmetic.
"""
import z3

_V = z3.Datatype("V")
_VL = z3.Datatype("VL")
_V.declare("NONE")
_V.declare("BOOL", ("b", z3.BoolSort()))
_V.declare("INT", ("i", z3.IntSort()))
_V.declare("STR", ("s", z3.StringSort()))
_V.declare("REF", ("r", z3.IntSort()))
_V.declare("TUP", ("t", _VL))
_V.declare("FLT", ("f", z3.RealSort()))
_VL.declare("NIL")
_VL.declare("CONS", ("hd", _V), ("tl", _VL))
V, VL = z3.CreateDatatypes(_V, _VL)

Int = z3.IntSort()
Bool = z3.BoolSort()
Str = z3.StringSort()
Real = z3.RealSort()


def vl_from(items):
    r = VL.NIL
    for it in reversed(items):
        r = VL.CONS(it, r)
    return r


def vl_nth(vl, n):
    for _ in range(n):
        vl = VL.tl(vl)
    return VL.hd(vl)


def vl_len_is(vl, n):
    """z3 Bool: the VL has exactly n elements."""
    conds = []
    cur = vl
    for _ in range(n):
        conds.append(VL.is_CONS(cur))
        cur = VL.tl(cur)
    conds.append(VL.is_NIL(cur))
    return z3.And(*conds)


def vl_len_ge(vl, n):
    conds = []
    cur = vl
    for _ in range(n):
        conds.append(VL.is_CONS(cur))
        cur = VL.tl(cur)
    return z3.And(*conds) if conds else z3.BoolVal(True)


_fresh_counter = [0]


def reset_fresh():
    _fresh_counter[0] = 0


def fresh_name(base):
    _fresh_counter[0] += 1
    return f"{base}!{_fresh_counter[0]}"


def simp(t):
    return z3.simplify(t)


def is_true(t):
    return z3.is_true(t)


def is_false(t):
    return z3.is_false(t)
