"""Heap containers.  list: $len[id] + $elems[id][i];  dict / set: $has[id][k], $val[id][k], $keys[id] = id of a
key list (iteration order; its elements are exactly the keys present, without duplicates -- assumed for
pre-existing containers as `container-wf`, maintained for those built here), $len[id] = number of keys."""
import os
import z3

from .z import V, VL, Int, simp
from .values import (SV, NONE, mk_int, mk_bool, mk_str, mk_flt, mk_ref, mk_any, mk_tup, mk_py, from_py, const_of,
                     box, Unsupported)
from .state import Explorer, RaiseEx, CheckerError, Frame
from .schema import cls_of


class View:
    """dict.items() / keys() / values() / reversed(list) / enumerate(list)."""

    def __init__(self, base, kind):
        self.base = base
        self.kind = kind

    def seq_view(self, ex, ctx, st, node):
        from .loops import SeqView, seq_view
        if self.kind == "reversed":
            inner = seq_view(ex, ctx, st, self.base, node)
            return SeqView(inner.n, lambda j: inner.elem(inner.n - 1 - j), "reversed")
        if self.kind == "enumerate":
            inner = seq_view(ex, ctx, st, self.base, node)
            return SeqView(inner.n, lambda j: mk_tup([mk_int(j), inner.elem(j)]), "enumerate")
        kv = keys_view(ex, ctx, st, self.base, node)
        if self.kind == "keys":
            return kv
        vals = z3.Select(ex.heap_get(st, "$val"), self.base.t)
        if self.kind == "values":
            return SeqView(kv.n, lambda j, c=None: mk_any(z3.Select(vals, box(kv.elem(j)))), "values")
        sv_ = SeqView(kv.n, lambda j, c=None: mk_tup([kv.elem(j, c), mk_any(z3.Select(vals, box(kv.elem(j))))]), "items")
        sv_.items_of = self.base  # the dict whose (key, value) pairs are enumerated (each key exactly once)
        sv_.key_at = lambda j: box(kv.elem(j))
        sv_.keypos = kv.keypos
        return sv_


def keys_view(ex, ctx, st, d, node):
    """Iteration over a dict / set: its key list. Facts assumed (container-wf): the key list has $len[d]
    elements, all present in $has, pairwise distinct."""
    from .loops import SeqView
    kl = z3.Select(ex.heap_get(st, "$keys"), d.t)
    n = z3.Select(ex.heap_get(st, "$len"), d.t)
    el = z3.Select(ex.heap_get(st, "$elems"), kl)
    has = z3.Select(ex.heap_get(st, "$has"), d.t)
    q = z3.Int(f"kq!{ctx.explorer.uid}.{ctx.fresh_n}")
    q2 = z3.Int(f"kq2!{ctx.explorer.uid}.{ctx.fresh_n}")
    ctx.assume(n >= 0, "container-length-nonnegative")
    ctx.assume(z3.ForAll([q], z3.Implies(z3.And(q >= 0, q < n), z3.Select(has, z3.Select(el, q)))), "container-wf:keys-present")
    ctx.assume(z3.ForAll([q, q2], z3.Implies(z3.And(q >= 0, q < q2, q2 < n), z3.Select(el, q) != z3.Select(el, q2))),
               "container-wf:keys-distinct")
    # keys are hashable: never a list / dict / set object
    ctags = [c.tag for c in ex.reg.classes.values() if c.container]
    ke = z3.Select(el, q)
    ctx.assume(z3.ForAll([q], z3.Implies(z3.And(q >= 0, q < n),
               z3.Not(z3.And(V.is_REF(ke), z3.Or(*[cls_of(V.r(ke)) == t for t in ctags]))))), "container-wf:keys-hashable")
    _kp = z3.Function("keypos", el.sort(), V, Int)  # position of a key in a key list: a function of the list itself

    def kf(x):
        return _kp(el, x)
    kx = z3.Const(f"kx!{ctx.explorer.uid}.{ctx.fresh_n}", V)
    ctx.assume(z3.ForAll([kx], z3.Implies(z3.Select(has, kx), z3.And(kf(kx) >= 0, kf(kx) < n, z3.Select(el, kf(kx)) == kx))),
               "container-wf:keys-complete")
    def key_at(j, c=None):
        k = z3.Select(el, j)
        if c is not None:  # instance of container-wf:keys-hashable at this index (feasibility checks drop quantifiers)
            c.assume(z3.Implies(z3.And(j >= 0, j < n),
                                z3.Not(z3.And(V.is_REF(k), z3.Or(*[cls_of(V.r(k)) == t for t in ctags])))),
                     "container-wf:keys-hashable")
            c.assume(z3.Implies(z3.And(j >= 0, j < n), z3.And(z3.Select(has, k), z3.Not(V.is_BOOL(k)))),
                     "container-wf:keys-present (bool keys are stored as the ints they equal)")
        return mk_any(k)
    kvw = SeqView(n, key_at, "keys")
    kvw.keypos = kf  # position of a present key in the key list (container-wf:keys-complete)
    return kvw


def hashable_key(ex, ctx, st, key, node):
    """dict/set keys must be hashable: list/dict/set refs raise TypeError."""
    if key.k in ("ref", "any"):
        for kind in ("list", "dict", "set"):
            if ex.is_container(ctx, st, key, kind):
                ex.raise_(st, "TypeError", node)
    if key.k == "tup":
        for x in key.t:
            hashable_key(ex, ctx, st, x, node)
    return normalize_key(key)


def normalize_key(key):
    """True == 1 and False == 0 as dict keys; keys in the target code are str / refs / ints, bools are mapped
    to ints so lookups agree with Python."""
    if key.k == "bool":
        return mk_int(z3.If(key.t, z3.IntVal(1), z3.IntVal(0)))
    if key.k == "any":
        t = key.t
        return mk_any(z3.If(V.is_BOOL(t), V.INT(z3.If(V.b(t), z3.IntVal(1), z3.IntVal(0))), t))
    return key


def kind_of(ex, ctx, st, obj):
    for kind in ("list", "dict", "set"):
        if ex.is_container(ctx, st, obj, kind):
            return kind
    return None


def as_ref(ex, obj):
    if obj.k == "any":
        return mk_ref(simp(V.r(obj.t)))
    return obj  # keeps .ety


def get_item(ex, ctx, st, obj, key, node):
    obj = as_ref(ex, obj)
    kind = kind_of(ex, ctx, st, obj)
    if kind == "list":
        key = ex.need_int(ctx, st, key, node)
        n = z3.Select(ex.heap_get(st, "$len"), obj.t)
        el = z3.Select(ex.heap_get(st, "$elems"), obj.t)
        from . import types as T
        if ctx.branch(z3.And(key.t >= 0, key.t < n)):
            return T.elem(ex, ctx, st, obj, simp(z3.Select(el, key.t)), key.t)
        if ctx.branch(z3.And(key.t < 0, key.t >= -n)):
            return T.elem(ex, ctx, st, obj, simp(z3.Select(el, n + key.t)), n + key.t)
        ex.raise_(st, "IndexError", node)
    if kind == "dict":
        key = hashable_key(ex, ctx, st, key, node)
        has = z3.Select(ex.heap_get(st, "$has"), obj.t)
        if not ctx.branch(z3.Select(has, box(key))):
            ex.raise_(st, "KeyError", node)
        return mk_any(simp(z3.Select(z3.Select(ex.heap_get(st, "$val"), obj.t), box(key))))
    if kind == "set":
        ex.raise_(st, "TypeError", node)
    # instances: __getitem__ not supported on verified classes
    ex.raise_(st, "TypeError", node)


def set_item(ex, ctx, st, obj, key, v, node):
    if obj.k == "any":
        if not ctx.branch(V.is_REF(obj.t)):
            ex.raise_(st, "TypeError", node)
    if obj.k not in ("ref", "any"):
        ex.raise_(st, "TypeError", node)
    obj = as_ref(ex, obj)
    kind = kind_of(ex, ctx, st, obj)
    if kind == "list":
        key = ex.need_int(ctx, st, key, node)
        n = z3.Select(ex.heap_get(st, "$len"), obj.t)
        idx = None
        if ctx.branch(z3.And(key.t >= 0, key.t < n)):
            idx = key.t
        elif ctx.branch(z3.And(key.t < 0, key.t >= -n)):
            idx = n + key.t
        else:
            ex.raise_(st, "IndexError", node)
        els = ex.heap_get(st, "$elems")
        st.heap["$elems"] = z3.Store(els, obj.t, z3.Store(z3.Select(els, obj.t), idx, box(v)))
        return
    if kind == "dict":
        key = hashable_key(ex, ctx, st, key, node)
        dict_store(ex, ctx, st, obj, key, v)
        return
    ex.raise_(st, "TypeError", node)


def dict_store(ex, ctx, st, obj, key, v):
    bk = box(key)
    hasA = ex.heap_get(st, "$has")
    valA = ex.heap_get(st, "$val")
    has = z3.Select(hasA, obj.t)
    present = simp(z3.Select(has, bk))
    st.heap["$val"] = z3.Store(valA, obj.t, z3.Store(z3.Select(valA, obj.t), bk, box(v)))
    if z3.is_true(present) or ctx.branch(present):
        return
    st.heap["$has"] = z3.Store(hasA, obj.t, z3.Store(has, bk, z3.BoolVal(True)))
    # append to the key list (a program object: never the ghost file-system trace, whose id -1 is reserved)
    kl = z3.Select(ex.heap_get(st, "$keys"), obj.t)
    ctx.assume(kl != -1, "container-wf:key-list-is-a-program-object")
    lenA = ex.heap_get(st, "$len")
    n = z3.Select(lenA, obj.t)
    els = ex.heap_get(st, "$elems")
    st.heap["$elems"] = z3.Store(els, kl, z3.Store(z3.Select(els, kl), n, bk))
    st.heap["$len"] = z3.Store(z3.Store(lenA, obj.t, n + 1), kl, n + 1)


def del_item(ex, ctx, st, obj, key, node):
    obj = as_ref(ex, obj)
    kind = kind_of(ex, ctx, st, obj)
    if kind == "dict":
        key = hashable_key(ex, ctx, st, key, node)
        bk = box(key)
        hasA = ex.heap_get(st, "$has")
        has = z3.Select(hasA, obj.t)
        if not ctx.branch(z3.Select(has, bk)):
            ex.raise_(st, "KeyError", node)
        st.heap["$has"] = z3.Store(hasA, obj.t, z3.Store(has, bk, z3.BoolVal(False)))
        # key list: replaced by a fresh list that holds the remaining keys (order of the others kept is not
        # needed by any contract; length decreases by one)
        lenA = ex.heap_get(st, "$len")
        n = z3.Select(lenA, obj.t)
        newk = ex.new_list(ctx, st, [])
        nel = ctx.fresh("keys_after_del", z3.ArraySort(Int, V), tuple(st.idx))
        st.heap["$elems"] = z3.Store(ex.heap_get(st, "$elems"), newk.t, nel)
        st.heap["$len"] = z3.Store(z3.Store(ex.heap_get(st, "$len"), obj.t, n - 1), newk.t, n - 1)
        st.heap["$keys"] = z3.Store(ex.heap_get(st, "$keys"), obj.t, newk.t)
        ctx.assume(n >= 1)
        return
    raise Unsupported("del on non-dict")


def contains(ex, ctx, st, cont, item, node):
    """item in cont -> z3 Bool / bool."""
    if cont.k == "py":
        o = cont.py
        from .builtins_model import TypeOf
        if isinstance(o, (frozenset, set, tuple, list, dict)):
            ok, c = const_of(item)
            if ok and not isinstance(c, (TypeOf,)):
                try:
                    return c in o
                except TypeError:
                    ex.raise_(st, "TypeError", node)
            if item.k == "py" and isinstance(item.py, TypeOf):
                from .builtins_model import type_is
                cs = [type_is(ex, ctx, st, item.py.v, c_) for c_ in o]
                return _or(cs)
            cs = [ex.py_eq(ctx, st, item, from_py(x)) for x in (o.keys() if isinstance(o, dict) else o)]
            return _or(cs)
        if isinstance(o, str):
            if item.k != "str":
                ex.raise_(st, "TypeError", node)
            return z3.Contains(z3.StringVal(o), item.t)
        raise Unsupported(f"`in` on concrete {type(o).__name__}")
    if cont.k == "tup":
        return _or([ex.py_eq(ctx, st, item, x) for x in cont.t])
    if cont.k == "str":
        if item.k == "any":
            if not ctx.branch(V.is_STR(item.t)):
                ex.raise_(st, "TypeError", node)
            item = mk_str(simp(V.s(item.t)))
        if item.k != "str":
            ex.raise_(st, "TypeError", node)
        return z3.Contains(cont.t, item.t)
    if cont.k == "any":
        if ctx.branch(V.is_STR(cont.t)):
            return contains(ex, ctx, st, mk_str(simp(V.s(cont.t))), item, node)
        if ctx.branch(V.is_TUP(cont.t)):
            items = ex.as_tuple_items(ctx, cont)
            return contains(ex, ctx, st, mk_tup(items), item, node)
        if not ctx.branch(V.is_REF(cont.t)):
            ex.raise_(st, "TypeError", node)
    if cont.k in ("ref", "any"):
        cont = as_ref(ex, cont)
        kind = kind_of(ex, ctx, st, cont)
        if kind in ("dict", "set"):
            key = hashable_key(ex, ctx, st, item, node)
            return z3.Select(z3.Select(ex.heap_get(st, "$has"), cont.t), box(key))
        if kind == "list":
            n = z3.Select(ex.heap_get(st, "$len"), cont.t)
            el = z3.Select(ex.heap_get(st, "$elems"), cont.t)
            q = z3.Int(f"inq!{ctx.explorer.uid}.{ctx.fresh_n}")
            ctx.fresh_n += 1
            # membership by structural equality of boxed values (elements are str / refs / ints here)
            return z3.Exists([q], z3.And(q >= 0, q < n, z3.Select(el, q) == box(item)))
    ex.raise_(st, "TypeError", node)


def _or(cs):
    if any(c is True for c in cs):
        return True
    cs = [c for c in cs if c is not False]
    if not cs:
        return False
    return z3.Or(*cs)


def list_append(ex, ctx, st, lst, v):
    ann = st.ghost.get("$annotated_lists")
    if ann and z3.is_const(lst.t) and lst.t.decl().name() in ann:
        ety = ann[lst.t.decl().name()]
        if v.k != ety.k:  # the annotated element type is a checked claim
            from . import types as T
            fname = st.frames[-1].fname if st.frames else "?"
            ctx.oblige(f"{fname}#annotated-list-element", T.fact(ex, st, box(v), ety), {"kind": "annotation"})
    lenA = ex.heap_get(st, "$len")
    els = ex.heap_get(st, "$elems")
    n = z3.Select(lenA, lst.t)
    st.heap["$elems"] = z3.Store(els, lst.t, z3.Store(z3.Select(els, lst.t), n, box(v)))
    st.heap["$len"] = z3.Store(lenA, lst.t, n + 1)


def list_extend(ex, ctx, st, lst, other, node):
    from .loops import concrete_items
    items = concrete_items(ex, ctx, st, other)
    if items is None:
        # symbolic extension: fresh tail with the right elements
        from .loops import seq_view
        view = seq_view(ex, ctx, st, other, node)
        lenA = ex.heap_get(st, "$len")
        els = ex.heap_get(st, "$elems")
        n = z3.Select(lenA, lst.t)
        old = z3.Select(els, lst.t)
        new = ctx.fresh("ext", z3.ArraySort(Int, V), tuple(st.idx))
        q = z3.Int(f"xq!{ctx.explorer.uid}.{ctx.fresh_n}")
        ctx.assume(z3.ForAll([q], z3.Implies(z3.And(q >= 0, q < n), z3.Select(new, q) == z3.Select(old, q))))
        ctx.assume(z3.ForAll([q], z3.Implies(z3.And(q >= 0, q < view.n), z3.Select(new, n + q) == box(view.elem(q)))))
        st.heap["$elems"] = z3.Store(els, lst.t, new)
        st.heap["$len"] = z3.Store(lenA, lst.t, n + view.n)
        return
    for x in items:
        list_append(ex, ctx, st, lst, x)


def list_concat(ex, ctx, st, a, b):
    r = ex.new_list(ctx, st, [])
    list_extend(ex, ctx, st, r, a, None)
    list_extend(ex, ctx, st, r, b, None)
    return r


def list_slice(ex, ctx, st, obj, lo, hi, node):
    raise Unsupported("list slice")


def set_update(ex, ctx, st, s, other, node):
    from .loops import concrete_items
    items = concrete_items(ex, ctx, st, other)
    if items is None:
        other = as_ref(ex, other)
        if kind_of(ex, ctx, st, other) != "set":
            raise Unsupported("set |= non-set")
        set_union_into(ex, ctx, st, s, other)
        return
    for x in items:
        set_add(ex, ctx, st, s, x, node)


def set_union_into(ex, ctx, st, s, other):
    hasA = ex.heap_get(st, "$has")
    a = z3.Select(hasA, s.t)
    b = z3.Select(hasA, other.t)
    new = ctx.fresh("union", a.sort(), tuple(st.idx))
    kx = z3.Const(f"ux!{ctx.explorer.uid}.{ctx.fresh_n}", V)
    ctx.assume(z3.ForAll([kx], z3.Select(new, kx) == z3.Or(z3.Select(a, kx), z3.Select(b, kx))))
    st.heap["$has"] = z3.Store(hasA, s.t, new)
    _fresh_keys(ex, ctx, st, s)


def _fresh_keys(ex, ctx, st, s):
    """After a bulk change of $has: key list and length become fresh (consistent by container-wf on next use)."""
    newk = ex.new_list(ctx, st, [])
    n = ctx.fresh("n_keys", Int, tuple(st.idx))
    ctx.assume(n >= 0)
    nel = ctx.fresh("keys", z3.ArraySort(Int, V), tuple(st.idx))
    st.heap["$elems"] = z3.Store(ex.heap_get(st, "$elems"), newk.t, nel)
    st.heap["$len"] = z3.Store(z3.Store(ex.heap_get(st, "$len"), s.t, n), newk.t, n)
    st.heap["$keys"] = z3.Store(ex.heap_get(st, "$keys"), s.t, newk.t)


def set_add(ex, ctx, st, s, v, node):
    key = hashable_key(ex, ctx, st, v, node)
    dict_store(ex, ctx, st, s, key, NONE)


def new_set(ex, ctx, st, items):
    r = ex.new_obj(ctx, st, "set")
    st.heap["$has"] = z3.Store(ex.heap_get(st, "$has"), r.t, z3.K(V, z3.BoolVal(False)))
    st.heap["$val"] = z3.Store(ex.heap_get(st, "$val"), r.t, z3.K(V, V.NONE))
    keys = ex.new_list(ctx, st, [])
    st.heap["$keys"] = z3.Store(ex.heap_get(st, "$keys"), r.t, keys.t)
    st.heap["$len"] = z3.Store(ex.heap_get(st, "$len"), r.t, 0)
    for x in items:
        set_add(ex, ctx, st, r, x, None)
    return r


def make_list(ex, ctx, st, args, node):
    from .loops import concrete_items, seq_view, GenExp, eval_comprehension
    if not args:
        return ex.new_list(ctx, st, [])
    it = args[0]
    if it.k == "py" and isinstance(it.py, GenExp):
        return eval_comprehension(ex, ctx, st, it.py.node, "list", frame=it.py.frame)
    items = concrete_items(ex, ctx, st, it)
    if items is not None:
        return ex.new_list(ctx, st, items)
    view = seq_view(ex, ctx, st, it, node)
    r = ex.new_list(ctx, st, [])
    list_extend(ex, ctx, st, r, it, node)
    return r


def make_set(ex, ctx, st, args, node):
    from .loops import concrete_items, GenExp, eval_comprehension
    if not args:
        return new_set(ex, ctx, st, [])
    it = args[0]
    if it.k == "py" and isinstance(it.py, GenExp):
        return eval_comprehension(ex, ctx, st, it.py.node, "set", frame=it.py.frame)
    items = concrete_items(ex, ctx, st, it)
    if items is not None:
        return new_set(ex, ctx, st, items)
    # set(list): membership = list membership
    from .loops import seq_view
    view = seq_view(ex, ctx, st, it, node)
    r = new_set(ex, ctx, st, [])
    hasA = ex.heap_get(st, "$has")
    new = ctx.fresh("setof", z3.ArraySort(V, z3.BoolSort()), tuple(st.idx))
    kx = z3.Const(f"sx!{ctx.explorer.uid}.{ctx.fresh_n}", V)
    q = z3.Int(f"sq!{ctx.explorer.uid}.{ctx.fresh_n}")
    ctx.assume(z3.ForAll([kx], z3.Select(new, kx) == z3.Exists([q], z3.And(q >= 0, q < view.n, box(view.elem(q)) == kx))))
    st.heap["$has"] = z3.Store(hasA, r.t, new)
    _fresh_keys(ex, ctx, st, r)
    return r


def make_dict(ex, ctx, st, args, kwargs, node):
    from .loops import GenExp, eval_comprehension
    d = ex.new_dict(ctx, st)
    if args:
        it = args[0]
        if it.k == "py" and isinstance(it.py, GenExp):
            ge = it.py
            import ast as _ast
            elt = ge.node.elt
            if not (isinstance(elt, _ast.Tuple) and len(elt.elts) == 2):
                raise Unsupported("dict(generator) whose element is not a pair display")
            dc = _ast.DictComp(key=elt.elts[0], value=elt.elts[1], generators=ge.node.generators)
            _ast.copy_location(dc, ge.node)
            return eval_comprehension(ex, ctx, st, dc, "dict", frame=ge.frame)
        raise Unsupported("dict(iterable)")
    for k, v in kwargs.items():
        dict_store(ex, ctx, st, d, mk_str(k), v)
    return d


def reversed_(ex, ctx, st, it, node):
    from .loops import concrete_items
    items = concrete_items(ex, ctx, st, it)
    if items is not None:
        return mk_tup(list(reversed(items)))
    return mk_py(View(it, "reversed"))


def sorted_(ex, ctx, st, args, kwargs, node):
    raise Unsupported("sorted()")


def call_method(ex, ctx, st, recv, name, args, kwargs, node):
    kind = ex.reg.classes[recv.cls].container
    if kind == "list":
        if name == "append":
            list_append(ex, ctx, st, recv, args[0])
            return NONE
        if name == "extend":
            list_extend(ex, ctx, st, recv, args[0], node)
            return NONE
        if name == "index":
            n = z3.Select(ex.heap_get(st, "$len"), recv.t)
            el = z3.Select(ex.heap_get(st, "$elems"), recv.t)
            i = ctx.fresh("idx", Int, tuple(st.idx))
            q = z3.Int(f"iq!{ctx.explorer.uid}.{ctx.fresh_n}")
            target = box(args[0])
            found = z3.Exists([q], z3.And(q >= 0, q < n, z3.Select(el, q) == target))
            if not ctx.branch(found):
                ex.raise_(st, "ValueError", node)
            ctx.assume(z3.And(i >= 0, i < n, z3.Select(el, i) == target,
                              z3.ForAll([q], z3.Implies(z3.And(q >= 0, q < i), z3.Select(el, q) != target))))
            return mk_int(i)
        if name == "pop" and not args:
            lenA = ex.heap_get(st, "$len")
            n = z3.Select(lenA, recv.t)
            if not ctx.branch(n > 0):
                ex.raise_(st, "IndexError", node)
            v = mk_any(simp(z3.Select(z3.Select(ex.heap_get(st, "$elems"), recv.t), n - 1)))
            st.heap["$len"] = z3.Store(lenA, recv.t, n - 1)
            return v
        if name == "clear":
            st.heap["$len"] = z3.Store(ex.heap_get(st, "$len"), recv.t, 0)
            return NONE
        raise Unsupported(f"list.{name}")
    if kind == "dict":
        if name == "get":
            key = hashable_key(ex, ctx, st, args[0], node)
            dflt = args[1] if len(args) > 1 else NONE
            has = z3.Select(z3.Select(ex.heap_get(st, "$has"), recv.t), box(key))
            val = z3.Select(z3.Select(ex.heap_get(st, "$val"), recv.t), box(key))
            return mk_any(simp(z3.If(has, val, box(dflt))))
        if name in ("items", "keys", "values"):
            return mk_py(View(recv, name))
        if name == "setdefault":
            key = hashable_key(ex, ctx, st, args[0], node)
            has = z3.Select(z3.Select(ex.heap_get(st, "$has"), recv.t), box(key))
            if ctx.branch(has):
                return mk_any(simp(z3.Select(z3.Select(ex.heap_get(st, "$val"), recv.t), box(key))))
            dflt = args[1] if len(args) > 1 else NONE
            dict_store(ex, ctx, st, recv, key, dflt)
            return dflt
        if name == "pop":
            key = hashable_key(ex, ctx, st, args[0], node)
            has = z3.Select(z3.Select(ex.heap_get(st, "$has"), recv.t), box(key))
            if ctx.branch(has):
                v = mk_any(simp(z3.Select(z3.Select(ex.heap_get(st, "$val"), recv.t), box(key))))
                del_item(ex, ctx, st, recv, key, node)
                return v
            if len(args) > 1:
                return args[1]
            ex.raise_(st, "KeyError", node)
        raise Unsupported(f"dict.{name}")
    if kind == "set":
        if name == "add":
            set_add(ex, ctx, st, recv, args[0], node)
            return NONE
        if name == "update":
            set_update(ex, ctx, st, recv, args[0], node)
            return NONE
        if name in ("discard", "remove"):
            key = hashable_key(ex, ctx, st, args[0], node)
            hasA = ex.heap_get(st, "$has")
            has = z3.Select(hasA, recv.t)
            if name == "remove" and not ctx.branch(z3.Select(has, box(key))):
                ex.raise_(st, "KeyError", node)
            st.heap["$has"] = z3.Store(hasA, recv.t, z3.Store(has, box(key), z3.BoolVal(False)))
            _fresh_keys(ex, ctx, st, recv)
            return NONE
        raise Unsupported(f"set.{name}")
    raise Unsupported(f"{kind}.{name}")


def comprehension(ex, ctx, st, e, kind, frame, g, exprs, view):
    """Comprehension over a symbolic sequence: the result container is characterised by quantified facts.
    list without filter: exact (same length, element-wise).  list with filter: strictly increasing index map
    onto exactly the selected indices.  dict: has(k) <=> some selected j has key(j) == k, and the value is that
    of the LAST such j.  set: has(k) <=> some selected j yields k."""
    from .loops import pure_generic, subst_sv
    j = ctx.fresh("c", Int)
    res = pure_generic(ex, ctx, st, frame, g, exprs, view, j)
    if any(r.outcome == "raise" for r in res):
        bad = [r.value for r in res if r.outcome == "raise"]
        raise Unsupported("comprehension body may raise: " + "; ".join(f"{b.exc} at {b.where}" for b in bad[:3]))
    for r in res:
        ctx.assumptions_used.extend(r.assumptions)
    oks = [r for r in res if r.outcome == "ok"]
    sel_j = simp(z3.Or(*[z3.And(*r.pc) if r.pc else z3.BoolVal(True) for r in oks])) if oks else z3.BoolVal(False)

    def merged(i):
        if not oks:
            return V.NONE
        out = box(oks[-1].value[i])
        for r in reversed(oks[:-1]):
            out = z3.If(z3.And(*r.pc) if r.pc else z3.BoolVal(True), box(r.value[i]), out)
        return simp(out)

    def at(t, x):
        return z3.substitute(t, (j, x))

    n = view.n
    uid = f"{ctx.explorer.uid}.{ctx.fresh_n}"
    ctx.fresh_n += 1
    q = z3.Int(f"cq!{uid}")
    q2 = z3.Int(f"cq2!{uid}")
    if kind == "list":
        val_j = merged(0)
        r = ex.new_list(ctx, st, [])
        m = ctx.fresh("m", Int, tuple(st.idx))
        arr = ctx.fresh("comp", z3.ArraySort(Int, V), tuple(st.idx))
        if z3.is_true(sel_j):
            ctx.assume(m == n)
            ctx.assume(z3.ForAll([q], z3.Implies(z3.And(q >= 0, q < n), z3.Select(arr, q) == at(val_j, q))))
        else:
            src = z3.Function(f"src!{uid}", *[i.sort() for i in st.idx], Int, Int)
            pos = z3.Function(f"pos!{uid}", *[i.sort() for i in st.idx], Int, Int)
            sx = lambda x: src(*st.idx, x)
            px = lambda x: pos(*st.idx, x)
            ctx.assume(z3.And(m >= 0, m <= n))
            ctx.assume(z3.ForAll([q], z3.Implies(z3.And(q >= 0, q < m),
                       z3.And(sx(q) >= 0, sx(q) < n, at(sel_j, sx(q)), z3.Select(arr, q) == at(val_j, sx(q)), px(sx(q)) == q))))
            ctx.assume(z3.ForAll([q, q2], z3.Implies(z3.And(q >= 0, q < q2, q2 < m), sx(q) < sx(q2))))
            ctx.assume(z3.ForAll([q], z3.Implies(z3.And(q >= 0, q < n, at(sel_j, q)),
                       z3.And(px(q) >= 0, px(q) < m, sx(px(q)) == q))))
        st.heap["$elems"] = z3.Store(ex.heap_get(st, "$elems"), r.t, arr)
        st.heap["$len"] = z3.Store(ex.heap_get(st, "$len"), r.t, m)
        return r
    kx = z3.Const(f"ck!{uid}", V)
    if kind == "set":
        val_j = merged(0)
        r = new_set(ex, ctx, st, [])
        new = ctx.fresh("setcomp", z3.ArraySort(V, z3.BoolSort()), tuple(st.idx))
        ctx.assume(z3.ForAll([kx], z3.Select(new, kx) ==
                             z3.Exists([q], z3.And(q >= 0, q < n, at(sel_j, q), at(val_j, q) == kx))))
        st.heap["$has"] = z3.Store(ex.heap_get(st, "$has"), r.t, new)
        _fresh_keys(ex, ctx, st, r)
        return r
    # dict
    key_j = merged(0)
    val_j = merged(1)
    r = ex.new_dict(ctx, st)
    base = getattr(view, "items_of", None)
    if base is not None and kind == "dict":
        # {k: f(k, v) for (k, v) in d.items() if p(k, v)}: the key expression is the enumerated key itself.  items()
        # yields every key of d exactly once (container-wf:keys-present/-complete/-distinct), so the result is
        # characterised pointwise over keys, without position quantifiers:
        #     has_r(x) <=> has_d(x) and p(x, d[x]);      has_r(x) => r[x] = f(x, d[x])
        kj = view.key_at(j)
        if os.environ.get("PYVC_DEBUG_COMP"):
            print("COMP key_j=", simp(key_j), " kj=", simp(kj))
        if z3.eq(simp(key_j), simp(kj)):
            # the enumerated key is x itself; its index is keypos(x) (defined for the keys of d)
            sel_k = z3.substitute(z3.substitute(sel_j, (kj, kx)), (j, view.keypos(kx)))
            val_k = z3.substitute(z3.substitute(val_j, (kj, kx)), (j, view.keypos(kx)))
            from .loops import mentions
            jn = {j.decl().name()}
            if not mentions(sel_k, jn) and not mentions(val_k, jn):
                has_d = z3.Select(ex.heap_get(st, "$has"), base.t)
                has = ctx.fresh("dcomp_has", z3.ArraySort(V, z3.BoolSort()), tuple(st.idx))
                val = ctx.fresh("dcomp_val", z3.ArraySort(V, V), tuple(st.idx))
                ctx.assume(z3.ForAll([kx], z3.Select(has, kx) == z3.And(z3.Select(has_d, kx), sel_k)),
                           "dict-comprehension-over-items:keys")
                ctx.assume(z3.ForAll([kx], z3.Implies(z3.Select(has, kx), z3.Select(val, kx) == val_k)),
                           "dict-comprehension-over-items:values")
                st.heap["$has"] = z3.Store(ex.heap_get(st, "$has"), r.t, has)
                st.heap["$val"] = z3.Store(ex.heap_get(st, "$val"), r.t, val)
                _fresh_keys(ex, ctx, st, r)
                return r
    has = ctx.fresh("dcomp_has", z3.ArraySort(V, z3.BoolSort()), tuple(st.idx))
    val = ctx.fresh("dcomp_val", z3.ArraySort(V, V), tuple(st.idx))
    last = z3.Function(f"last!{uid}", *[i.sort() for i in st.idx], V, Int)
    lx = lambda x: last(*st.idx, x)
    ctx.assume(z3.ForAll([kx], z3.Select(has, kx) ==
                         z3.Exists([q], z3.And(q >= 0, q < n, at(sel_j, q), at(key_j, q) == kx))))
    ctx.assume(z3.ForAll([kx], z3.Implies(z3.Select(has, kx),
               z3.And(lx(kx) >= 0, lx(kx) < n, at(sel_j, lx(kx)), at(key_j, lx(kx)) == kx,
                      z3.Select(val, kx) == at(val_j, lx(kx))))))
    ctx.assume(z3.ForAll([kx, q], z3.Implies(z3.And(z3.Select(has, kx), q > lx(kx), q < n, at(sel_j, q)),
                                             at(key_j, q) != kx)))
    st.heap["$has"] = z3.Store(ex.heap_get(st, "$has"), r.t, has)
    st.heap["$val"] = z3.Store(ex.heap_get(st, "$val"), r.t, val)
    _fresh_keys(ex, ctx, st, r)
    return r
