"""Class / field schema and contract registry (filled by the sidecar contract modules)."""
import ast
import z3
from .z import V, Int
from .state import CheckerError


class FieldInfo:
    """type: 'any' | 'int' | 'str' | 'bool' | 'ref' | 'optref' | 'list' | 'dict' | 'set' | 'tup' | 'optstr' | 'optint'
    kind: 'imm' (never written in verified scopes -> uninterpreted function of the object),
          'mut' (array in the heap, framed at calls by the callee's modifies clause),
          'inv' (array in the heap carrying a per-object invariant: assumed at reads, obligation at writes,
                 havocked by every call that declares `caches`)
    """

    def __init__(self, name, type_="any", kind="mut", inv=None, cls=None):
        self.name = name
        self.type = type_
        self.kind = kind
        self.inv = inv  # name of a spec function (obj, value) -> bool
        self.cls = cls  # for ref types: class name of the referee when fixed


class ClassInfo:
    def __init__(self, name, tag, module=None, fields=None, props=(), methods=(), container=None, truthy=True):
        self.name = name
        self.tag = tag
        self.module = module
        self.fields = fields or {}
        self.props = set(props)
        self.methods = set(methods)
        self.container = container  # 'list' | 'dict' | 'set' | None
        self.truthy = truthy


class UF:
    """Uninterpreted spec function. Sorts: 'V','int','bool','str','real'."""

    def __init__(self, name, args, res):
        self.name = name
        self.args = list(args)
        self.res = res
        so = {"V": V, "int": z3.IntSort(), "bool": z3.BoolSort(), "str": z3.StringSort(), "real": z3.RealSort()}
        self.fn = z3.Function(name, *[so[a] for a in self.args], so[res])

    def __call__(self, *a):  # native call: only via replay bindings
        raise RuntimeError(f"uninterpreted spec function {self.name} called natively without a replay binding")


class Contract:
    def __init__(self, target, params, requires=None, ensures=None, modifies=(), raises=(), kind="function",
                 cls=None, pure=False, module=None, source_module=None, exsures=None, result_type=None,
                 assume_pre=()):
        self.target = target  # 'module:qualname'
        self.params = params
        self.requires = requires  # ast.FunctionDef or None
        self.ensures = ensures
        self.exsures = exsures or {}  # exc name -> ast.FunctionDef (state relation when raising)
        self.modifies = list(modifies)
        self.raises = list(raises)
        self.kind = kind  # function | method | property
        self.cls = cls
        self.pure = pure
        self.source_module = source_module  # python module object of the sidecar (name resolution)
        self.result_type = result_type
        self.assume_pre = list(assume_pre)


class Registry:
    def __init__(self):
        self.classes = {}
        self.by_tag = {}
        self.contracts = {}  # 'module:qualname' -> Contract
        self.ufs = {}
        self.inline = set()  # 'module:qualname' of helpers that are inlined at call sites
        self.assumptions = {}  # name -> text (reported in evidence)
        self.invariants = {}  # field name -> (sidecar module, FunctionDef)

    def add_class(self, ci):
        if ci.tag in self.by_tag:
            raise CheckerError(f"duplicate class tag {ci.tag}")
        self.classes[ci.name] = ci
        self.by_tag[ci.tag] = ci

    def classes_with_attr(self, name):
        return [c for c in self.classes.values() if name in c.fields or name in c.props or name in c.methods]

    def field(self, cls, name):
        ci = self.classes.get(cls)
        if ci and name in ci.fields:
            return ci.fields[name]
        return None


cls_of = z3.Function("cls_of", Int, Int)
