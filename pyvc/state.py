"""Execution state, path context (decisions / path condition / obligations) and the exploration driver.

Exploration is by re-execution: a path is identified by its list of decisions; when execution meets a new
symbolic branch it takes one side and queues the other.  Nested explorations (loop bodies, spec functions)
run their own driver on top of the current path condition.
"""
import time
import z3
from .z import V, simp


class Infeasible(Exception):
    pass


_hq_memo = {}


def has_quantifier(t):
    """Does the formula contain a quantifier?  (Feasibility checks drop such conjuncts: fewer constraints can only
    make more paths feasible, which is sound; the final obligation checks use the full path condition.)"""
    key = t.get_id()
    r = _hq_memo.get(key)
    if r is not None:
        return r
    stack = [t]
    seen = set()
    found = False
    while stack:
        x = stack.pop()
        i = x.get_id()
        if i in seen:
            continue
        seen.add(i)
        if z3.is_quantifier(x):
            found = True
            break
        stack.extend(x.children())
    if len(_hq_memo) > 200000:
        _hq_memo.clear()
    _hq_memo[key] = found
    return found


class CheckerError(Exception):
    """Malformed contract / internal inconsistency: exit code 3, never a violation."""


class ReturnEx(Exception):
    def __init__(self, value):
        self.value = value


class BreakEx(Exception):
    pass


class ContinueEx(Exception):
    pass


class RaiseEx(Exception):
    """A Python exception raised by the code under verification."""

    def __init__(self, exc, msg=None, where=None):
        self.exc = exc  # class name, e.g. 'ValueError'
        self.msg = msg
        self.where = where

    def __str__(self):
        return f"{self.exc} at {self.where}"


EXC_PARENTS = {
    "BaseException": None,
    "Exception": "BaseException",
    "SystemExit": "BaseException",
    "KeyboardInterrupt": "BaseException",
    "ValueError": "Exception",
    "TypeError": "Exception",
    "AttributeError": "Exception",
    "LookupError": "Exception",
    "KeyError": "LookupError",
    "IndexError": "LookupError",
    "OSError": "Exception",
    "IOError": "Exception",
    "EnvironmentError": "Exception",
    "FileNotFoundError": "OSError",
    "PermissionError": "OSError",
    "JSONDecodeError": "ValueError",
    "UnicodeDecodeError": "ValueError",
    "AssertionError": "Exception",
    "RuntimeError": "Exception",
    "RecursionError": "RuntimeError",
    "NotImplementedError": "RuntimeError",
    "StopIteration": "Exception",
    "ZeroDivisionError": "Exception",
    "OverflowError": "Exception",
    "KconfigError": "Exception",
    "_KconfigIOError": "OSError",
    "NoMatches": "Exception",
}
EXC_PARENTS["IOError"] = "Exception"  # alias of OSError in py3; handled in exc_matches


def exc_matches(exc, handler):
    if handler in ("IOError", "EnvironmentError"):
        handler = "OSError"
    cur = "OSError" if exc in ("IOError", "EnvironmentError") else exc
    while cur is not None:
        if cur == handler:
            return True
        cur = EXC_PARENTS.get(cur, "Exception" if cur not in ("BaseException",) else None)
        if cur == "BaseException" and handler != "BaseException":
            return False
    return False


class Frame:
    __slots__ = ("vars", "parent", "globals_mod", "fname")

    def __init__(self, vars_, parent, globals_mod, fname):
        self.vars = vars_
        self.parent = parent  # enclosing Frame for closures (or None)
        self.globals_mod = globals_mod  # ModuleScope
        self.fname = fname


class State:
    """heap: attr -> z3 Array(Int -> V) (or special sorts for $-fields); frames: call stack."""

    def __init__(self):
        self.heap = {}
        self.init_heap = None
        self.frames = []
        self.tracked = []  # z3 Int ids of receivers whose side-result fields callees must not touch
        self.ghost = {}
        self.idx = []  # generic loop indices currently in scope (for skolem functions)
        self.next_obj = [0]

    def copy(self):
        st = State()
        st.heap = dict(self.heap)
        st.init_heap = self.init_heap
        # frames: copy each, preserving parent links
        mp = {}
        new_frames = []

        def cp(fr):
            if fr is None:
                return None
            if id(fr) in mp:
                return mp[id(fr)]
            nf = Frame(dict(fr.vars), None, fr.globals_mod, fr.fname)
            mp[id(fr)] = nf
            nf.parent = cp(fr.parent)
            return nf

        for fr in self.frames:
            new_frames.append(cp(fr))
        st.frames = new_frames
        st.tracked = list(self.tracked)
        st.ghost = dict(self.ghost)
        st.idx = list(self.idx)
        st.next_obj = self.next_obj
        return st


class Obligation:
    __slots__ = ("name", "pc", "goal", "meta", "status", "time", "model", "backend")

    def __init__(self, name, pc, goal, meta=None):
        self.name = name
        self.pc = list(pc)
        self.goal = goal
        self.meta = meta or {}
        self.status = None
        self.time = 0.0
        self.model = None
        self.backend = None


class PathCtx:
    def __init__(self, decisions, base_pc, explorer):
        self.decisions = list(decisions)
        self.pos = 0
        self.pc = list(base_pc)
        self.kinds = ["X"] * len(self.pc)  # parallel to pc: 'X' base, 'A' assumption, 'B' branch condition
        self.explorer = explorer
        self.alternatives = []
        self.obligations = []
        self.assumptions_used = []  # names of assumptions (field types, axioms) used on this path
        self.fresh_n = 0
        self._solver = None

    # ---- fresh symbols (deterministic per path so that prefixes coincide) ----
    def fresh(self, base, sort, idx=()):
        self.fresh_n += 1
        name = f"{base}!{self.explorer.uid}.{self.fresh_n}"
        if idx:
            f = z3.Function(name, *[i.sort() for i in idx], sort)
            return f(*idx)
        return z3.Const(name, sort)

    # ---- solver ----
    def solver(self):
        if self._solver is None:
            s = z3.Solver()
            s.set("timeout", self.explorer.branch_timeout_ms)
            for c in self.pc:
                if not has_quantifier(c):
                    s.add(c)
            self._solver = s
            self._solver_n = len(self.pc)
        else:
            while self._solver_n < len(self.pc):
                c = self.pc[self._solver_n]
                if not has_quantifier(c):
                    self._solver.add(c)
                self._solver_n += 1
        return self._solver

    def feasible(self, cond):
        s = self.solver()
        if has_quantifier(cond):
            return True
        s.push()
        s.add(cond)
        t0 = time.time()
        r = s.check()
        self.explorer.stats["branch_checks"] += 1
        self.explorer.stats["branch_time"] += time.time() - t0
        s.pop()
        return r != z3.unsat  # unknown counts as feasible (sound: more paths)

    def assume(self, cond, name=None):
        cond = simp(cond) if not isinstance(cond, bool) else z3.BoolVal(cond)
        if z3.is_true(cond):
            return
        self.pc.append(cond)
        self.kinds.append("A")
        if name:
            self.assumptions_used.append(name)

    def constrain(self, cond):
        """Add a path-defining condition (kind 'B'): which alternative of a summarised construct was taken."""
        cond = simp(cond) if not isinstance(cond, bool) else z3.BoolVal(cond)
        if z3.is_true(cond):
            return
        self.pc.append(cond)
        self.kinds.append("B")

    def branch(self, cond):
        """Decide a symbolic condition; returns Python bool. Adds the taken side to the path condition."""
        if isinstance(cond, bool):
            return cond
        cond = simp(cond)
        if z3.is_true(cond):
            return True
        if z3.is_false(cond):
            return False
        if self.pos < len(self.decisions):
            d = self.decisions[self.pos]
            self.pos += 1
            self.pc.append(cond if d else z3.Not(cond))
            self.kinds.append("B")
            return d
        can_t = self.feasible(cond)
        can_f = self.feasible(z3.Not(cond))
        if can_t and can_f:
            self.alternatives.append(self.decisions + [False])
            d = True
        elif can_t:
            d = True
        elif can_f:
            d = False
        else:
            raise Infeasible()
        self.decisions.append(d)
        self.pos += 1
        self.pc.append(cond if d else z3.Not(cond))
        self.kinds.append("B")
        return d

    def choose(self, n):
        """Nondeterministic choice among n options (no feasibility test here)."""
        if n <= 0:
            raise Infeasible()
        if self.pos < len(self.decisions):
            d = self.decisions[self.pos]
            self.pos += 1
            return d
        for alt in range(1, n):
            self.alternatives.append(self.decisions + [alt])
        self.decisions.append(0)
        self.pos += 1
        return 0

    def check_feasible(self):
        if not self.feasible(z3.BoolVal(True)):
            raise Infeasible()

    def oblige(self, name, goal, meta=None):
        if isinstance(goal, bool):
            goal = z3.BoolVal(goal)
        goal = simp(goal)
        if z3.is_true(goal):
            self.explorer.stats["trivial_obligations"] += 1
            self.obligations.append(Obligation(name, [], z3.BoolVal(True), dict(meta or {}, trivial=True)))
            return
        self.obligations.append(Obligation(name, self.pc, goal, meta))


class PathResult:
    __slots__ = ("pc", "state", "outcome", "value", "obligations", "assumptions", "decisions", "branches", "assumes",
                 "kinds")

    def __init__(self, pc, state, outcome, value, obligations, assumptions, decisions, kinds=None):
        self.pc = pc
        kinds = kinds or ["B"] * len(pc)
        self.kinds = list(kinds)
        self.branches = [c for c, k in zip(pc, kinds) if k != "A"]
        self.assumes = [c for c, k in zip(pc, kinds) if k == "A"]
        self.state = state
        self.outcome = outcome  # 'return' | 'raise' | 'fall' | 'break' | 'continue'
        self.value = value
        self.obligations = obligations
        self.assumptions = assumptions
        self.decisions = decisions


_uid = [0]


class Explorer:
    def __init__(self, base_pc=(), branch_timeout_ms=2000, max_paths=20000, stats=None):
        _uid[0] += 1
        self.uid = _uid[0]
        self.base_pc = list(base_pc)
        self.branch_timeout_ms = branch_timeout_ms
        self.max_paths = max_paths
        self.stats = stats if stats is not None else {"branch_checks": 0, "branch_time": 0.0, "paths": 0,
                                                     "trivial_obligations": 0, "infeasible": 0}

    def explore(self, run):
        """run(ctx) -> (state, outcome, value); control exceptions are mapped to outcomes here."""
        results = []
        work = [[]]
        while work:
            dec = work.pop()
            ctx = PathCtx(dec, self.base_pc, self)
            try:
                st, outcome, value = run(ctx)
            except Infeasible:
                self.stats["infeasible"] += 1
                work.extend(ctx.alternatives)
                continue
            work.extend(ctx.alternatives)
            self.stats["paths"] += 1
            results.append(PathResult(ctx.pc[len(self.base_pc):], st, outcome, value, ctx.obligations,
                                      ctx.assumptions_used, ctx.decisions, ctx.kinds[len(self.base_pc):]))
            if len(results) > self.max_paths:
                from .values import Unsupported
                raise Unsupported(f"path explosion (> {self.max_paths} paths)")
        return results
