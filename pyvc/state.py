"""Execution state, path context (decisions / path condition / obligations) and the exploration driver.

Exploration is by re-execution: a path is identified by its list of decisions; when execution meets a new
symbolic branch it takes one side and queues the other.  Nested explorations (loop bodies, spec functions)
run their own driver on top of the current path condition.
"""
import time
import z3
from .z import V, simp


class Infeasible(Exception):
    pass


_hq_memo = {}


def has_quantifier(t):
    """Does the formula contain a quantifier?  (Feasibility checks drop such conjuncts: fewer constraints can only
    make more paths feasible, which is sound; the final obligation checks use the full path condition.)"""
    key = t.get_id()
    r = _hq_memo.get(key)
    if r is not None:
        return r
    stack = [t]
    seen = set()
    found = False
    while stack:
        x = stack.pop()
        i = x.get_id()
        if i in seen:
            continue
        seen.add(i)
        if z3.is_quantifier(x):
            found = True
            break
        stack.extend(x.children())
    if len(_hq_memo) > 200000:
        _hq_memo.clear()
    _hq_memo[key] = found
    return found


class CheckerError(Exception):
    """Malformed contract / internal inconsistency: exit code 3, never a violation."""


_wk_memo = {}


def weaken(t):
    """Quantifier-free weakening of a formula (for feasibility checks only): positive quantified subformulas
    become True, negative ones False; where polarity is mixed the enclosing conjunct is dropped (True).
    The result is implied by t, so using it can only make more paths look feasible (sound)."""
    if not has_quantifier(t):
        return t
    key = t.get_id()
    hit = _wk_memo.get(key)
    if hit is not None and hit[0].eq(t):
        return hit[1]
    r = _weaken(t, True)
    r = r if r is not None else z3.BoolVal(True)
    if len(_wk_memo) > 50000:
        _wk_memo.clear()
    _wk_memo[key] = (t, r)
    return r


def _weaken(t, pos):
    if not has_quantifier(t):
        return t
    if z3.is_quantifier(t):
        return z3.BoolVal(True) if pos else z3.BoolVal(False)
    if z3.is_and(t) or z3.is_or(t):
        kids = []
        for c in t.children():
            w = _weaken(c, pos)
            if w is None:
                w = z3.BoolVal(True) if pos else z3.BoolVal(False)
            kids.append(w)
        return z3.And(*kids) if z3.is_and(t) else z3.Or(*kids)
    if z3.is_not(t):
        w = _weaken(t.children()[0], not pos)
        return None if w is None else z3.Not(w)
    if z3.is_implies(t):
        a, b = t.children()
        wa = _weaken(a, not pos)
        wb = _weaken(b, pos)
        if wa is None or wb is None:
            return None
        return z3.Implies(wa, wb)
    if z3.is_app(t) and t.decl().kind() == z3.Z3_OP_ITE and z3.is_bool(t):
        c, a, b = t.children()
        if has_quantifier(c):
            return None
        wa = _weaken(a, pos)
        wb = _weaken(b, pos)
        if wa is None or wb is None:
            return None
        return z3.If(c, wa, wb)
    return None


class ReturnEx(Exception):
    def __init__(self, value):
        self.value = value


class BreakEx(Exception):
    pass


class ContinueEx(Exception):
    pass


class RaiseEx(Exception):
    """A Python exception raised by the code under verification."""

    def __init__(self, exc, msg=None, where=None):
        self.exc = exc  # class name, e.g. 'ValueError'
        self.msg = msg
        self.where = where

    def __str__(self):
        return f"{self.exc} at {self.where}"


EXC_PARENTS = {
    "BaseException": None,
    "Exception": "BaseException",
    "SystemExit": "BaseException",
    "KeyboardInterrupt": "BaseException",
    "ValueError": "Exception",
    "TypeError": "Exception",
    "AttributeError": "Exception",
    "LookupError": "Exception",
    "KeyError": "LookupError",
    "IndexError": "LookupError",
    "OSError": "Exception",
    "IOError": "Exception",
    "EnvironmentError": "Exception",
    "FileNotFoundError": "OSError",
    "PermissionError": "OSError",
    "JSONDecodeError": "ValueError",
    "UnicodeDecodeError": "ValueError",
    "AssertionError": "Exception",
    "RuntimeError": "Exception",
    "RecursionError": "RuntimeError",
    "NotImplementedError": "RuntimeError",
    "StopIteration": "Exception",
    "ZeroDivisionError": "Exception",
    "OverflowError": "Exception",
    "KconfigError": "Exception",
    "_KconfigIOError": "OSError",
    "NoMatches": "Exception",
}
EXC_PARENTS["IOError"] = "Exception"  # alias of OSError in py3; handled in exc_matches


def exc_matches(exc, handler):
    if handler in ("IOError", "EnvironmentError"):
        handler = "OSError"
    cur = "OSError" if exc in ("IOError", "EnvironmentError") else exc
    while cur is not None:
        if cur == handler:
            return True
        cur = EXC_PARENTS.get(cur, "Exception" if cur not in ("BaseException",) else None)
        if cur == "BaseException" and handler != "BaseException":
            return False
    return False


class Frame:
    __slots__ = ("vars", "parent", "globals_mod", "fname")

    def __init__(self, vars_, parent, globals_mod, fname):
        self.vars = vars_
        self.parent = parent  # enclosing Frame for closures (or None)
        self.globals_mod = globals_mod  # ModuleScope
        self.fname = fname


class State:
    """heap: attr -> z3 Array(Int -> V) (or special sorts for $-fields); frames: call stack."""

    def __init__(self):
        self.heap = {}
        self.init_heap = None
        self.frames = []
        self.tracked = []  # z3 Int ids of receivers whose side-result fields callees must not touch
        self.ghost = {}
        self.idx = []  # generic loop indices currently in scope (for skolem functions)
        self.next_obj = [0]

    def copy(self):
        st = State()
        st.heap = dict(self.heap)
        st.init_heap = self.init_heap
        # frames: copy each, preserving parent links
        mp = {}
        new_frames = []

        def cp(fr):
            if fr is None:
                return None
            if id(fr) in mp:
                return mp[id(fr)]
            nf = Frame(dict(fr.vars), None, fr.globals_mod, fr.fname)
            mp[id(fr)] = nf
            nf.parent = cp(fr.parent)
            return nf

        for fr in self.frames:
            new_frames.append(cp(fr))
        st.frames = new_frames
        st.tracked = list(self.tracked)
        st.ghost = dict(self.ghost)
        st.idx = list(self.idx)
        st.next_obj = self.next_obj
        return st


class Obligation:
    __slots__ = ("name", "pc", "goal", "meta", "status", "time", "model", "backend")

    def __init__(self, name, pc, goal, meta=None):
        self.name = name
        self.pc = list(pc)
        self.goal = goal
        self.meta = meta or {}
        self.status = None
        self.time = 0.0
        self.model = None
        self.backend = None


class PathCtx:
    def __init__(self, decisions, base_pc, explorer):
        self.decisions = list(decisions)
        self.pos = 0
        self.pc = list(base_pc)
        # parallel to pc: 'X' base, 'A' assumption, 'B' branch condition, 'G' global fact, 'D' heavy definition
        bk = getattr(explorer, "base_kinds", None)
        self.kinds = (["D" if k == "D" else "X" for k in bk] + ["X"] * (len(self.pc) - len(bk))) if bk else ["X"] * len(self.pc)
        self.explorer = explorer
        self.alternatives = []
        self.obligations = []
        self.assumptions_used = []  # names of assumptions (field types, axioms) used on this path
        self.fresh_n = 0
        self._solver = None
        self.memo = {}
        self.parent = getattr(explorer, "parent", None)

    # ---- fresh symbols (deterministic per path so that prefixes coincide) ----
    def fresh(self, base, sort, idx=()):
        self.fresh_n += 1
        name = f"{base}!{self.explorer.uid}.{self.fresh_n}"
        if idx:
            f = z3.Function(name, *[i.sort() for i in idx], sort)
            return f(*idx)
        return z3.Const(name, sort)

    # ---- solver ----
    def solver(self):
        if self._solver is None:
            s = z3.Solver()
            s.set("timeout", self.explorer.branch_timeout_ms)
            for c, k in zip(self.pc, self.kinds):
                if k != "D":
                    s.add(weaken(c))
            self._solver = s
            self._solver_n = len(self.pc)
        else:
            while self._solver_n < len(self.pc):
                c = self.pc[self._solver_n]
                if self.kinds[self._solver_n] != "D":
                    self._solver.add(weaken(c))
                self._solver_n += 1
        return self._solver

    def feasible(self, cond):
        cond = weaken(cond)
        # re-execution repeats the same query (same prefix terms) on sibling paths: memoise per explorer
        fm = getattr(self.explorer, "fmemo", None)
        if fm is None:
            fm = self.explorer.fmemo = {}
        fkey = (tuple(c.get_id() for c, k in zip(self.pc, self.kinds) if k != "D"), cond.get_id())
        hit = fm.get(fkey)
        if hit is not None:
            return hit[0]
        s = self.solver()
        s.push()
        s.add(cond)
        t0 = time.time()
        r = s.check()
        self.explorer.stats["branch_checks"] += 1
        self.explorer.stats["branch_time"] += time.time() - t0
        s.pop()
        res = r != z3.unsat  # unknown counts as feasible (sound: more paths)
        fm[fkey] = (res, list(self.pc), cond)  # keeps the key's terms alive
        return res

    def feasible_full(self, timeout_ms=5000):
        """Feasibility with the complete path condition (quantifiers included); unknown counts as feasible."""
        s = z3.Solver()
        s.set("timeout", timeout_ms)
        for c in self.pc:
            s.add(c)
        return s.check() != z3.unsat

    def feasible_full_memo(self, timeout_ms=3000):
        """feasible_full, memoised per explorer on the identity of the path condition (re-execution repeats it)"""
        fm = getattr(self.explorer, "ffmemo", None)
        if fm is None:
            fm = self.explorer.ffmemo = {}
        key = tuple(c.get_id() for c in self.pc)
        hit = fm.get(key)
        if hit is None:
            hit = fm[key] = (self.feasible_full(timeout_ms), list(self.pc))
        return hit[0]

    def assume(self, cond, name=None, glob=False, heavy=False):
        """glob=True: the fact is self-guarded and valid on every path (type facts); it is propagated unguarded.
        heavy=True: a large definitional formula -- kept for the final obligations, left out of the feasibility
        checks (fewer constraints there is sound)."""
        cond = simp(cond) if not isinstance(cond, bool) else z3.BoolVal(cond)
        if z3.is_true(cond):
            return
        self.pc.append(cond)
        self.kinds.append("D" if heavy else ("G" if glob else "A"))
        if name:
            self.assumptions_used.append(name)

    def constrain(self, cond):
        """Add a path-defining condition (kind 'B'): which alternative of a summarised construct was taken."""
        cond = simp(cond) if not isinstance(cond, bool) else z3.BoolVal(cond)
        if z3.is_true(cond):
            return
        self.pc.append(cond)
        self.kinds.append("B")

    def branch(self, cond):
        """Decide a symbolic condition; returns Python bool. Adds the taken side to the path condition."""
        if isinstance(cond, bool):
            return cond
        cond = simp(cond)
        if z3.is_true(cond):
            return True
        if z3.is_false(cond):
            return False
        if self.pos < len(self.decisions):
            d = self.decisions[self.pos]
            self.pos += 1
            self.pc.append(cond if d else z3.Not(cond))
            self.kinds.append("B")
            return d
        can_t = self.feasible(cond)
        can_f = self.feasible(z3.Not(cond))
        if can_t and can_f:
            self.alternatives.append(self.decisions + [False])
            d = True
        elif can_t:
            d = True
        elif can_f:
            d = False
        else:
            raise Infeasible()
        self.decisions.append(d)
        self.pos += 1
        self.pc.append(cond if d else z3.Not(cond))
        self.kinds.append("B")
        return d

    def choose(self, n):
        """Nondeterministic choice among n options (no feasibility test here)."""
        if n <= 0:
            raise Infeasible()
        if self.pos < len(self.decisions):
            d = self.decisions[self.pos]
            self.pos += 1
            return d
        for alt in range(1, n):
            self.alternatives.append(self.decisions + [alt])
        self.decisions.append(0)
        self.pos += 1
        return 0

    def memo_get(self, key):
        c = self
        while c is not None:
            v = c.memo.get(key)
            if v is not None:
                return v
            c = c.parent
        return None

    def check_feasible(self):
        if not self.feasible(z3.BoolVal(True)):
            raise Infeasible()

    def oblige(self, name, goal, meta=None):
        if isinstance(goal, bool):
            goal = z3.BoolVal(goal)
        goal = simp(goal)
        if z3.is_true(goal):
            self.explorer.stats["trivial_obligations"] += 1
            self.obligations.append(Obligation(name, [], z3.BoolVal(True), dict(meta or {}, trivial=True)))
            return
        self.obligations.append(Obligation(name, self.pc, goal, meta))


class PathResult:
    __slots__ = ("pc", "state", "outcome", "value", "obligations", "assumptions", "decisions", "branches", "assumes",
                 "kinds", "globals")

    def __init__(self, pc, state, outcome, value, obligations, assumptions, decisions, kinds=None):
        self.pc = pc
        kinds = kinds or ["B"] * len(pc)
        self.kinds = list(kinds)
        self.branches = [c for c, k in zip(pc, kinds) if k not in ("A", "G", "D")]
        self.assumes = [c for c, k in zip(pc, kinds) if k in ("A", "D")]
        self.globals = [c for c, k in zip(pc, kinds) if k == "G"]
        self.state = state
        self.outcome = outcome  # 'return' | 'raise' | 'fall' | 'break' | 'continue'
        self.value = value
        self.obligations = obligations
        self.assumptions = assumptions
        self.decisions = decisions


_uid = [0]


class Explorer:
    def __init__(self, base_pc=(), branch_timeout_ms=2000, max_paths=20000, stats=None, base_kinds=None, parent=None):
        _uid[0] += 1
        self.uid = _uid[0]
        self.base_pc = list(base_pc)
        self.base_kinds = list(base_kinds) if base_kinds is not None else None
        self.parent = parent  # enclosing PathCtx (its path condition is a prefix of ours): memo lookups chain up
        self.branch_timeout_ms = branch_timeout_ms
        self.max_paths = max_paths
        self.stats = stats if stats is not None else {"branch_checks": 0, "branch_time": 0.0, "paths": 0,
                                                     "trivial_obligations": 0, "infeasible": 0}

    def explore(self, run):
        """run(ctx) -> (state, outcome, value); control exceptions are mapped to outcomes here."""
        results = []
        work = [[]]
        while work:
            dec = work.pop()
            ctx = PathCtx(dec, self.base_pc, self)
            try:
                st, outcome, value = run(ctx)
            except Infeasible:
                self.stats["infeasible"] += 1
                work.extend(ctx.alternatives)
                continue
            work.extend(ctx.alternatives)
            self.stats["paths"] += 1
            results.append(PathResult(ctx.pc[len(self.base_pc):], st, outcome, value, ctx.obligations,
                                      ctx.assumptions_used, ctx.decisions, ctx.kinds[len(self.base_pc):]))
            if len(results) > self.max_paths:
                from .values import Unsupported
                raise Unsupported(f"path explosion (> {self.max_paths} paths)")
        return results
