"""Mechanical extraction of the verified text from /repo's working tree (re-read on every run).

What extraction drops (reported per function in evidence): decorators other than @property/@staticmethod/
@<name>.setter, type annotations, docstrings and bare string statements.  Nothing else: a construct outside the
subset makes the function out of reach (values.Unsupported), it is never skipped silently."""
import ast
import hashlib
import importlib
import importlib.util
import os
import sys

REPO = os.environ.get("PYVC_REPO", "/repo")


class SourceModule:
    def __init__(self, name, path):
        self.name = name
        self.path = path
        with open(path, "r", encoding="utf-8") as f:
            self.text = f.read()
        self.tree = ast.parse(self.text, filename=path)
        self.index = {}
        self._index(self.tree.body, "")

    def _index(self, body, prefix):
        for n in body:
            if isinstance(n, (ast.FunctionDef, ast.AsyncFunctionDef)):
                q = prefix + n.name
                # property setters get a distinct key
                for d in n.decorator_list:
                    if isinstance(d, ast.Attribute) and d.attr == "setter":
                        q = prefix + n.name + ".setter"
                self.index.setdefault(q, n)
                self._index(n.body, q + ".<locals>.")
            elif isinstance(n, ast.ClassDef):
                self._index(n.body, prefix + n.name + ".")
            elif isinstance(n, (ast.If, ast.Try)):
                self._index(n.body, prefix)
                for h in getattr(n, "handlers", []):
                    self._index(h.body, prefix)
                self._index(n.orelse, prefix)

    def find(self, qual):
        return self.index.get(qual)

    def span(self, qual):
        n = self.find(qual)
        if n is None:
            return None
        return (n.lineno, n.end_lineno)

    def digest(self, qual):
        n = self.find(qual)
        if n is None:
            return None
        seg = "\n".join(self.text.splitlines()[n.lineno - 1:n.end_lineno])
        return hashlib.sha256(seg.encode()).hexdigest()[:16]

    def dropped(self, qual):
        n = self.find(qual)
        out = []
        if n is None:
            return out
        for d in n.decorator_list:
            txt = ast.unparse(d)
            if txt in ("property", "staticmethod") or txt.endswith(".setter"):
                continue
            out.append(f"decorator @{txt}")
        anns = sum(1 for x in ast.walk(n) if isinstance(x, ast.AnnAssign) and x.value is None)
        if anns:
            out.append(f"{anns} bare annotation statement(s)")
        if ast.get_docstring(n):
            out.append("docstring")
        if any(a.annotation is not None for a in n.args.args + n.args.kwonlyargs) or n.returns is not None:
            out.append("parameter / return annotations")
        return out


class Sources:
    def __init__(self, repo=REPO):
        self.repo = repo
        self.mods = {}
        self.scopes = {}
        if repo not in sys.path:
            sys.path.insert(0, repo)

    def get(self, modname):
        if modname in self.mods:
            return self.mods[modname]
        path = None
        cand = os.path.join(self.repo, *modname.split(".")) + ".py"
        if os.path.exists(cand):
            path = cand
        else:
            cand2 = os.path.join(self.repo, *modname.split("."), "__init__.py")
            if os.path.exists(cand2):
                path = cand2
        if path is None:
            spec = importlib.util.find_spec(modname)
            if spec is None or not spec.origin:
                return None
            path = spec.origin
        if not path.endswith(".py"):
            return None  # extension module (math, ...): no source; its members are modelled builtins
        sm = SourceModule(modname, path)
        self.mods[modname] = sm
        return sm

    def scope(self, modname):
        from .exec import ModuleScope
        if modname not in self.scopes:
            pymod = importlib.import_module(modname)
            real = os.path.realpath(getattr(pymod, "__file__", "") or "")
            src = self.get(modname)
            if src is not None and real and os.path.realpath(src.path) != real:
                raise RuntimeError(f"module {modname} imported from {real}, expected {src.path}")
            self.scopes[modname] = ModuleScope(modname, pymod, src)
        return self.scopes[modname]
