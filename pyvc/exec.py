"""Symbolic executor for the Python subset of DESIGN §2.3 (re-execution style, see state.py).

Verified text = ast.FunctionDef objects taken from /repo's working tree (extract.py).  Calls go by contract
(schema.Contract) unless the callee is registered for inlining; spec functions (sidecars) run through the same
executor in `spec` mode, where every operation is total and no state is changed.
"""
import ast
import builtins as _bi
import z3

from .z import V, VL, Int, vl_from, vl_nth, vl_len_is, simp
from .values import (SV, NONE, mk_int, mk_bool, mk_str, mk_flt, mk_ref, mk_any, mk_tup, mk_py, from_py, const_of,
                     box, Unsupported)
from .state import (State, Frame, PathCtx, Explorer, Infeasible, ReturnEx, BreakEx, ContinueEx, RaiseEx,
                    CheckerError, exc_matches)
from .schema import cls_of, UF, Contract

IntArr = z3.ArraySort(Int, Int)
VArr = z3.ArraySort(Int, V)
ElemArr = z3.ArraySort(Int, z3.ArraySort(Int, V))
HasArr = z3.ArraySort(Int, z3.ArraySort(V, z3.BoolSort()))
ValArr = z3.ArraySort(Int, z3.ArraySort(V, V))

SPECIAL_SORTS = {"$len": IntArr, "$elems": ElemArr, "$has": HasArr, "$val": ValArr, "$keys": IntArr}


def heap_const(prefix, attr):
    return z3.Const(f"{prefix}{attr}", SPECIAL_SORTS.get(attr, VArr))


def heap_lookup(heap, attr):
    """Array for attr in a (possibly partial) heap dict: untouched attributes still hold the initial array."""
    h = heap.get(attr)
    return h if h is not None else heap_const("H0_", attr)


class Closure:
    def __init__(self, fdef, frame, module, qual):
        self.fdef = fdef
        self.frame = frame
        self.module = module
        self.qual = qual


class BoundMethod:
    def __init__(self, recv, name, cls=None):
        self.recv = recv
        self.name = name
        self.cls = cls


class RepoFunc:
    def __init__(self, module, qual):
        self.module = module  # module name string
        self.qual = qual

    @property
    def key(self):
        return f"{self.module}:{self.qual}"


class OldMarker:
    pass


class ModuleScope:
    """Name resolution in module globals: the real imported module (constants) + extracted source (functions)."""

    def __init__(self, name, pymod, src):
        self.name = name
        self.pymod = pymod
        self.src = src  # extract.SourceModule or None (sidecar modules use their own ast)


class Exec:
    def __init__(self, registry, sources, spec=False):
        self.reg = registry
        self.sources = sources  # extract.Sources
        self.call_depth = 0
        self.report = {"inlined": set(), "contracts_used": set(), "dropped": []}
        self.loop_ids = {}
        self.loop_invs = {}
        self.top_frame_index = -1

    # ------------------------------------------------------------------ helpers
    def heap_get(self, st, attr):
        if attr not in st.heap:
            st.heap[attr] = heap_const(st.ghost.get("$heap_prefix", "H0_"), attr)
        return st.heap[attr]

    def new_obj(self, ctx, st, cls):
        """Allocate a fresh object id, distinct from every pre-existing object (ids >= 0 are pre-existing,
        new ones are negative)."""
        st.next_obj[0] += 1
        oid = ctx.fresh("new", Int, tuple(st.idx))
        # fresh allocation: distinct from all previously allocated and all initial objects
        ctx.assume(oid < -1)  # -1 is reserved for the ghost file-system trace (pyvc/effects.py)
        for other in st.ghost.get("$alloc", []):
            ctx.assume(oid != other)
        st.ghost["$alloc"] = st.ghost.get("$alloc", []) + [oid]
        ci = self.reg.classes[cls]
        ctx.assume(cls_of(oid) == ci.tag)
        return mk_ref(oid, cls)

    def new_list(self, ctx, st, items):
        r = self.new_obj(ctx, st, "list")
        ln = self.heap_get(st, "$len")
        el = self.heap_get(st, "$elems")
        arr = z3.K(Int, V.NONE)
        for i, it in enumerate(items):
            arr = z3.Store(arr, i, box(it))
        st.heap["$len"] = z3.Store(ln, r.t, len(items))
        st.heap["$elems"] = z3.Store(el, r.t, arr)
        return r

    def new_dict(self, ctx, st):
        r = self.new_obj(ctx, st, "dict")
        st.heap["$has"] = z3.Store(self.heap_get(st, "$has"), r.t, z3.K(V, z3.BoolVal(False)))
        st.heap["$val"] = z3.Store(self.heap_get(st, "$val"), r.t, z3.K(V, V.NONE))
        keys = self.new_list(ctx, st, [])
        st.heap["$keys"] = z3.Store(self.heap_get(st, "$keys"), r.t, keys.t)
        return r

    def raise_(self, st, exc, node=None, msg=None):
        where = f"{st.frames[-1].fname}:{getattr(node, 'lineno', '?')}" if st.frames else "?"
        raise RaiseEx(exc, msg, where)

    # ------------------------------------------------------------------ type tests on SV
    def unbox(self, sv, kind):
        """any -> SV of the given kind (caller has established the tag)."""
        if sv.k == kind:
            return sv
        if sv.k != "any":
            raise CheckerError(f"unbox {sv.k} as {kind}")
        t = sv.t
        if kind == "int":
            return mk_int(V.i(t))
        if kind == "bool":
            return mk_bool(V.b(t))
        if kind == "str":
            return mk_str(V.s(t))
        if kind == "flt":
            return mk_flt(V.f(t))
        if kind == "ref":
            return mk_ref(V.r(t))
        if kind == "none":
            return NONE
        raise CheckerError(f"unbox to {kind}")

    def tag_test(self, sv, kind):
        """z3 Bool / python bool: value has this representation kind."""
        if sv.k == "any":
            return {"none": V.is_NONE, "bool": V.is_BOOL, "int": V.is_INT, "str": V.is_STR, "ref": V.is_REF,
                    "tup": V.is_TUP, "flt": V.is_FLT}[kind](sv.t)
        if sv.k == "py":
            return False
        return sv.k == kind

    def concretize_kind(self, ctx, sv, kinds):
        """Fork on the tag of an `any` value among `kinds`; returns the unboxed SV or None if none matches."""
        if sv.k != "any":
            return sv if sv.k in kinds else None
        t = simp(sv.t)
        # already a constructor application?
        for kind in kinds:
            if ctx.branch(self.tag_test(SV("any", t), kind)):
                if kind == "tup":
                    return SV("any", t)
                return self.unbox(SV("any", t), kind)
        return None

    def as_tuple_items(self, ctx, sv, n=None):
        """Return list of SV items for a tuple value (forks on arity if symbolic). None if not a tuple."""
        if sv.k == "tup":
            return sv.t
        if sv.k == "py" and isinstance(sv.py, tuple):
            return [from_py(x) for x in sv.py]
        if sv.k != "any":
            return None
        if not ctx.branch(V.is_TUP(sv.t)):
            return None
        vl = V.t(sv.t)
        if n is not None:
            if not ctx.branch(vl_len_is(vl, n)):
                return False  # wrong arity
            return [mk_any(simp(vl_nth(vl, i))) for i in range(n)]
        # unknown arity: try 2, 3, 1, 0
        for k in (3, 2, 1, 0, 4):
            if ctx.branch(vl_len_is(vl, k)):
                return [mk_any(simp(vl_nth(vl, i))) for i in range(k)]
        raise Unsupported("tuple of arity > 4")

    # ------------------------------------------------------------------ truthiness / equality
    def truth(self, ctx, st, sv):
        k = sv.k
        if k == "none":
            return False
        if k == "bool":
            return sv.t
        if k == "int":
            return sv.t != 0
        if k == "str":
            return z3.Length(sv.t) > 0
        if k == "flt":
            return sv.t != 0
        if k == "tup":
            return len(sv.t) > 0
        if k == "py":
            o = sv.py
            if isinstance(o, (Closure, BoundMethod, RepoFunc, UF)):
                return True
            return bool(o)
        if k == "ref":
            return self.truth_ref(ctx, st, sv)
        # any
        t = sv.t
        return z3.If(V.is_NONE(t), False,
               z3.If(V.is_BOOL(t), V.b(t),
               z3.If(V.is_INT(t), V.i(t) != 0,
               z3.If(V.is_STR(t), z3.Length(V.s(t)) > 0,
               z3.If(V.is_TUP(t), VL.is_CONS(V.t(t)),
               z3.If(V.is_FLT(t), V.f(t) != 0,
                     self.truth_ref(ctx, st, mk_ref(V.r(t)))))))))

    def truth_ref(self, ctx, st, sv):
        if sv.cls:
            ci = self.reg.classes[sv.cls]
            if ci.container:
                return z3.Select(self.heap_get(st, "$len"), sv.t) != 0
            return True
        cont_tags = [c.tag for c in self.reg.classes.values() if c.container]
        is_cont = z3.Or(*[cls_of(sv.t) == tg for tg in cont_tags]) if cont_tags else z3.BoolVal(False)
        return z3.If(is_cont, z3.Select(self.heap_get(st, "$len"), sv.t) != 0, True)

    def py_eq(self, ctx, st, a, b):
        """Python == as z3 Bool (or python bool)."""
        ka, kb = a.k, b.k
        if ka == "py" or kb == "py":
            from .builtins_model import TypeOf
            if (ka == "py" and isinstance(a.py, TypeOf)) or (kb == "py" and isinstance(b.py, TypeOf)):
                return self.py_is(ctx, st, a, b)  # classes compare by identity
            oka, va = const_of(a)
            okb, vb = const_of(b)
            if oka and okb:
                return va == vb
            if ka == "py" and kb == "py":
                return a.py == b.py
            return False
        if ka == "tup" and kb == "tup":
            if len(a.t) != len(b.t):
                return False
            cs = [self.py_eq(ctx, st, x, y) for x, y in zip(a.t, b.t)]
            return _and(cs)
        num = ("bool", "int", "flt")
        if ka in num and kb in num:
            return self.num_term(a) == self.num_term(b)
        if ka == kb and ka in ("str",):
            return a.t == b.t
        if ka == "none" and kb == "none":
            return True
        if ka == "ref" and kb == "ref":
            return a.t == b.t  # identity; verified classes define no __eq__ (checked by extract)
        if ka != "any" and kb != "any":
            if (ka == "tup") != (kb == "tup") or ka != kb:
                return False
        # at least one any
        ta, tb = box(a), box(b)
        same = ta == tb
        if (ka in ("none", "str", "ref", "tup")) or (kb in ("none", "str", "ref", "tup")):
            if ka == "tup" or kb == "tup":
                # tuples may contain bool/int mixtures; structural equality is used (tree tuples hold ints/refs)
                return same
            return same
        # numeric cross-kind equality
        def numval(t):
            return z3.If(V.is_BOOL(t), z3.If(V.b(t), z3.RealVal(1), z3.RealVal(0)),
                         z3.If(V.is_INT(t), z3.ToReal(V.i(t)), V.f(t)))
        def isnum(t):
            return z3.Or(V.is_BOOL(t), V.is_INT(t), V.is_FLT(t))
        return z3.Or(same, z3.And(isnum(ta), isnum(tb), numval(ta) == numval(tb)))

    def num_term(self, sv):
        if sv.k == "bool":
            return z3.If(sv.t, z3.IntVal(1), z3.IntVal(0))
        return sv.t

    def py_is(self, ctx, st, a, b):
        ka, kb = a.k, b.k
        if ka == "none" or kb == "none":
            o = b if ka == "none" else a
            if o.k == "none":
                return True
            if o.k == "any":
                return V.is_NONE(o.t)
            return False
        if ka == "py" or kb == "py":
            from .builtins_model import TypeOf, type_is
            if ka == "py" and isinstance(a.py, TypeOf) and kb == "py" and isinstance(b.py, type):
                return type_is(self, ctx, st, a.py.v, b.py)
            if kb == "py" and isinstance(b.py, TypeOf) and ka == "py" and isinstance(a.py, type):
                return type_is(self, ctx, st, b.py.v, a.py)
            if (ka == "py" and isinstance(a.py, TypeOf)) or (kb == "py" and isinstance(b.py, TypeOf)):
                raise Unsupported("type(x) compared with something that is not a class")
            if ka == "py" and kb == "py":
                return a.py is b.py
            oka, va = const_of(a)
            okb, vb = const_of(b)
            if oka and okb:
                return va is vb or (type(va) is type(vb) and isinstance(va, (int, str)) and va == vb)
            return False
        if ka == "bool" and kb == "bool":
            return a.t == b.t
        if ka == "ref" and kb == "ref":
            return a.t == b.t
        if ka != "any" and kb != "any" and ka != kb:
            return False
        # `is` on small ints / interned strings: the library relies on it for token constants; model as equality
        # of same-kind values (python-semantics:is-on-small-ints)
        return box(a) == box(b)

    # ------------------------------------------------------------------ name resolution
    def lookup(self, ctx, st, name, node=None):
        fr = st.frames[-1]
        f = fr
        while f is not None:
            if name in f.vars:
                return f.vars[name]
            f = f.parent
        return self.lookup_global(ctx, st, fr.globals_mod, name, node)

    def lookup_global(self, ctx, st, gm, name, node=None):
        # sidecar / repo module globals
        pymod = gm.pymod
        if pymod is not None and hasattr(pymod, name):
            return self.wrap_global(gm, name, getattr(pymod, name))
        if hasattr(_bi, name):
            return mk_py(getattr(_bi, name))
        self.raise_(st, "NameError", node)

    def wrap_global(self, gm, name, o):
        import types
        if isinstance(o, UF):
            return mk_py(o)
        if isinstance(o, types.FunctionType):
            mod = o.__module__
            if _is_repo_module(mod):
                return mk_py(RepoFunc(mod, o.__qualname__))
            return mk_py(o)
        if isinstance(o, type) and getattr(o, "__module__", "") not in ("builtins",):
            return mk_py(o)
        if isinstance(o, (bool, int, str, float, type(None))):
            return from_py(o)
        if isinstance(o, tuple) and all(isinstance(x, (bool, int, str, float, type(None))) for x in o):
            return from_py(o)
        return mk_py(o)

    def assign_name(self, st, name, val):
        st.frames[-1].vars[name] = val

    # ------------------------------------------------------------------ statements
    def exec_block(self, ctx, st, stmts):
        for s in stmts:
            self.exec_stmt(ctx, st, s)

    def exec_stmt(self, ctx, st, s):
        m = getattr(self, "s_" + type(s).__name__, None)
        if m is None:
            raise Unsupported(f"statement {type(s).__name__} at line {getattr(s, 'lineno', '?')}")
        return m(ctx, st, s)

    def s_Pass(self, ctx, st, s):
        pass

    def s_Expr(self, ctx, st, s):
        if isinstance(s.value, ast.Constant) and isinstance(s.value.value, str):
            return  # docstring / attribute doc
        self.eval(ctx, st, s.value)

    def s_Return(self, ctx, st, s):
        v = self.eval(ctx, st, s.value) if s.value is not None else NONE
        raise ReturnEx(v)

    def s_Break(self, ctx, st, s):
        raise BreakEx()

    def s_Continue(self, ctx, st, s):
        raise ContinueEx()

    def s_Global(self, ctx, st, s):
        raise Unsupported("global statement")

    def s_Nonlocal(self, ctx, st, s):
        st.frames[-1].vars.setdefault("$nonlocal", mk_py(set())).py.update(s.names)

    def s_Import(self, ctx, st, s):
        import importlib
        for a in s.names:
            mod = importlib.import_module(a.name)
            if a.asname:
                self.assign_name(st, a.asname, mk_py(mod))
            else:
                self.assign_name(st, a.name.split(".")[0], mk_py(importlib.import_module(a.name.split(".")[0])))

    def s_ImportFrom(self, ctx, st, s):
        import importlib
        name = s.module or ""
        if s.level:
            # relative import: resolve against the package of the module the executing function lives in
            gmod = st.frames[-1].globals_mod
            pkg = getattr(gmod, "name", None) or ""
            parts = pkg.split(".")
            base = ".".join(parts[:len(parts) - s.level])
            name = (base + "." + name) if name else base
        mod = importlib.import_module(name)
        for a in s.names:
            gm = ModuleScope(name, mod, self.sources.get(name) if self.sources else None)
            self.assign_name(st, a.asname or a.name, self.wrap_global(gm, a.name, getattr(mod, a.name)))

    def s_Assert(self, ctx, st, s):
        c = self.truth(ctx, st, self.eval(ctx, st, s.test))
        if not ctx.branch(c):
            self.raise_(st, "AssertionError", s)

    def s_AnnAssign(self, ctx, st, s):
        if s.value is None:
            return  # bare annotation: no effect
        v = self.eval(ctx, st, s.value)
        # `name: List[str] = []`: the annotation of a freshly built local list is used as a CHECKED claim: every
        # append to that list object must store a value of the element type (obligation at the append), and reads
        # of its elements may then assume the type.  Other annotations stay dropped.
        a = s.annotation
        if (v.k == "ref" and isinstance(s.value, (ast.List, ast.Call)) and isinstance(a, ast.Subscript)
                and isinstance(a.value, ast.Name) and a.value.id in ("List", "list")
                and isinstance(a.slice, ast.Name) and a.slice.id in ("str", "int")
                and z3.is_const(v.t) and v.t.decl().name().startswith("new!")):
            from . import types as T
            v.ety = T.parse(a.slice.id)
            v.eguard = None
            st.ghost["$annotated_lists"] = dict(st.ghost.get("$annotated_lists", {}), **{v.t.decl().name(): v.ety})
        self.assign_target(ctx, st, s.target, v)

    def s_Assign(self, ctx, st, s):
        v = self.eval(ctx, st, s.value)
        for tgt in s.targets:
            self.assign_target(ctx, st, tgt, v)

    def s_AugAssign(self, ctx, st, s):
        cur = self.eval(ctx, st, _load(s.target))
        rhs = self.eval(ctx, st, s.value)
        # in-place list extension mutates the object
        if isinstance(s.op, ast.Add) and self.is_container(ctx, st, cur, "list"):
            self.list_extend(ctx, st, cur, rhs, s)
            return
        if isinstance(s.op, ast.BitOr) and self.is_container(ctx, st, cur, "set"):
            self.set_update(ctx, st, cur, rhs, s)
            return
        v = self.binop(ctx, st, s.op, cur, rhs, s)
        self.assign_target(ctx, st, s.target, v)

    def s_Delete(self, ctx, st, s):
        for tgt in s.targets:
            if isinstance(tgt, ast.Subscript):
                obj = self.eval(ctx, st, tgt.value)
                key = self.eval(ctx, st, tgt.slice)
                self.del_item(ctx, st, obj, key, s)
            elif isinstance(tgt, ast.Name):
                st.frames[-1].vars.pop(tgt.id, None)
            else:
                raise Unsupported("del target")

    def assign_target(self, ctx, st, tgt, v):
        if isinstance(tgt, ast.Name):
            fr = st.frames[-1]
            nl = fr.vars.get("$nonlocal")
            if nl is not None and tgt.id in nl.py:
                f = fr.parent
                while f is not None:
                    if tgt.id in f.vars:
                        f.vars[tgt.id] = v
                        return
                    f = f.parent
            fr.vars[tgt.id] = v
        elif isinstance(tgt, (ast.Tuple, ast.List)):
            items = self.iter_fixed(ctx, st, v, len(tgt.elts), tgt)
            for e, it in zip(tgt.elts, items):
                self.assign_target(ctx, st, e, it)
        elif isinstance(tgt, ast.Attribute):
            obj = self.eval(ctx, st, tgt.value)
            self.set_attr(ctx, st, obj, tgt.attr, v, tgt)
        elif isinstance(tgt, ast.Subscript):
            obj = self.eval(ctx, st, tgt.value)
            key = self.eval(ctx, st, tgt.slice)
            self.set_item(ctx, st, obj, key, v, tgt)
        else:
            raise Unsupported(f"assignment target {type(tgt).__name__}")

    def iter_fixed(self, ctx, st, v, n, node):
        """Unpack v into exactly n items (tuple unpacking)."""
        items = self.as_tuple_items(ctx, v, n)
        if items is None:
            # list?
            if self.is_container(ctx, st, v, "list"):
                ln = z3.Select(self.heap_get(st, "$len"), self.ref_id(v))
                if not ctx.branch(ln == n):
                    self.raise_(st, "ValueError", node)
                el = z3.Select(self.heap_get(st, "$elems"), self.ref_id(v))
                return [mk_any(simp(z3.Select(el, i))) for i in range(n)]
            self.raise_(st, "TypeError", node)
        if items is False or len(items) != n:
            self.raise_(st, "ValueError", node)
        return items

    def s_If(self, ctx, st, s):
        c = self.truth(ctx, st, self.eval(ctx, st, s.test))
        if ctx.branch(c):
            self.exec_block(ctx, st, s.body)
        else:
            self.exec_block(ctx, st, s.orelse)

    def s_Raise(self, ctx, st, s):
        if s.exc is None:
            cur = st.ghost.get("$handling")
            if cur is None:
                self.raise_(st, "RuntimeError", s)
            raise RaiseEx(cur.exc, cur.msg, cur.where)
        e = s.exc
        name = None
        if isinstance(e, ast.Call):
            # evaluate arguments (formatting may itself raise)
            for a in e.args:
                self.eval(ctx, st, a)
            e = e.func
        if isinstance(e, ast.Name):
            name = e.id
        elif isinstance(e, ast.Attribute):
            name = e.attr
        if name is None:
            raise Unsupported("raise of computed exception")
        self.raise_(st, name, s)

    def s_Try(self, ctx, st, s):
        try:
            try:
                self.exec_block(ctx, st, s.body)
            except RaiseEx as ex:
                handled = False
                for h in s.handlers:
                    names = _handler_names(h)
                    if names is None or any(exc_matches(ex.exc, n) for n in names):
                        handled = True
                        if h.name:
                            self.assign_name(st, h.name, mk_py(ExcValue(ex)))
                        prev = st.ghost.get("$handling")
                        st.ghost["$handling"] = ex
                        try:
                            self.exec_block(ctx, st, h.body)
                        finally:
                            st.ghost["$handling"] = prev
                        break
                if not handled:
                    raise
            else:
                self.exec_block(ctx, st, s.orelse)
        finally:
            if s.finalbody:
                self.exec_block(ctx, st, s.finalbody)

    def s_FunctionDef(self, ctx, st, s):
        fr = st.frames[-1]
        self.assign_name(st, s.name, mk_py(Closure(s, fr, fr.globals_mod, fr.fname + ".<locals>." + s.name)))

    def s_With(self, ctx, st, s):
        from . import effects
        return effects.exec_with(self, ctx, st, s)

    def s_While(self, ctx, st, s):
        from . import loops
        return loops.exec_while(self, ctx, st, s)

    def s_For(self, ctx, st, s):
        from . import loops
        return loops.exec_for(self, ctx, st, s)

    # ------------------------------------------------------------------ expressions
    def eval(self, ctx, st, e):
        m = getattr(self, "e_" + type(e).__name__, None)
        if m is None:
            raise Unsupported(f"expression {type(e).__name__} at line {getattr(e, 'lineno', '?')}")
        return m(ctx, st, e)

    def e_Constant(self, ctx, st, e):
        v = e.value
        if v is Ellipsis:
            raise Unsupported("Ellipsis")
        if isinstance(v, bytes):
            raise Unsupported("bytes")
        return from_py(v)

    def e_Name(self, ctx, st, e):
        return self.lookup(ctx, st, e.id, e)

    def e_Tuple(self, ctx, st, e):
        return mk_tup([self.eval(ctx, st, x) for x in e.elts])

    def e_List(self, ctx, st, e):
        return self.new_list(ctx, st, [self.eval(ctx, st, x) for x in e.elts])

    def e_Set(self, ctx, st, e):
        from . import containers
        return containers.new_set(self, ctx, st, [self.eval(ctx, st, x) for x in e.elts])

    def e_Dict(self, ctx, st, e):
        d = self.new_dict(ctx, st)
        for k, v in zip(e.keys, e.values):
            if k is None:
                raise Unsupported("dict unpacking")
            self.set_item(ctx, st, d, self.eval(ctx, st, k), self.eval(ctx, st, v), e)
        return d

    def e_JoinedStr(self, ctx, st, e):
        parts = []
        for v in e.values:
            if isinstance(v, ast.Constant):
                parts.append(mk_str(v.value))
            else:
                val = self.eval(ctx, st, v.value)
                if v.format_spec is not None:
                    raise Unsupported("f-string format spec")
                if v.conversion == 114:  # !r
                    raise Unsupported("f-string !r")
                parts.append(self.to_str(ctx, st, val, v))
        out = parts[0].t if parts else z3.StringVal("")
        for p in parts[1:]:
            out = z3.Concat(out, p.t)
        return mk_str(simp(out) if parts else out)

    def e_BoolOp(self, ctx, st, e):
        is_and = isinstance(e.op, ast.And)
        if st.ghost.get("$spec"):
            # spec mode: truth-valued, operands evaluated under the guard of the preceding ones, merged
            from . import calls
            acc = None
            guard = None
            parts = []
            for sub in e.values:
                if guard is None:
                    v = self.eval(ctx, st, sub)
                else:
                    v = calls.eval_merged(self, ctx, st, sub, guard)
                    if v is None:
                        break
                t = self.truth(ctx, st, v)
                t = z3.BoolVal(t) if isinstance(t, bool) else t
                parts.append(t)
                g = t if is_and else z3.Not(t)
                guard = g if guard is None else z3.And(guard, g)
                if z3.is_false(simp(guard)):
                    break
            # a and b and c  ==  t1 & (t1 -> t2) & ...   (later operands are only meaningful under the guard)
            out = None
            for t in reversed(parts):
                if out is None:
                    out = t
                else:
                    out = z3.And(t, out) if is_and else z3.Or(t, out)
            return mk_bool(simp(out))
        cur = None
        for i, sub in enumerate(e.values):
            cur = self.eval(ctx, st, sub)
            if i == len(e.values) - 1:
                return cur
            c = self.truth(ctx, st, cur)
            t = ctx.branch(c)
            if is_and and not t:
                return cur
            if not is_and and t:
                return cur
        return cur

    def e_UnaryOp(self, ctx, st, e):
        v = self.eval(ctx, st, e.operand)
        if isinstance(e.op, ast.Not):
            c = self.truth(ctx, st, v)
            return mk_bool(z3.Not(c) if not isinstance(c, bool) else (not c))
        if isinstance(e.op, ast.USub):
            v = self.need_num(ctx, st, v, e)
            return SV(v.k if v.k != "bool" else "int", -self.num_term(v))
        raise Unsupported("unary op")

    def e_IfExp(self, ctx, st, e):
        if st.ghost.get("$spec"):
            from . import calls
            fake = ast.Call(func=ast.Name(id="ite", ctx=ast.Load()), args=[e.test, e.body, e.orelse], keywords=[])
            return calls._sf_ite(self, ctx, st, fake)
        c = self.truth(ctx, st, self.eval(ctx, st, e.test))
        if not isinstance(c, bool):
            cs = simp(c)
            if not z3.is_true(cs) and not z3.is_false(cs):
                from . import calls
                a = calls.try_merge_expr(self, ctx, st, e.body, cs)
                if a is not None:
                    b = calls.try_merge_expr(self, ctx, st, e.orelse, z3.Not(cs))
                    if b is not None:
                        try:
                            return calls.merge_values(self, ctx, st, [(cs, a), (z3.Not(cs), b)])
                        except Unsupported:
                            pass
        if ctx.branch(c):
            return self.eval(ctx, st, e.body)
        return self.eval(ctx, st, e.orelse)

    def e_Compare(self, ctx, st, e):
        left = self.eval(ctx, st, e.left)
        res = None
        for op, rhs_e in zip(e.ops, e.comparators):
            right = self.eval(ctx, st, rhs_e)
            c = self.compare(ctx, st, op, left, right, e)
            if len(e.ops) == 1:
                return mk_bool(c) if not isinstance(c, SV) else c
            if not ctx.branch(c if not isinstance(c, SV) else self.truth(ctx, st, c)):
                return mk_bool(False)
            left = right
        return mk_bool(True)

    def compare(self, ctx, st, op, a, b, node):
        if isinstance(op, ast.Eq):
            return _b(self.py_eq(ctx, st, a, b))
        if isinstance(op, ast.NotEq):
            return _not(self.py_eq(ctx, st, a, b))
        if isinstance(op, ast.Is):
            return _b(self.py_is(ctx, st, a, b))
        if isinstance(op, ast.IsNot):
            return _not(self.py_is(ctx, st, a, b))
        if isinstance(op, ast.In):
            return _b(self.contains(ctx, st, b, a, node))
        if isinstance(op, ast.NotIn):
            return _not(self.contains(ctx, st, b, a, node))
        # ordering
        a2 = self.concretize_kind(ctx, a, ("int", "bool", "flt", "str")) if a.k == "any" else a
        b2 = self.concretize_kind(ctx, b, ("int", "bool", "flt", "str")) if b.k == "any" else b
        if a2 is None or b2 is None:
            self.raise_(st, "TypeError", node)
        num = ("int", "bool", "flt")
        if a2.k in num and b2.k in num:
            x, y = self.num_term(a2), self.num_term(b2)
            if a2.k == "flt" and b2.k != "flt":
                y = z3.ToReal(y)
            if b2.k == "flt" and a2.k != "flt":
                x = z3.ToReal(x)
        elif a2.k == "str" and b2.k == "str":
            x, y = a2.t, b2.t
        else:
            self.raise_(st, "TypeError", node)
        if isinstance(op, ast.Lt):
            return x < y
        if isinstance(op, ast.LtE):
            return x <= y
        if isinstance(op, ast.Gt):
            return x > y
        if isinstance(op, ast.GtE):
            return x >= y
        raise Unsupported("compare op")

    def e_BinOp(self, ctx, st, e):
        a = self.eval(ctx, st, e.left)
        b = self.eval(ctx, st, e.right)
        return self.binop(ctx, st, e.op, a, b, e)

    def need_num(self, ctx, st, v, node):
        if v.k in ("int", "bool", "flt"):
            return v
        if v.k == "py":
            from .builtins_model import NonFinite
            if isinstance(v.py, NonFinite):
                ctx.assume(z3.BoolVal(False), "WF:no-nonfinite-float-literal-in-arithmetic")
                raise Infeasible()
        if v.k == "any":
            r = self.concretize_kind(ctx, v, ("int", "bool", "flt"))
            if r is not None:
                return r
        self.raise_(st, "TypeError", node)

    def binop(self, ctx, st, op, a, b, node):
        # string concatenation / formatting
        if isinstance(op, ast.Add):
            a2 = self.concretize_kind(ctx, a, ("str", "int", "bool", "flt", "tup", "ref")) if a.k == "any" else a
            b2 = self.concretize_kind(ctx, b, ("str", "int", "bool", "flt", "tup", "ref")) if b.k == "any" else b
            if a2 is None or b2 is None:
                self.raise_(st, "TypeError", node)
            if a2.k == "str" or b2.k == "str":
                if a2.k == "str" and b2.k == "str":
                    return mk_str(simp(z3.Concat(a2.t, b2.t)))
                self.raise_(st, "TypeError", node)
            if a2.k == "tup" and b2.k == "tup":
                return mk_tup(a2.t + b2.t)
            if a2.k == "ref" or b2.k == "ref":
                if self.is_container(ctx, st, a2, "list") and self.is_container(ctx, st, b2, "list"):
                    from . import containers
                    return containers.list_concat(self, ctx, st, a2, b2)
                self.raise_(st, "TypeError", node)
            a, b = a2, b2
        if isinstance(op, ast.Mod) and a.k == "str":
            raise Unsupported("% string formatting")
        if isinstance(op, ast.Mult) and (a.k == "str" or b.k == "str"):
            s_, n_ = (a, b) if a.k == "str" else (b, a)
            okn, n = const_of(n_)
            oks, s = const_of(s_)
            if okn and oks:
                return mk_str(s * n)
            from . import strings
            return strings.str_repeat(self, ctx, st, s_, n_, node)
        a = self.need_num(ctx, st, a, node)
        b = self.need_num(ctx, st, b, node)
        x, y = self.num_term(a), self.num_term(b)
        isflt = a.k == "flt" or b.k == "flt"
        if isflt:
            if a.k != "flt":
                x = z3.ToReal(x)
            if b.k != "flt":
                y = z3.ToReal(y)
        mk = mk_flt if isflt else mk_int
        if isinstance(op, ast.Add):
            return mk(simp(x + y))
        if isinstance(op, ast.Sub):
            return mk(simp(x - y))
        if isinstance(op, ast.Mult):
            return mk(simp(x * y))
        if isinstance(op, ast.FloorDiv) and not isflt:
            if not ctx.branch(y != 0):
                self.raise_(st, "ZeroDivisionError", node)
            return mk_int(simp(x / y)) if False else mk_int(_floordiv(x, y))
        if isinstance(op, ast.Mod) and not isflt:
            if not ctx.branch(y != 0):
                self.raise_(st, "ZeroDivisionError", node)
            return mk_int(_pymod(x, y))
        raise Unsupported(f"binary op {type(op).__name__}")

    def e_Attribute(self, ctx, st, e):
        obj = self.eval(ctx, st, e.value)
        return self.get_attr(ctx, st, obj, e.attr, e)

    def e_Subscript(self, ctx, st, e):
        obj = self.eval(ctx, st, e.value)
        if isinstance(e.slice, ast.Slice):
            from . import strings
            lo = self.eval(ctx, st, e.slice.lower) if e.slice.lower else None
            hi = self.eval(ctx, st, e.slice.upper) if e.slice.upper else None
            if e.slice.step is not None:
                raise Unsupported("slice step")
            return strings.slice_(self, ctx, st, obj, lo, hi, e)
        key = self.eval(ctx, st, e.slice)
        return self.get_item(ctx, st, obj, key, e)

    def e_Call(self, ctx, st, e):
        from . import calls
        return calls.eval_call(self, ctx, st, e)

    def e_Lambda(self, ctx, st, e):
        fr = st.frames[-1]
        fdef = ast.FunctionDef(name="<lambda>", args=e.args, body=[ast.Return(value=e.body)], decorator_list=[],
                               lineno=e.lineno, col_offset=0)
        return mk_py(Closure(fdef, fr, fr.globals_mod, fr.fname + ".<lambda>"))

    def e_ListComp(self, ctx, st, e):
        from . import loops
        return loops.eval_comprehension(self, ctx, st, e, "list")

    def e_SetComp(self, ctx, st, e):
        from . import loops
        return loops.eval_comprehension(self, ctx, st, e, "set")

    def e_GeneratorExp(self, ctx, st, e):
        from . import loops
        return mk_py(loops.GenExp(e, st.frames[-1]))

    def e_DictComp(self, ctx, st, e):
        from . import loops
        return loops.eval_comprehension(self, ctx, st, e, "dict")

    # ------------------------------------------------------------------ attributes
    def ref_id(self, sv):
        if sv.k == "ref":
            return sv.t
        if sv.k == "any":
            return V.r(sv.t)
        raise CheckerError("ref_id of non-ref")

    def is_container(self, ctx, st, sv, kind):
        if sv.k == "ref" and sv.cls:
            return self.reg.classes[sv.cls].container == kind
        if sv.k not in ("ref", "any"):
            return False
        if sv.k == "any":
            if not ctx.branch(V.is_REF(sv.t)):
                return False
        tags = [c.tag for c in self.reg.classes.values() if c.container == kind]
        return ctx.branch(z3.Or(*[cls_of(self.ref_id(sv)) == t for t in tags]))

    def resolve_class(self, ctx, st, obj, attr, node):
        """Return (ref SV with .cls set) for an attribute access, forking on the class tag when unknown."""
        if obj.k == "any":
            if not ctx.branch(V.is_REF(obj.t)):
                self.raise_(st, "AttributeError", node)
            obj = mk_ref(simp(V.r(obj.t)))
        if obj.k != "ref":
            self.raise_(st, "AttributeError", node)
        if obj.cls:
            return obj
        cands = self.reg.classes_with_attr(attr)
        for ci in cands:
            if ctx.branch(cls_of(obj.t) == ci.tag):
                return mk_ref(obj.t, ci.name)
        self.raise_(st, "AttributeError", node)

    def get_attr(self, ctx, st, obj, attr, node):
        from . import strings, calls
        if obj.k == "py":
            o = obj.py
            if isinstance(o, OldMarker):
                raise CheckerError("old is a function: old(expr)")
            if isinstance(o, ExcValue):
                return mk_py(ExcAttr(o, attr))
            from . import effects as _fx
            if isinstance(o, _fx.FileH):
                return mk_py(_fx.FileMethod(o, attr))
            try:
                val = getattr(o, attr)
            except AttributeError:
                self.raise_(st, "AttributeError", node)
            import types
            if isinstance(o, types.ModuleType):
                gm = ModuleScope(o.__name__, o, self.sources.get(o.__name__) if self.sources else None)
                return self.wrap_global(gm, attr, val)
            if isinstance(o, (dict, frozenset, set, list, tuple, str)) and callable(val):
                return mk_py(BoundMethod(obj, attr, cls="py"))
            if isinstance(o, type):
                if isinstance(val, (int, str, bool, float, type(None), tuple)):
                    return from_py(val)
                return mk_py(val)
            return self.wrap_global(None, attr, val)
        if obj.k == "str":
            if not hasattr("", attr):
                self.raise_(st, "AttributeError", node)
            return mk_py(BoundMethod(obj, attr, cls="str"))
        if obj.k in ("int", "bool", "flt", "none", "tup"):
            if obj.k == "tup" and attr in ("index", "count"):
                return mk_py(BoundMethod(obj, attr, cls="tup"))
            self.raise_(st, "AttributeError", node)
        if obj.k == "any":
            # strings have methods too
            if ctx.branch(V.is_STR(obj.t)):
                if not hasattr("", attr):
                    self.raise_(st, "AttributeError", node)
                return mk_py(BoundMethod(mk_str(simp(V.s(obj.t))), attr, cls="str"))
        if obj.k == "any" or (obj.k == "ref" and not obj.cls):
            # plain field declared identically in every class that has it: no fork on the class
            cands = self.reg.classes_with_attr(attr)
            if cands and all(attr in c.fields and attr not in c.props and attr not in c.methods for c in cands):
                fis = [c.fields[attr] for c in cands]
                if len({(f.type, f.kind, f.inv, f.cls) for f in fis}) == 1:
                    if obj.k == "any":
                        if not ctx.branch(V.is_REF(obj.t)):
                            self.raise_(st, "AttributeError", node)
                        obj = mk_ref(simp(V.r(obj.t)))
                    if not ctx.branch(z3.Or(*[cls_of(obj.t) == c.tag for c in cands])):
                        self.raise_(st, "AttributeError", node)
                    return self.read_field(ctx, st, obj, fis[0], node)
        obj = self.resolve_class(ctx, st, obj, attr, node)
        ci = self.reg.classes[obj.cls]
        if attr in ci.fields:
            return self.read_field(ctx, st, obj, ci.fields[attr], node)
        if attr in ci.props:
            return calls.call_member(self, ctx, st, obj, attr, [], {}, node, is_prop=True)
        if attr in ci.methods or ci.container:
            return mk_py(BoundMethod(obj, attr, cls=obj.cls))
        self.raise_(st, "AttributeError", node)

    def read_field(self, ctx, st, obj, fi, node=None):
        arr = self.heap_get(st, fi.name)
        raw = simp(z3.Select(arr, obj.t))
        if obj.cls:
            guard = cls_of(obj.t) == self.reg.classes[obj.cls].tag
        else:
            cands = [c for c in self.reg.classes_with_attr(fi.name)]
            guard = z3.Or(*[cls_of(obj.t) == c.tag for c in cands])
        val = self.typed(ctx, st, raw, fi.type, fi.cls, assume=True, why=f"field-type:{fi.name}:{fi.type}", guard=guard)
        if fi.inv and fi.name not in _INV_ACTIVE:
            from . import calls
            _INV_ACTIVE.add(fi.name)
            try:
                c = calls.eval_spec_bool(self, ctx, st, self.reg.invariants[fi.name], [obj, val])
            finally:
                _INV_ACTIVE.discard(fi.name)
            ctx.assume(c, f"invariant:{fi.name}")
        return val

    def typed(self, ctx, st, raw, typ, cls=None, assume=True, why=None, guard=None, glob=False):
        """Interpret a V term under a declared type (types.py mini language); with assume=True the type fact is
        assumed under the name `why` (a listed type-invariant assumption)."""
        from . import types as T
        if cls is not None and typ in ("ref", "optref"):
            typ = f"{typ}:{cls}"
        ty = T.parse(typ)
        if assume:
            fact = T.fact(self, st, raw, ty)
            if guard is not None:
                ctx.assume(z3.Implies(guard, fact), why, glob=True)
            else:
                ctx.assume(fact, why, glob=glob)
        v = T.view(self, raw, ty)
        if v.k == "ref" and v.ety is not None:
            v.eguard = guard
        return v

    def set_attr(self, ctx, st, obj, attr, v, node):
        if st.ghost.get("$spec"):
            raise CheckerError("attribute store in spec function")
        obj = self.resolve_class(ctx, st, obj, attr, node)
        ci = self.reg.classes[obj.cls]
        if attr in ci.props and attr not in ci.fields:
            from . import calls
            return calls.call_member(self, ctx, st, obj, attr + ".setter", [v], {}, node, is_prop=True)
        fi = ci.fields.get(attr)
        if fi is None:
            raise Unsupported(f"store to undeclared attribute {obj.cls}.{attr}")
        if fi.kind == "imm":
            raise Unsupported(f"store to field {obj.cls}.{attr} declared immutable in this scope")
        bv = box(v)
        if fi.kind == "inv" and fi.inv:
            from . import calls
            c = calls.eval_spec_bool(self, ctx, st, self.reg.invariants[fi.name], [obj, v], as_goal=True)
            ctx.oblige(f"{st.frames[-1].fname}#inv:{attr}", c,
                       {"kind": "invariant-write", "line": getattr(node, "lineno", None)})
        wl = st.ghost.get("$write_log")
        if wl is not None:
            wl.append((attr, obj.t, bv))
        st.heap[attr] = z3.Store(self.heap_get(st, attr), obj.t, bv)

    # ------------------------------------------------------------------ items
    def get_item(self, ctx, st, obj, key, node):
        from . import containers, strings
        if obj.k == "py":
            o = obj.py
            if isinstance(o, dict):
                ok, kv = const_of(key)
                if ok:
                    try:
                        hash(kv)
                    except TypeError:
                        self.raise_(st, "TypeError", node)
                    if kv in o:
                        return from_py(o[kv])
                    self.raise_(st, "KeyError", node)
                for k2, v2 in o.items():
                    if ctx.branch(_b(self.py_eq(ctx, st, key, from_py(k2)))):
                        return from_py(v2)
                self.raise_(st, "KeyError", node)
            if isinstance(o, (tuple, list)):
                return self.get_item(ctx, st, from_py(tuple(o)), key, node)
            raise Unsupported(f"subscript of concrete {type(o).__name__}")
        if obj.k == "tup" or (obj.k == "any" and ctx.branch(V.is_TUP(obj.t))):
            ok, kv = const_of(key)
            if obj.k == "tup":
                if ok and isinstance(kv, int):
                    n = len(obj.t)
                    if -n <= kv < n:
                        return obj.t[kv]
                    self.raise_(st, "IndexError", node)
                key = self.need_int(ctx, st, key, node)
                for i in range(len(obj.t)):
                    if ctx.branch(key.t == i):
                        return obj.t[i]
                for i in range(1, len(obj.t) + 1):
                    if ctx.branch(key.t == -i):
                        return obj.t[-i]
                self.raise_(st, "IndexError", node)
            # symbolic tuple
            if ok and isinstance(kv, int) and kv >= 0:
                vl = V.t(obj.t)
                cur = vl
                for _ in range(kv):
                    if not ctx.branch(VL.is_CONS(cur)):
                        self.raise_(st, "IndexError", node)
                    cur = VL.tl(cur)
                if not ctx.branch(VL.is_CONS(cur)):
                    self.raise_(st, "IndexError", node)
                return mk_any(simp(VL.hd(cur)))
            if ok and isinstance(kv, int) and kv < 0:
                items = self.as_tuple_items(ctx, obj)
                return self.get_item(ctx, st, mk_tup(items), key, node)
            raise Unsupported("symbolic index into symbolic tuple")
        if obj.k == "str" or (obj.k == "any" and ctx.branch(V.is_STR(obj.t))):
            s = obj if obj.k == "str" else mk_str(simp(V.s(obj.t)))
            return strings.index(self, ctx, st, s, key, node)
        if obj.k in ("ref", "any"):
            if obj.k == "any" and not ctx.branch(V.is_REF(obj.t)):
                self.raise_(st, "TypeError", node)
            return containers.get_item(self, ctx, st, obj, key, node)
        self.raise_(st, "TypeError", node)

    def need_int(self, ctx, st, v, node):
        if v.k == "int":
            return v
        if v.k == "bool":
            return mk_int(self.num_term(v))
        if v.k == "any":
            r = self.concretize_kind(ctx, v, ("int", "bool"))
            if r is not None:
                return self.need_int(ctx, st, r, node)
        self.raise_(st, "TypeError", node)

    def set_item(self, ctx, st, obj, key, v, node):
        from . import containers
        return containers.set_item(self, ctx, st, obj, key, v, node)

    def del_item(self, ctx, st, obj, key, node):
        from . import containers
        return containers.del_item(self, ctx, st, obj, key, node)

    def contains(self, ctx, st, cont, item, node):
        from . import containers
        return containers.contains(self, ctx, st, cont, item, node)

    def list_extend(self, ctx, st, lst, other, node):
        from . import containers
        return containers.list_extend(self, ctx, st, lst, other, node)

    def set_update(self, ctx, st, s, other, node):
        from . import containers
        return containers.set_update(self, ctx, st, s, other, node)

    def to_str(self, ctx, st, v, node):
        from . import strings
        return strings.to_str(self, ctx, st, v, node)


_INV_ACTIVE = set()


_repo_mod_memo = {}


def _is_repo_module(mod):
    r = _repo_mod_memo.get(mod)
    if r is None:
        import sys as _sys
        from .extract import REPO
        m = _sys.modules.get(mod)
        f = getattr(m, "__file__", "") or ""
        import os as _os
        r = mod.startswith("contracts") or _os.path.realpath(f).startswith(_os.path.realpath(REPO) + _os.sep)
        _repo_mod_memo[mod] = r
    return r


class ExcValue:
    def __init__(self, ex):
        self.ex = ex


class ExcAttr:
    def __init__(self, ev, attr):
        self.ev = ev
        self.attr = attr


def _load(tgt):
    import copy
    t = copy.copy(tgt)
    t.ctx = ast.Load()
    return t


def _handler_names(h):
    if h.type is None:
        return None
    if isinstance(h.type, ast.Tuple):
        return [_exc_name(x) for x in h.type.elts]
    return [_exc_name(h.type)]


def _exc_name(e):
    if isinstance(e, ast.Name):
        return e.id
    if isinstance(e, ast.Attribute):
        return e.attr
    raise Unsupported("computed exception class in handler")


def _b(c):
    return c


def _not(c):
    if isinstance(c, bool):
        return not c
    return z3.Not(c)


def _and(cs):
    if any(c is False for c in cs):
        return False
    cs = [c for c in cs if c is not True]
    if not cs:
        return True
    return z3.And(*cs)


def _floordiv(x, y):
    # Python floor division on ints from SMT-LIB div (which rounds toward -inf for positive divisor)
    return z3.If(y > 0, x / y, -((-x) / (-y)) if False else z3.If(x % y == 0, x / y, (x / y) - z3.If(y < 0, 0, 0)))


def _pymod(x, y):
    # SMT-LIB mod is always non-negative; Python's takes the sign of the divisor
    m = x % y
    return z3.If(z3.Or(y > 0, m == 0), m, m + y)
