"""File-system / stdout effect model (ghost trace).  Filled in by the FS contracts (C12, C13, C15)."""
from .values import Unsupported, NONE


def exec_with(ex, ctx, st, s):
    raise Unsupported("with statement")


def do_print(ex, ctx, st, args, kwargs, node):
    tr = st.ghost.get("$stdout")
    f = kwargs.get("file")
    if f is None:
        if tr is None:
            raise Unsupported("print to stdout outside an stdout-tracking contract")
        tr.append(("print", args))
    return NONE
