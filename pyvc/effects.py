"""File-system effect model (ghost trace) for the crash / write-only-on-change properties (C12, C13).

The trace of file-system *write* effects is a ghost list object FS_TRACE with a reserved object id (-1) that no
program object can have (pre-existing objects have ids >= 0, allocations ids < -1), so no program list aliases it.  The modelled
primitives append effect tuples to it:

    open(p, "w")            ("open_w", p)        the file is truncated (or created empty)
    f.write(s)              ("write", p, s)      s is appended to the file opened for writing
    os.replace(a, b)        ("replace", a, b)    atomic
    shutil.copyfile(a, b)   ("copyfile", a, b)   b is truncated and receives a's bytes; ("copyfile_partial", a, b)
                                                 when it fails after having started

Reads are no effects.  What a read sees is a function of the path and of the number of effects so far
(`fs_text(p, n)`, `fs_readable(p, n)`), so contents observed before and after writes are unrelated symbols.
Every primitive that can fail raises OSError on a branch of its own (nondeterministic failure).  The trace is
append-only by construction (program code cannot reach it); a contract that lists `$fs` in `modifies` lets the trace
grow, a contract that does not must leave its length unchanged (frame obligation `#frame:fs-trace`)."""
import z3

from .z import V, Int, simp
from .values import SV, Unsupported, NONE, mk_py, mk_str, mk_bool, mk_tup, mk_ref, mk_int, box

S = z3.StringSort()
B = z3.BoolSort()
FS_TRACE = z3.IntVal(-1)  # reserved object id: pre-existing program objects have ids >= 0, allocations ids < -1
fs_text = z3.Function("fs_text", S, Int, S)            # contents of a readable file after n effects
fs_readable = z3.Function("fs_readable", S, Int, B)     # open(p, "r") succeeds after n effects
fs_writable = z3.Function("fs_writable", S, Int, B)     # open(p, "w") succeeds after n effects
fs_islink = z3.Function("fs_islink", S, Int, B)
fs_exists = z3.Function("fs_exists", S, Int, B)
fs_op_ok = z3.Function("fs_op_ok", S, S, Int, B)        # os.replace / copyfile(a, b) succeeds after n effects
fs_op_started = z3.Function("fs_op_started", S, S, Int, B)  # a failing copyfile had already truncated b

TRUSTED = {
    "open / file.read / file.write": "file-system model: reads see fs_text(path, #effects so far); open(..., 'w') "
                                     "truncates, write appends; each may raise OSError",
    "os.replace": "atomic rename effect or OSError",
    "shutil.copyfile": "truncate + copy effect; a failure may leave a partial destination",
    "os.path.islink / exists": "uninterpreted functions of the path and the number of effects so far",
}


class FileH:
    def __init__(self, path, mode, epoch):
        self.path, self.mode, self.epoch = path, mode, epoch


class FileMethod:
    def __init__(self, fh, name):
        self.fh, self.name = fh, name


def trace_ref(ex, ctx, st):
    from .schema import cls_of
    ctx.assume(cls_of(FS_TRACE) == ex.reg.classes["list"].tag, "fs-model:trace-is-a-ghost-list", glob=True)
    ln = z3.Select(ex.heap_get(st, "$len"), FS_TRACE)
    ctx.assume(ln >= 0, "container-length-nonnegative")
    return mk_ref(FS_TRACE, "list")


def epoch(ex, ctx, st):
    trace_ref(ex, ctx, st)
    return simp(z3.Select(ex.heap_get(st, "$len"), FS_TRACE))


def emit(ex, ctx, st, *items):
    from . import containers
    t = trace_ref(ex, ctx, st)
    containers.list_append(ex, ctx, st, t, mk_tup(list(items)))


def _str(ex, ctx, st, v, node):
    from .builtins_model import _need_str
    return _need_str(ex, ctx, st, v, node)


def b_open(ex, ctx, st, args, kwargs, node):
    path = _str(ex, ctx, st, args[0], node)
    mode = args[1] if len(args) > 1 else kwargs.get("mode")
    m = "r"
    if mode is not None:
        if mode.k != "str" or not z3.is_string_value(simp(mode.t)):
            raise Unsupported("open() with a non-constant mode")
        m = simp(mode.t).as_string()
    n = epoch(ex, ctx, st)
    if m == "r":
        if not ctx.branch(fs_readable(path.t, n)):
            ex.raise_(st, "OSError", node)
        return mk_py(FileH(path, "r", n))
    if m == "w":
        if not ctx.branch(fs_writable(path.t, n)):
            ex.raise_(st, "OSError", node)
        emit(ex, ctx, st, mk_str("open_w"), path)
        return mk_py(FileH(path, "w", n))
    raise Unsupported(f"open() mode {m!r}")


def file_method(ex, ctx, st, fm, args, kwargs, node):
    fh = fm.fh
    if fm.name == "write" and fh.mode == "w":
        s = _str(ex, ctx, st, args[0], node)
        emit(ex, ctx, st, mk_str("write"), fh.path, s)
        return mk_int(z3.Length(s.t))
    if fm.name == "read" and fh.mode == "r":
        text = fs_text(fh.path.t, fh.epoch)
        if not args:
            return mk_str(text)
        k = ex.need_int(ctx, st, args[0], node)
        return mk_str(simp(z3.SubString(text, 0, z3.If(k.t < 0, z3.Length(text), k.t))))
    raise Unsupported(f"file.{fm.name} in mode {fh.mode}")


def exec_with(ex, ctx, st, s):
    if len(s.items) != 1:
        raise Unsupported("with statement with several items")
    it = s.items[0]
    v = ex.eval(ctx, st, it.context_expr)
    if not (v.k == "py" and isinstance(v.py, FileH)):
        raise Unsupported("with statement on something else than open(...)")
    if it.optional_vars is not None:
        ex.assign_target(ctx, st, it.optional_vars, v)
    ex.exec_block(ctx, st, s.body)  # close() has no modelled effect; exceptions propagate


def x_replace(ex, ctx, st, args, kwargs, node):
    a = _str(ex, ctx, st, args[0], node)
    b = _str(ex, ctx, st, args[1], node)
    n = epoch(ex, ctx, st)
    if not ctx.branch(fs_op_ok(a.t, b.t, n)):
        ex.raise_(st, "OSError", node)
    emit(ex, ctx, st, mk_str("replace"), a, b)
    return NONE


def x_copyfile(ex, ctx, st, args, kwargs, node):
    a = _str(ex, ctx, st, args[0], node)
    b = _str(ex, ctx, st, args[1], node)
    n = epoch(ex, ctx, st)
    if not ctx.branch(fs_op_ok(a.t, b.t, n)):
        if ctx.branch(fs_op_started(a.t, b.t, n)):
            emit(ex, ctx, st, mk_str("copyfile_partial"), a, b)
        ex.raise_(st, "OSError", node)
    emit(ex, ctx, st, mk_str("copyfile"), a, b)
    return b


def x_islink(ex, ctx, st, args, kwargs, node):
    p = _str(ex, ctx, st, args[0], node)
    return mk_bool(fs_islink(p.t, epoch(ex, ctx, st)))


def x_exists(ex, ctx, st, args, kwargs, node):
    p = _str(ex, ctx, st, args[0], node)
    return mk_bool(fs_exists(p.t, epoch(ex, ctx, st)))


def havoc_trace(ex, ctx, st):
    """a callee whose contract lists `$fs`: the trace may have grown; what was there stays"""
    trace_ref(ex, ctx, st)
    ln = ex.heap_get(st, "$len")
    el = ex.heap_get(st, "$elems")
    n0 = z3.Select(ln, FS_TRACE)
    a0 = z3.Select(el, FS_TRACE)
    n1 = ctx.fresh("fs_n", Int, tuple(st.idx))
    a1 = ctx.fresh("fs_ev", a0.sort(), tuple(st.idx))
    q = z3.Int(f"fsq!{ctx.explorer.uid}.{ctx.fresh_n}")
    ctx.fresh_n += 1
    ctx.assume(n1 >= n0, "fs-model:trace-append-only")
    ctx.assume(z3.ForAll([q], z3.Implies(z3.And(q >= 0, q < n0), z3.Select(a1, q) == z3.Select(a0, q))),
               "fs-model:trace-append-only")
    st.heap["$len"] = z3.Store(ln, FS_TRACE, n1)
    st.heap["$elems"] = z3.Store(el, FS_TRACE, a1)


def do_print(ex, ctx, st, args, kwargs, node):
    tr = st.ghost.get("$stdout")
    f = kwargs.get("file")
    if f is None:
        if tr is None:
            raise Unsupported("print to stdout outside an stdout-tracking contract")
        tr.append(("print", args))
    return NONE
