"""Mini type language for field / parameter / result declarations.

  any int str bool flt none
  ref:Cls  optref:Cls  ref  optref          object references (optionally None)
  optstr optint opttup
  list[T]  dict  set                          containers (elements of lists typed, quantified)
  tup(T1,...,Tn)                              fixed-arity tuples
  expr                                        Kconfig expression: the sidecar's IS_EXPR predicate holds
  T1|T2                                       union (facts only; the value stays boxed)
"""
import functools
import z3
from .z import V, VL, Int, vl_len_is, vl_nth, simp
from .values import SV, NONE, mk_int, mk_bool, mk_str, mk_flt, mk_ref, mk_any
from .schema import cls_of
from .state import CheckerError


class Ty:
    def __init__(self, k, args=(), cls=None):
        self.k = k
        self.args = tuple(args)
        self.cls = cls

    def __repr__(self):
        return f"Ty({self.k},{self.args},{self.cls})"


def _split(s, sep):
    out, depth, cur = [], 0, ""
    for ch in s:
        if ch in "([":
            depth += 1
        elif ch in ")]":
            depth -= 1
        if ch == sep and depth == 0:
            out.append(cur)
            cur = ""
        else:
            cur += ch
    out.append(cur)
    return [x.strip() for x in out]


@functools.lru_cache(maxsize=None)
def parse(s):
    s = s.strip()
    alts = _split(s, "|")
    if len(alts) > 1:
        return Ty("union", [parse(a) for a in alts])
    if s.startswith("list[") and s.endswith("]"):
        return Ty("list", [parse(s[5:-1])])
    if s == "list":
        return Ty("list", [Ty("any")])
    if s.startswith("tup(") and s.endswith(")"):
        return Ty("tup", [parse(a) for a in _split(s[4:-1], ",")])
    if s.startswith("ref:"):
        return Ty("ref", cls=s[4:])
    if s.startswith("optref:"):
        return Ty("optref", cls=s[7:])
    if s in ("any", "int", "str", "bool", "flt", "none", "ref", "optref", "optstr", "optint", "opttup", "tup",
             "dict", "set", "expr"):
        return Ty(s)
    raise CheckerError(f"unknown type {s!r}")


def fact(ex, st, raw, ty):
    """z3 Bool: the boxed value `raw` has type ty."""
    k = ty.k
    if k == "any":
        return z3.BoolVal(True)
    if k == "int":
        return V.is_INT(raw)
    if k == "str":
        return V.is_STR(raw)
    if k == "bool":
        return V.is_BOOL(raw)
    if k == "flt":
        return V.is_FLT(raw)
    if k == "none":
        return V.is_NONE(raw)
    if k == "optstr":
        return z3.Or(V.is_NONE(raw), V.is_STR(raw))
    if k == "optint":
        return z3.Or(V.is_NONE(raw), V.is_INT(raw))
    if k == "tup" and not ty.args:
        return V.is_TUP(raw)
    if k == "opttup":
        return z3.Or(V.is_NONE(raw), V.is_TUP(raw))
    if k in ("ref", "optref"):
        c = V.is_REF(raw)
        if ty.cls:
            ci = ex.reg.classes[ty.cls]
            tags = [ci.tag] + [x.tag for x in ex.reg.classes.values() if ty.cls in getattr(x, "bases", ())]
            c = z3.And(c, z3.Or(*[cls_of(V.r(raw)) == t for t in tags]), V.r(raw) >= 0)
        if k == "optref":
            return z3.Or(V.is_NONE(raw), c)
        return c
    if k in ("dict", "set"):
        return z3.And(V.is_REF(raw), cls_of(V.r(raw)) == ex.reg.classes[k].tag, V.r(raw) >= 0)
    if k == "list":
        r = V.r(raw)
        base = z3.And(V.is_REF(raw), cls_of(r) == ex.reg.classes["list"].tag, r >= 0,
                      z3.Select(ex.heap_get(st, "$len"), r) >= 0)
        return base  # element types are instantiated lazily on element access (view().ety)
    if k == "tup":
        vl = V.t(raw)
        cs = [V.is_TUP(raw), vl_len_is(vl, len(ty.args))]
        for i, a in enumerate(ty.args):
            cs.append(fact(ex, st, vl_nth(vl, i), a))
        return z3.And(*cs)
    if k == "expr":
        pred = ex.reg.ufs.get("IS_EXPR")
        if pred is None:
            raise CheckerError("type `expr` needs a sidecar uf IS_EXPR")
        return pred.fn(raw)
    if k == "union":
        return z3.Or(*[fact(ex, st, raw, a) for a in ty.args])
    raise CheckerError(f"type fact {k}")


_cnt = [0]


def _n():
    _cnt[0] += 1
    return _cnt[0]


def view(ex, raw, ty):
    """SV view of a typed boxed value."""
    k = ty.k
    if k == "int":
        return mk_int(simp(V.i(raw)))
    if k == "str":
        return mk_str(simp(V.s(raw)))
    if k == "bool":
        return mk_bool(simp(V.b(raw)))
    if k == "flt":
        return mk_flt(simp(V.f(raw)))
    if k == "none":
        return NONE
    if k == "ref":
        return mk_ref(simp(V.r(raw)), ty.cls if ty.cls and not _has_subclasses(ex, ty.cls) else None)
    if k in ("list", "dict", "set"):
        r = mk_ref(simp(V.r(raw)), k)
        if k == "list" and ty.args and ty.args[0].k != "any":
            r.ety = ty.args[0]
        return r
    return mk_any(raw)


def _has_subclasses(ex, cls):
    return any(cls in getattr(x, "bases", ()) for x in ex.reg.classes.values())


def elem(ex, ctx, st, lst, raw, idx=None):
    """Typed view of a list element `raw` of list reference `lst` (assumes the element type fact)."""
    if getattr(lst, "ety", None) is None:
        return mk_any(raw)
    f = fact(ex, st, raw, lst.ety)
    if idx is not None:
        f = z3.Implies(z3.And(idx >= 0, idx < z3.Select(ex.heap_get(st, "$len"), lst.t)), f)
    if lst.eguard is not None:
        # valid for every index of this list whenever the owning object has its declared class
        ctx.assume(z3.Implies(lst.eguard, f), "field-type:list-element", glob=True)
    else:
        # typed by construction (summary formal): self-guarded by the index range when the index is known
        ctx.assume(f, "field-type:list-element", glob=(idx is not None))
    return view(ex, raw, lst.ety)
