"""Cross-check of every axiom about Python builtins that pyvc assumes, against CPython, on a small exhaustive
domain (DESIGN §2.6).  A disagreement is a checker error (exit 3), never a violation."""
import itertools
import math

ALPHABET = ["\\", '"', "a", "0", "x", "-", " ", "\n", "1", "f", "."]


def strings(maxlen):
    for n in range(maxlen + 1):
        for t in itertools.product(ALPHABET, repeat=n):
            yield "".join(t)


def ints(thorough):
    rng = range(-300, 301) if not thorough else range(-5000, 5001)
    edge = [2 ** 31 - 1, 2 ** 31, -2 ** 31, 2 ** 63, -2 ** 63 - 1, 10 ** 30, -10 ** 30, 2 ** 53 + 1]
    return list(rng) + edge


def run(thorough=False):
    """Returns (checked_count, failures list)."""
    n = 0
    bad = []
    for i in ints(thorough):
        n += 2
        if int(str(i), 10) != i:
            bad.append(("int-str-roundtrip", i))
        if int(hex(i), 16) != i:
            bad.append(("int-hex-roundtrip", i))
    floats = [0.0, -0.0, 1.0, -1.5, 1e-6, 1e22, 1e23, 5e-324, 1.7976931348623157e308, 0.1, 1 / 3, 2.5e10, 123456.789]
    if thorough:
        import random
        rnd = random.Random(1)
        floats += [rnd.uniform(-1e6, 1e6) for _ in range(20000)] + [rnd.random() * 10 ** rnd.randint(-300, 300) for _ in range(20000)]
    for x in floats:
        n += 1
        s = str(x)
        try:
            y = float(s)
            if not (math.isfinite(y) and y == x):
                bad.append(("float-str-roundtrip", x))
        except ValueError:
            bad.append(("float-str-roundtrip", x))
    # str.replace(all occurrences) vs. the sequence-theory replace_all: same on single-character needles
    L = 4 if not thorough else 5
    for s in strings(L):
        n += 1
        # the model of _escape: replace_all("\\" -> "\\\\") then replace_all('"' -> '\\"')
        e = s.replace("\\", "\\\\").replace('"', '\\"')
        # character-wise reference
        ref = "".join({"\\": "\\\\", '"': '\\"'}.get(c, c) for c in s)
        if e != ref:
            bad.append(("replace-all-single-char", s))
        # lexicographic order of str is by code point (z3 str.<)
        # int(s, base) never raises anything but ValueError on str input
        for base in (0, 10, 16):
            try:
                int(s, base)
            except ValueError:
                pass
            except Exception as ex:  # pragma: no cover
                bad.append(("int-raises-only-ValueError", (s, base, type(ex).__name__)))
        try:
            float(s)
        except ValueError:
            pass
        except Exception as ex:  # pragma: no cover
            bad.append(("float-raises-only-ValueError", (s, type(ex).__name__)))
    # parse-nonempty: the empty string is rejected by int(., base) and float(.)
    for base in (0, 2, 8, 10, 16, 36):
        n += 1
        try:
            int("", base)
            bad.append(("parse-nonempty", base))
        except ValueError:
            pass
    n += 1
    try:
        float("")
        bad.append(("parse-nonempty", "float"))
    except ValueError:
        pass
    # bool is an int: True == 1, dict key identity of 1 and True
    n += 3
    if not (True == 1 and False == 0 and {1: "a"}.get(True) == "a"):
        bad.append(("bool-is-int", None))
    if not (min(0, 2) == 0 and max(0, 2) == 2):
        bad.append(("min-max", None))
    if not ("a" < "b" and "" < "a" and "Z" < "a" and "a" < "aa"):
        bad.append(("str-order-by-code-point", None))
    return n, bad


if __name__ == "__main__":
    import sys
    cnt, bad_ = run("--thorough" in sys.argv)
    print(cnt, "axiom instances checked;", len(bad_), "disagreements")
    for b in bad_[:20]:
        print("  ", b)
    sys.exit(3 if bad_ else 0)
