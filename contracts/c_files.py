"""Contracts for the output writers (C13; the helper is shared with C12): an output is rewritten only when it
changes, and the effect trace of a save has the shape the crash argument needs.

File-system model: pyvc/effects.py (ghost, append-only trace of write effects; reads see `fs_text(path, n)` where n
is the number of effects so far)."""
from pyvc.dsl import (contract, invariant, inline, ite, is_tuple, is_none, is_int, is_str, is_instance, forall_int,
                      exists_int, uf, old, klass, field, fs_trace, fs_text, fs_readable, fs_writable, fs_islink,
                      fs_op_ok, fs_op_started, fs_exists)
from contracts.kschema import EV, BV, SV, VIS, SEL, W2C, FORCED

M = "esp_kconfiglib.core"


def same_on_disk(filename, contents, n):
    """the destination can be read and already holds exactly the text that would be written"""
    return fs_readable(filename, n) and fs_text(filename, n) == contents


# ------------------------------------------------------------------------------------------------ _contents_eq
@contract(M, "Kconfig._contents_eq", params=["self", "filename", "contents"], kind="method", cls="Kconfig",
          param_types={"filename": "str", "contents": "str"}, result="bool")
class C__contents_eq:
    def ensures_value(self, filename, contents, result):
        return result == same_on_disk(filename, contents, len(fs_trace()))


# ------------------------------------------------------------------------------------------------ _write_if_changed
@contract(M, "Kconfig._write_if_changed", params=["self", "filename", "contents"], kind="method", cls="Kconfig",
          param_types={"filename": "str", "contents": "str"}, result="bool", modifies=["$fs"], raises=["OSError"])
class C__write_if_changed:
    def ensures_unchanged_untouched(self, filename, contents, result):
        n0 = old(len(fs_trace()))
        return (not same_on_disk(filename, contents, n0)) or (result == False and len(fs_trace()) == n0)  # noqa: E712

    def ensures_changed_written(self, filename, contents, result):
        t = fs_trace()
        n0 = old(len(fs_trace()))
        return same_on_disk(filename, contents, n0) or (
            result == True and len(t) == n0 + 2  # noqa: E712
            and t[n0] == ("open_w", filename) and t[n0 + 1] == ("write", filename, contents))

    def exsures_OSError(self, filename, contents):
        # the destination could not be opened for writing: nothing was written
        n0 = old(len(fs_trace()))
        return (not same_on_disk(filename, contents, n0)) and len(fs_trace()) == n0


# ------------------------------------------------------------------------------------------------ _save_old
@contract(M, "_save_old", params=["path"], param_types={"path": "str"}, modifies=["$fs"])
class C__save_old:
    """at most one effect, and it only ever *writes* <path>.old: the file itself is renamed away (regular file,
    atomically) or copied (symlink); failures are swallowed"""

    def ensures_effects(path, result):
        t = fs_trace()
        n0 = old(len(fs_trace()))
        if len(t) == n0:
            return True
        if len(t) != n0 + 1:
            return False
        if fs_islink(path, n0):
            return t[n0] == ("copyfile", path, path + ".old") or t[n0] == ("copyfile_partial", path, path + ".old")
        return t[n0] == ("replace", path, path + ".old")


# ------------------------------------------------------------------------------------------------ write_config
CFGTEXT = uf("CFGTEXT", ["V", "V", "V"], "str", native=lambda k, header, wd: k._config_contents(header, write_deprecated=wd))
STDNAME = uf("STDNAME", [], "str", native=lambda: __import__("esp_kconfiglib.core").core.standard_config_filename())

CACHES_ALL = ["_cached_str_val", "_cached_bool_val", "_cached_vis", "_cached_assignable", "_cached_selection",
              "_write_to_conf", "_has_active_indirect_set"]


@contract(M, "Kconfig._config_contents", params=["self", "header", "write_deprecated"], kind="method", cls="Kconfig",
          result="str", trusted=True, modifies=CACHES_ALL, defaults={"write_deprecated": False},
          note="the text of the configuration (tree walk over config_string, C02/C07); here only: it is a string, "
               "computing it evaluates options (fills caches) and performs no file-system write")
class C__config_contents:
    def ensures_value(self, header, write_deprecated, result):
        return result == CFGTEXT(self, header, write_deprecated)


@contract(M, "standard_config_filename", params=[], result="str", trusted=True,
          note="reads the environment variable KCONFIG_CONFIG; no file-system write")
class C_standard_config_filename:
    def ensures_value(result):
        return result == STDNAME()


def target_name(filename):
    return ite(filename is None, STDNAME(), filename)


@contract(M, "Kconfig.write_config", params=["self", "filename", "header", "save_old", "verbose", "write_deprecated"],
          kind="method", cls="Kconfig", result="str", modifies=CACHES_ALL + ["$fs"], raises=["OSError"],
          param_types={"filename": "optstr", "save_old": "bool", "write_deprecated": "bool"},
          defaults={"filename": None, "header": None, "save_old": True, "verbose": None, "write_deprecated": False})
class C_write_config:
    def ensures_unchanged_untouched(self, filename, header, save_old, verbose, write_deprecated, result):
        # C13, first half: the destination already holds the text -> no file-system write at all
        n0 = old(len(fs_trace()))
        f = target_name(filename)
        same = same_on_disk(f, CFGTEXT(self, header, write_deprecated), n0)
        return (not same) or len(fs_trace()) == n0

    def ensures_changed_trace(self, filename, header, save_old, verbose, write_deprecated, result):
        # C13, second half (shape of the effects of a save): [backup effect on <f>.old]? . truncate f . write f text
        # -- nothing touches f before the backup effect, and the text is written by one write after the truncation
        t = fs_trace()
        n0 = old(len(fs_trace()))
        f = target_name(filename)
        text = CFGTEXT(self, header, write_deprecated)
        if same_on_disk(f, text, n0):
            return True
        k = len(t) - 2
        if k < n0 or k > n0 + 1:
            return False
        if not (t[k] == ("open_w", f) and t[k + 1] == ("write", f, text)):
            return False
        if k == n0:
            return True
        if not save_old:
            return False
        if fs_islink(f, n0):
            return t[n0] == ("copyfile", f, f + ".old") or t[n0] == ("copyfile_partial", f, f + ".old")
        return t[n0] == ("replace", f, f + ".old")

    def exsures_OSError(self, filename, header, save_old, verbose, write_deprecated):
        # the destination could not be opened for writing: no effect on it (at most the backup effect happened)
        t = fs_trace()
        n0 = old(len(fs_trace()))
        f = target_name(filename)
        if len(t) == n0:
            return True
        if len(t) != n0 + 1 or not save_old:
            return False
        if fs_islink(f, n0):
            return t[n0] == ("copyfile", f, f + ".old") or t[n0] == ("copyfile_partial", f, f + ".old")
        return t[n0] == ("replace", f, f + ".old")


# ------------------------------------------------------------------------------------------------ kconfgen
MG = "kconfgen.core"


@contract(MG, "update_if_changed", params=["source", "destination", "encoding"],
          param_types={"source": "str", "destination": "str", "encoding": "str"}, modifies=["$fs"], raises=["OSError"])
class C_update_if_changed:
    """kconfgen writes every output to a temporary file first and copies it over the destination only when the
    content differs (C13: an unchanged regeneration leaves the destination untouched)"""

    def ensures_unchanged_untouched(source, destination, encoding, result):
        n0 = old(len(fs_trace()))
        same = (fs_exists(destination, n0) and fs_readable(destination, n0) and fs_readable(source, n0)
                and fs_text(destination, n0) == fs_text(source, n0))
        return (not same) or len(fs_trace()) == n0

    def ensures_changed_written(source, destination, encoding, result):
        t = fs_trace()
        n0 = old(len(fs_trace()))
        same = fs_exists(destination, n0) and fs_text(destination, n0) == fs_text(source, n0)
        return same or (len(t) == n0 + 2 and t[n0] == ("open_w", destination)
                        and t[n0 + 1] == ("write", destination, fs_text(source, n0)))

    def exsures_OSError(source, destination, encoding):
        return len(fs_trace()) == old(len(fs_trace()))
