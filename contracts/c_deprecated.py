"""Contracts for the deprecated-alias renderer (C07, C11): an alias carries its replacement's value, inverted exactly
when the alias's own rename line is marked with `!` (membership of the alias in `inversions`) and the option is a
bool -- independent of any other alias of the same option."""
from pyvc.dsl import (contract, invariant, inline, ite, is_tuple, is_none, is_int, is_str, is_instance, forall_int,
                      exists_int, uf, old, klass, field, same_value)
from contracts.kschema import EV, BV, SV, VIS, SEL, W2C, FORCED
from contracts.c_render import ESC, CACHES, hex_prefixed
from esp_kconfiglib.core import BOOL, STRING, INT, HEX, FLOAT, UNKNOWN

MDP = "esp_kconfiglib.deprecated"

klass("DeprecatedOptions", 30, MDP, fields={
    "config_prefix": field("str", "imm"),
    "inversions": field("list", "imm"),
    "r_dic": field("dict", "imm"),
}, props=[], methods=["_deprecated_config_string", "is_inversion", "get_new_option"])


def inverted(d, dep_name):
    return dep_name in d.inversions


def ALIAS_LINE(d, s, dep_name):
    """sdkconfig entry of one alias: the line the option itself gets (C02 / C07 format), under the alias's name, with
    y and n swapped iff the alias is an inverted one and the option is a bool"""
    pn = d.config_prefix + dep_name
    if s.orig_type == BOOL:
        v = SV(s)
        if inverted(d, dep_name):
            v = ite(SV(s) == "y", "n", "y")
        if v == "n":
            return "# " + pn + " is not set\n"
        return pn + "=" + v + "\n"
    if s.orig_type == STRING:
        return pn + '="' + ESC(SV(s)) + '"\n'
    if s.orig_type == HEX and SV(s) != "" and not hex_prefixed(SV(s)):
        return pn + "=0x" + SV(s) + "\n"
    return pn + "=" + SV(s) + "\n"


@contract(MDP, "DeprecatedOptions._deprecated_config_string", params=["self", "sym", "dep_name"], kind="method",
          cls="DeprecatedOptions", param_types={"sym": "ref:Symbol", "dep_name": "str"}, result="str", modifies=CACHES)
class C__deprecated_config_string:
    def ensures_value(self, sym, dep_name, result):
        return result == ALIAS_LINE(self, sym, dep_name)


# ------------------------------------------------------------------------------------------------ rename-table lookups (C11)
@contract(MDP, "DeprecatedOptions.is_inversion", params=["self", "deprecated_option"], kind="method",
          cls="DeprecatedOptions", param_types={"deprecated_option": "str"}, result="bool")
class C_is_inversion:
    def ensures_value(self, deprecated_option, result):
        return result == inverted(self, deprecated_option)


@contract(MDP, "DeprecatedOptions.get_new_option", params=["self", "deprecated_option"], kind="method",
          cls="DeprecatedOptions", param_types={"deprecated_option": "str"})
class C_get_new_option:
    def ensures_value(self, deprecated_option, result):
        # the replacement recorded for the old name (the last mapping wins while the table is built), None if unknown
        if deprecated_option in self.r_dic:
            return same_value(result, self.r_dic[deprecated_option])
        return result is None
