"""Class schema of esp_kconfiglib.core and the shared spec vocabulary (DESIGN §4): uninterpreted epoch functions
EV / BV / SV / VIS / SEL / W2C / FORCED for one finalised tree and one user state."""
from pyvc.dsl import uf, klass, field, assumption, inline
import esp_kconfiglib.core as K

# ---- epoch functions; `native` = the real library (used by replay / bounded runs as the oracle's primitives) ----
EV = uf("EV", ["V"], "int", native=lambda e: K.expr_value(e))
BV = uf("BV", ["V"], "int", native=lambda s: s.bool_value)
SV = uf("SV", ["V"], "str", native=lambda s: s.str_value)
VIS = uf("VIS", ["V"], "int", native=lambda s: s.visibility)
SEL = uf("SEL", ["V"], "V", native=lambda c: c.selection)
W2C = uf("W2C", ["V"], "bool", native=lambda s: (s.str_value, s._write_to_conf)[1])
FORCED = uf("FORCED", ["V"], "bool", native=lambda s: (s.str_value, s._has_active_indirect_set)[1])
IS_EXPR = uf("IS_EXPR", ["V"], "bool", native=lambda e: True)

EXPR = "expr"
SYM = "ref:Symbol"

# ---- invariant-carrying cache fields: value is absent or equals the epoch function at that object ------------
klass("Symbol", 1, "esp_kconfiglib.core", fields={
    "orig_type": field("int", "imm", inv="inv_orig_type"),
    "name": field("str", "imm"),
    "nodes": field("list[ref:MenuNode]", "imm"),
    "defaults": field("list[tup(expr,expr)]", "mut", inv="inv_defaults"),
    "ranges": field("list[tup(ref:Symbol,ref:Symbol,expr)]", "imm"),
    "rev_dep": field("expr", "imm"),
    "weak_rev_dep": field("expr", "imm"),
    "direct_dep": field("expr", "imm"),
    "rev_values": field("list[tup(ref:Symbol,expr,ref:Symbol)]", "imm", inv="inv_rev_values"),
    "weak_rev_values": field("list[tup(ref:Symbol,expr,ref:Symbol)]", "imm", inv="inv_weak_rev_values"),
    "choice": field("optref:Choice", "imm"),
    "kconfig": field("ref:Kconfig", "imm"),
    "env_var": field("optstr", "imm"),
    "is_constant": field("bool", "imm"),
    "_user_value": field("any", "inv", inv="inv_user_value"),
    "_cached_str_val": field("optstr", "inv", inv="inv_cached_str_val"),
    "_cached_bool_val": field("optint", "inv", inv="inv_cached_bool_val"),
    "_cached_vis": field("optint", "inv", inv="inv_cached_vis"),
    "_cached_assignable": field("any", "inv"),
    "_write_to_conf": field("bool", "inv", inv="inv_write_to_conf"),
    "_has_active_indirect_set": field("bool", "inv", inv="inv_has_active_indirect_set"),
    "_sdkconfig_value": field("any", "mut"),
    "_loaded_as_default": field("any", "mut"),
    "_was_set": field("any", "mut"),
    "_user_source": field("any", "mut"),
    "_invalidating": field("bool", "inv", inv="inv_invalidating"),
    "_dependents": field("set", "imm"),
}, props=["str_value", "bool_value", "visibility", "assignable", "config_string", "name_and_loc", "type"],
   methods=["set_value", "unset_value", "has_active_default_value", "value_is_valid", "_assignable", "_invalidate",
            "_rec_invalidate", "_rec_invalidate_if_has_prompt", "_str_default", "_warn_select_unsatisfied_deps"])

klass("Choice", 2, "esp_kconfiglib.core", fields={
    "orig_type": field("int", "imm", inv="inv_orig_type"),
    "name": field("optstr", "imm"),
    "nodes": field("list[ref:MenuNode]", "imm"),
    "defaults": field("list[tup(ref:Symbol,expr)]", "mut", inv="inv_defaults"),
    "syms": field("list[ref:Symbol]", "imm"),
    "direct_dep": field("expr", "imm"),
    "kconfig": field("ref:Kconfig", "imm"),
    "is_constant": field("bool", "imm"),
    "_user_value": field("any", "inv", inv="inv_user_value"),
    "_user_selection": field("optref:Symbol", "mut"),
    "_cached_vis": field("optint", "inv", inv="inv_cached_vis"),
    "_cached_assignable": field("any", "inv"),
    "_cached_selection": field("any", "inv", inv="inv_cached_selection"),
    "_was_set": field("any", "mut"),
    "_invalidating": field("bool", "inv", inv="inv_invalidating"),
    "_dependents": field("set", "imm"),
}, props=["str_value", "bool_value", "visibility", "assignable", "selection", "name_and_loc", "type"],
   methods=["set_value", "unset_value", "_assignable", "_selection", "_selection_from_defaults", "_invalidate",
            "_rec_invalidate"])

klass("MenuNode", 3, "esp_kconfiglib.core", fields={
    "prompt": field("none|tup(str,expr)", "imm"),
    "item": field("any", "imm"),
    "parent": field("optref:MenuNode", "imm"),
    "next": field("optref:MenuNode", "imm"),
    "list": field("optref:MenuNode", "imm"),
    "dep": field("expr", "imm"),
    "visibility": field("expr", "imm"),
    "is_menuconfig": field("bool", "imm"),
    "filename": field("str", "imm"),
    "linenr": field("int", "imm"),
    "help": field("optstr", "imm"),
}, props=["id"], methods=[])

klass("Kconfig", 4, "esp_kconfiglib.core", fields={
    "defconfig_list": field("optref:Symbol", "imm"),
    "config_prefix": field("str", "imm"),
    "comment_default_value": field("str", "imm"),
    "_warn_assign_no_prompt": field("bool", "imm"),
    "n": field("ref:Symbol", "imm"),
    "y": field("ref:Symbol", "imm"),
    "missing_syms": field("list", "mut"),
    "unique_defined_syms": field("list[ref:Symbol]", "imm"),
    "_encoding": field("str", "imm"),
}, props=[], methods=["_contents_eq", "_write_if_changed", "_config_contents", "write_config", "_header_string"])

assumption("WF:field-types",
           "declared field types of Symbol/Choice/MenuNode/Kconfig hold in every reachable tree (shape of property "
           "lists and expression tuples as built by _finalize_node/_add_props_to_sym)")
assumption("ACYCLIC",
           "evaluating a sub-expression of X's properties never evaluates X (property C09); hence callees do not "
           "write X._write_to_conf / X._has_active_indirect_set while X is being evaluated")
assumption("L1:epoch",
           "the defining equations EV/BV/SV/VIS/SEL = DEF_* have a unique solution on an acyclic tree (paper lemma)")
