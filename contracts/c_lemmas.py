"""Lemmas over the spec functions (no code): the value the precedence rule prescribes for a numeric option is well
formed for the option's type and lies inside the active range (C06).  Together with the proved postcondition
`Symbol.str_value == SV(self) == DEF_SV(self)` this is the statement's first sentence for int and hex."""
from pyvc.dsl import (lemma, ite, is_none, is_int, is_str, is_instance, forall_int, exists_int, parses_int, int_val,
                      parses_float, float_val, str_of_int, hex_of_int)
from contracts.kschema import EV, BV, SV, VIS, SEL, W2C, FORCED
from contracts.c_eval import (DEF_SV_num, DEF_SV_float, sources_defined, R_ON, range_lo, range_hi, num_base, num0, raw_num,
                              frange_lo, frange_hi, float0)
from esp_kconfiglib.core import BOOL, STRING, INT, HEX, FLOAT, UNKNOWN


@lemma("sv_num_wellformed", params=["s"], param_types={"s": "ref:Symbol"})
class L_sv_num_wellformed:
    def requires(s):
        # WF: literal ranges are ordered (language.rst: range <low> <high>); definitions of the source functions
        return ((s.orig_type == INT or s.orig_type == HEX) and sources_defined(s)
                and (not R_ON(s) or range_lo(s) <= range_hi(s)))

    def claim_wellformed(s):
        v = DEF_SV_num(s)
        return v == "" or parses_int(v, num_base(s))

    def claim_in_range(s):
        v = DEF_SV_num(s)
        return (not R_ON(s)) or (range_lo(s) <= num0(v, num_base(s)) and num0(v, num_base(s)) <= range_hi(s))


@lemma("sv_float_wellformed", params=["s"], param_types={"s": "ref:Symbol"})
class L_sv_float_wellformed:
    def requires(s):
        return s.orig_type == FLOAT and sources_defined(s) and (not R_ON(s) or frange_lo(s) <= frange_hi(s))

    def claim_wellformed(s):
        v = DEF_SV_float(s)
        return v == "" or parses_float(v)

    def claim_in_range(s):
        v = DEF_SV_float(s)
        return (not R_ON(s)) or (frange_lo(s) <= float0(v) and float0(v) <= frange_hi(s))


@lemma("canary_sv_num_always_empty", params=["s"], param_types={"s": "ref:Symbol"},
       note="canary: a false claim that must FAIL (guards against an engine that proves everything)")
class L_canary:
    def requires(s):
        return (s.orig_type == INT or s.orig_type == HEX) and sources_defined(s)

    def claim_false(s):
        return DEF_SV_num(s) == ""
