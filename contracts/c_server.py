"""Contracts for the config server (C14): the difference sent to the client."""
from pyvc.dsl import (contract, invariant, inline, ite, is_tuple, is_none, is_int, is_str, is_instance, forall_int,
                      exists_int, uf, old, klass, field)

MS = "kconfserver.core"


@contract(MS, "diff", params=["before", "after"], param_types={"before": "dict", "after": "dict"}, result="dict")
class C_diff:
    """the reply carries exactly the entries of `after` that are new or differ from `before` (statement C14: a client
    that overlays every reply on its copy holds `after` on the keys of `after`)"""

    def ensures_present(before, after, result):
        return all((k in result) == (k not in before or before[k] != after[k]) for k in after)

    def ensures_values(before, after, result):
        return all(k in after and result[k] == after[k] for k in result)
