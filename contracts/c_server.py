"""Contracts for the config server (C14, C15)."""
from pyvc.dsl import contract, ite, is_none, is_int, is_str

MS = "kconfserver.core"


@contract(MS, "diff", params=["before", "after"], param_types={"before": "dict", "after": "dict"}, result="dict")
class C_diff:
    """C14: a reply carries exactly the entries of the new state that a client holding the old state lacks or
    holds with another value -- so old-state + diff restricted to the new keys IS the new state."""

    def ensures_present(before, after, result):
        return all((k in result) == (k not in before or before[k] != after[k]) for k in after)

    def ensures_subset(before, after, result):
        return all(k in after and result[k] == after[k] for k in result)
