"""Contracts for the per-option renderers (C02, C06, C07): one spec entry per output format, written from the
property statements (what a format shows for one option as a function of: written?, type, value, marker).

The renderers call the evaluators by contract (contracts.c_eval); nothing here looks inside str_value."""
from pyvc.dsl import (contract, invariant, inline, ite, is_tuple, is_none, is_int, is_str, is_instance, forall_int,
                      exists_int, parses_int, int_val, parses_float, float_val, uf, str_of_int, hex_of_int)
from contracts.kschema import EV, BV, SV, VIS, SEL, W2C, FORCED
from esp_kconfiglib.core import BOOL, STRING, INT, HEX, FLOAT, UNKNOWN

M = "esp_kconfiglib.core"

ESC = uf("ESC", ["str"], "str", native=lambda s: s.replace("\\", "\\\\").replace('"', '\\"'))


# ------------------------------------------------------------------------------------------------ marker (defaults.rst)
def all_promptless(s):
    for node in s.nodes:
        if node.prompt is not None:
            return False
    return True


def forced_now(s):
    return s.orig_type != BOOL and s.orig_type != UNKNOWN and FORCED(s)


def DEFAULT_MARK(s):
    """defaults.rst: a written value is marked `# default:` when it does not come from the user: the option has no
    prompt at all; or it is a member of a choice in which the user has picked nothing (a choice is set by the user as
    a whole, by picking one member: until then every member's value is inferred, whatever was assigned to the member
    itself -- otherwise save / load / save is no fix-point, C02); or it is not a choice member, has no user value (or
    the user value is overridden by an enabled `set`) and its type is known"""
    if all_promptless(s):
        return True
    if s.orig_type == UNKNOWN:
        return False
    if s.choice is not None:
        return s.choice._user_selection is None
    return s._user_value is None or forced_now(s)


# named spec functions (definitions: MARK(s) = DEFAULT_MARK(s), CFGLINE(s) = LINE_CFG(s) for every option s; the
# defining equation is unfolded where a proof needs it, callers of the renderers see only the names)
MARK = uf("MARK", ["V"], "bool", native=lambda s: bool(s.has_active_default_value()))
CFGLINE = uf("CFGLINE", ["V"], "str", native=lambda s: s.config_string)


def side_results_valid(s):
    """the flags computed together with the value are current: the value has been evaluated since the last change"""
    return s.orig_type == BOOL or s.orig_type == UNKNOWN or s._cached_str_val is not None


@contract(M, "Symbol.has_active_default_value", params=["self"], kind="method", cls="Symbol")
class C_has_active_default_value:
    def requires(self):
        return side_results_valid(self)

    def assume_entry(self):
        return MARK(self) == DEFAULT_MARK(self)

    def ensures_value(self, result):
        # the function returns a truth value in Python's sense (the last operand evaluated)
        return ite(result, True, False) == MARK(self)


# ------------------------------------------------------------------------------------------------ sdkconfig line
@contract(M, "_escape", params=["s"], param_types={"s": "str"}, result="str")
class C__escape:
    def assume_entry(s):
        # definition of the quoting map: every backslash is doubled, then every double quote gets a backslash
        return ESC(s) == s.replace("\\", "\\\\").replace('"', '\\"')

    def ensures_value(s, result):
        return result == ESC(s)


def written(s):
    return s.orig_type != UNKNOWN and W2C(s)


def LINE_CFG(s):
    """one sdkconfig entry: nothing for an option that is not written; otherwise an optional marker line followed by
    `# P_NAME is not set` (bool n), `P_NAME=v` (bool y, numbers, verbatim value) or `P_NAME="escaped"` (string)"""
    if not written(s):
        return ""
    mark = ite(MARK(s), s.kconfig.comment_default_value + "\n", "")
    pn = s.kconfig.config_prefix + s.name
    if s.orig_type == BOOL:
        if SV(s) != "n":
            return mark + pn + "=" + SV(s) + "\n"
        return mark + "# " + pn + " is not set\n"
    if s.orig_type == STRING:
        return mark + pn + '="' + ESC(SV(s)) + '"\n'
    return mark + pn + "=" + SV(s) + "\n"


CACHES = ["_cached_str_val@others", "_cached_bool_val@others", "_cached_vis@others", "_cached_assignable@others",
          "_cached_selection@others", "_write_to_conf@others", "_has_active_indirect_set@others"]


@contract(M, "Symbol.config_string", params=["self"], kind="property", cls="Symbol", result="str", modifies=CACHES)
class C_config_string:
    def assume_entry(self):
        return CFGLINE(self) == LINE_CFG(self)

    def ensures_value(self, result):
        return result == CFGLINE(self)

    def ensures_evaluated(self, result):
        return side_results_valid(self)


# ------------------------------------------------------------------------------------------------ C header line
def hex_prefixed(v):
    return v.startswith("0x") or v.startswith("0X")


def LINE_HDR(k, s):
    """one C header entry: nothing for an option that is not written or a bool at n; `#define P_NAME 1` for y,
    the quoted escaped text for a string, the value for numbers (hex shown with a 0x prefix; an option without any
    value keeps its empty value in every format, C06 / C07)"""
    if not written(s):
        return ""
    pn = k.config_prefix + s.name
    if s.orig_type == BOOL:
        if SV(s) == "y":
            return "#define " + pn + " 1\n"
        return ""
    if s.orig_type == STRING:
        return "#define " + pn + ' "' + ESC(SV(s)) + '"\n'
    if s.orig_type == HEX and SV(s) != "" and not hex_prefixed(SV(s)):
        return "#define " + pn + " 0x" + SV(s) + "\n"
    return "#define " + pn + " " + SV(s) + "\n"


@contract(M, "Kconfig._header_string", params=["self", "sym"], kind="method", cls="Kconfig",
          param_types={"sym": "ref:Symbol"}, result="str", modifies=CACHES)
class C__header_string:
    def ensures_value(self, sym, result):
        return result == LINE_HDR(self, sym)
