"""Contracts for the evaluators (C01, C05, C06): expr_value, _visibility, Symbol/Choice value properties.

Spec functions DEF_* are written from the property statements and docs/en/kconfiglib/language.rst /
defaults.rst, not from the code.  `assume_entry` clauses are instances of the epoch's defining equations
(X(self) = DEF_X(self)); everything else is proved about the real function bodies."""
from pyvc.dsl import (contract, invariant, inline, ite, is_tuple, is_none, is_int, is_str, is_instance, forall_int,
                      exists_int, tuple_len_is, parses_int, int_val, parses_float, float_val, to_real, uf, str_of_int, hex_of_int, str_of_float)
from contracts.kschema import EV, BV, SV, VIS, SEL, W2C, FORCED, IS_EXPR
from esp_kconfiglib.core import (AND, OR, NOT, EQUAL, UNEQUAL, LESS, LESS_EQUAL, GREATER, GREATER_EQUAL,
                                 BOOL, STRING, INT, HEX, FLOAT, UNKNOWN)

M = "esp_kconfiglib.core"

inline(M, "_strcmp", "_sym_to_num", "_is_base_n", "is_float", "_normalize_float")


# ------------------------------------------------------------------------------------------------ invariants
@invariant("_cached_str_val")
def inv_cached_str_val(obj, v):
    """a cached value is the epoch's value, and the two side results were left as the epoch defines them"""
    return v is None or not is_instance(obj, "Symbol") or (v == SV(obj)
                         and (obj.orig_type == UNKNOWN or obj._write_to_conf == W2C(obj))
                         and (obj.orig_type == UNKNOWN or obj.orig_type == BOOL
                              or obj._has_active_indirect_set == FORCED(obj)))


@invariant("_cached_bool_val")
def inv_cached_bool_val(obj, v):
    return v is None or not is_instance(obj, "Symbol") or (v == BV(obj) and (v == 0 or v == 2)
                         and (obj.orig_type != BOOL or obj._write_to_conf == W2C(obj)))


@invariant("_cached_vis")
def inv_cached_vis(obj, v):
    return v is None or (v == VIS(obj) and (v == 0 or v == 2))


@invariant("_cached_selection")
def inv_cached_selection(obj, v):
    # _NO_CACHED_SELECTION is the int 0; otherwise the cached selection is the epoch's selection
    return (is_int(v) and v == 0) or (v is SEL(obj) and (v is None or is_instance(v, "Symbol")))


@invariant("_has_active_indirect_set")
def inv_has_active_indirect_set(obj, v):
    """`set` only targets non-bool options (language.rst): a bool or untyped option is never forced"""
    return not is_instance(obj, "Symbol") or (obj.orig_type != BOOL and obj.orig_type != UNKNOWN) or v == False  # noqa: E712


@invariant("_write_to_conf")
def inv_write_to_conf(obj, v):
    """an option without a type has no value of its own and is never written"""
    return not is_instance(obj, "Symbol") or obj.orig_type != UNKNOWN or v == False  # noqa: E712


# ------------------------------------------------------------------------------------------------ shapes
def is_item(x):
    return is_instance(x, "Symbol") or is_instance(x, "Choice")


def expr_unfold(e):
    """Definition of IS_EXPR, one level (language.rst, section Expressions)."""
    if not is_tuple(e):
        return is_item(e)
    if tuple_len_is(e, 2):
        return e[0] == NOT and IS_EXPR(e[1])
    if not tuple_len_is(e, 3):
        return False
    if e[0] == AND or e[0] == OR:
        return IS_EXPR(e[1]) and IS_EXPR(e[2])
    return (e[0] == EQUAL or e[0] == UNEQUAL or e[0] == LESS or e[0] == LESS_EQUAL or e[0] == GREATER
            or e[0] == GREATER_EQUAL) and is_item(e[1]) and is_item(e[2])


def bool_range(v):
    return v == 0 or v == 2


# ------------------------------------------------------------------------------------------------ expr_value
def DEF_EV(expr):
    """n/y algebra of language.rst: && is min, || is max, ! is 2 - x, a bare symbol is its bool value."""
    if not is_tuple(expr):
        return BV(expr)
    if expr[0] == AND:
        return min(EV(expr[1]), EV(expr[2]))
    if expr[0] == OR:
        return max(EV(expr[1]), EV(expr[2]))
    if expr[0] == NOT:
        return 2 - EV(expr[1])
    return DEF_REL(expr)


@contract(M, "expr_value", params=["expr"], param_types={"expr": "expr"}, result="int",
          modifies=["_cached_str_val", "_cached_bool_val", "_cached_vis", "_cached_assignable", "_cached_selection",
                    "_write_to_conf@others", "_has_active_indirect_set@others"])
class C_expr_value:
    def assume_entry(expr):
        return (expr_unfold(expr) and EV(expr) == DEF_EV(expr)
                and (not is_tuple(expr) or bool_range(EV(expr))))

    def ensures_value(expr, result):
        return result == EV(expr)

    def ensures_range(expr, result):
        return result == 0 or result == 2


# ------------------------------------------------------------------------------------------------ relations
def base_of(t):
    return ite(t == HEX, 16, ite(t == INT, 10, 0))


def NUMOK(s):
    """the operand converts to a number: bool, or its string value parses as int (in the type's base) or float"""
    return s.orig_type == BOOL or parses_int(SV(s), base_of(s.orig_type)) or parses_float(SV(s))


def NUMR(s):
    if s.orig_type == BOOL:
        return to_real(BV(s))
    if parses_int(SV(s), base_of(s.orig_type)):
        return to_real(int_val(SV(s), base_of(s.orig_type)))
    return float_val(SV(s))


def rel_num(rel, d):
    return ite(rel == EQUAL, d == 0, ite(rel == UNEQUAL, d != 0, ite(rel == LESS, d < 0,
           ite(rel == LESS_EQUAL, d <= 0, ite(rel == GREATER, d > 0, d >= 0)))))


def rel_str(rel, a, b):
    return ite(rel == EQUAL, a == b, ite(rel == UNEQUAL, a != b, ite(rel == LESS, a < b,
           ite(rel == LESS_EQUAL, a <= b, ite(rel == GREATER, a > b, a >= b)))))


def DEF_REL(e):
    """symbol REL symbol: two string-typed operands compare as text; otherwise as numbers when both convert,
    else as text (kconfig-language semantics)."""
    a = e[1]
    b = e[2]
    if a.orig_type == STRING and b.orig_type == STRING:
        return ite(rel_str(e[0], SV(a), SV(b)), 2, 0)
    if NUMOK(a) and NUMOK(b):
        return ite(rel_num(e[0], NUMR(a) - NUMR(b)), 2, 0)
    return ite(rel_str(e[0], SV(a), SV(b)), 2, 0)


CACHES = ["_cached_str_val@others", "_cached_bool_val@others", "_cached_vis@others", "_cached_assignable@others",
          "_cached_selection@others", "_write_to_conf@others", "_has_active_indirect_set@others"]


# ------------------------------------------------------------------------------------------------ visibility
def has_prompt(node):
    return node.prompt is not None


def DEF_VIS_prefix(sc, k):
    """max over the first k definition nodes that carry a prompt of the value of the prompt's condition"""
    return VISP(sc, k)


VISP = uf("VISP", ["V", "int"], "int", native=None)


def visp_step(sc, j):
    """defining equations of the prefix maximum VISP (a recursive spec function, unfolded at index j)"""
    return (VISP(sc, 0) == 0
            and VISP(sc, j + 1) == ite(sc.nodes[j].prompt is not None,
                                       max(VISP(sc, j), EV(sc.nodes[j].prompt[1])), VISP(sc, j)))


@contract(M, "_visibility", params=["sc"], param_types={"sc": "ref:Symbol|ref:Choice"}, result="int", modifies=CACHES)
class C__visibility:
    def assume_entry(sc):
        return (VIS(sc) == VISP(sc, len(sc.nodes)) and VISP(sc, 0) == 0
                and forall_int(0, len(sc.nodes), lambda j: visp_step(sc, j)))

    def loop_inv_0(sc, vis, j):
        return vis == VISP(sc, j) and (vis == 0 or vis == 2)

    def ensures_value(sc, result):
        return result == VIS(sc)

    def ensures_range(sc, result):
        return result == 0 or result == 2


@contract(M, "Symbol.visibility", params=["self"], kind="property", cls="Symbol", result="int", modifies=CACHES)
class C_Symbol_visibility:
    def ensures_value(self, result):
        return result == VIS(self)

    def ensures_range(self, result):
        return result == 0 or result == 2


@contract(M, "Choice.visibility", params=["self"], kind="property", cls="Choice", result="int", modifies=CACHES)
class C_Choice_visibility:
    def ensures_value(self, result):
        return result == VIS(self)

    def ensures_range(self, result):
        return result == 0 or result == 2


# ------------------------------------------------------------------------------------------------ user values
@invariant("orig_type")
def inv_orig_type(obj, t):
    return t == BOOL or t == STRING or t == INT or t == HEX or t == FLOAT or t == UNKNOWN


@invariant("_user_value")
def inv_user_value(obj, uv):
    """USERVAL: every stored user value is absent or well-formed for the option's type (established by
    set_value, which is proved to store nothing else; the other writers store None)."""
    if uv is None:
        return True
    if is_instance(obj, "Choice"):
        return is_int(uv) and (uv == 0 or uv == 2)
    if not is_instance(obj, "Symbol"):
        return True
    if obj.orig_type == BOOL:
        return is_int(uv) and (uv == 0 or uv == 2)
    if obj.orig_type == STRING:
        return is_str(uv)
    if obj.orig_type == INT:
        return is_str(uv) and parses_int(uv, 10)
    if obj.orig_type == HEX:
        return is_str(uv) and parses_int(uv, 16) and int_val(uv, 16) >= 0
    if obj.orig_type == FLOAT:
        # stored in canonical float notation ("2" is kept as "2.0"): what a save writes is what a load reads back
        return is_str(uv) and parses_float(uv) and uv == str_of_float(float_val(uv))
    return False


# ------------------------------------------------------------------------------------------------ bool symbols (C01)
def first_default_value(s):
    """the first `default` whose condition holds gives min(value, condition); none -> n"""
    for d, c in s.defaults:
        if EV(c) != 0:
            return min(EV(d), EV(c))
    return 0


def implied(s):
    """an enabled `imply` counts when the option's own dependencies hold"""
    if EV(s.weak_rev_dep) != 0 and EV(s.direct_dep) != 0:
        return EV(s.weak_rev_dep)
    return 0


def user_effective(s):
    """a user value has an effect only while the prompt is visible"""
    return VIS(s) != 0 and s._user_value is not None


def DEF_BV_sym(s):
    if s.orig_type != BOOL:
        return 0
    if s.choice is not None:
        # C05: a choice member is y exactly when it is visible (y-mode choice) and is the choice's selection
        return ite(VIS(s) == 2 and SEL(s.choice) is s, 2, 0)
    if user_effective(s):
        return max(EV(s.rev_dep), min(s._user_value, VIS(s)))
    return max(EV(s.rev_dep), max(first_default_value(s), implied(s)))


def DEF_W2C_bool(s):
    """written to the configuration: visible, or given a non-n value by a default / imply / select"""
    if s.choice is not None:
        return VIS(s) != 0
    if EV(s.rev_dep) != 0:
        return True
    if user_effective(s):
        return VIS(s) != 0
    return VIS(s) != 0 or first_default_value(s) != 0 or implied(s) != 0


@contract(M, "Symbol.bool_value", params=["self"], kind="property", cls="Symbol", result="int", modifies=CACHES)
class C_Symbol_bool_value:
    def assume_entry(self):
        return (BV(self) == DEF_BV_sym(self) and (self.orig_type != BOOL or W2C(self) == DEF_W2C_bool(self)))

    def ensures_value(self, result):
        return result == BV(self)

    def ensures_range(self, result):
        return result == 0 or result == 2

    def ensures_w2c(self, result):
        return self.orig_type != BOOL or self._write_to_conf == W2C(self)


@contract(M, "Choice.bool_value", params=["self"], kind="property", cls="Choice", result="int", modifies=CACHES)
class C_Choice_bool_value:
    def assume_entry(self):
        # C05: a choice is never in n mode of its own; its mode is bounded by its visibility only
        return BV(self) == min(2, VIS(self))

    def ensures_value(self, result):
        return result == BV(self)

    def ensures_range(self, result):
        return result == 0 or result == 2


@contract(M, "Symbol.str_value", params=["self"], kind="property", cls="Symbol", result="str", modifies=CACHES)
class C_Symbol_str_value:
    # the proof is split by the option's type and, for numbers, by which source provides the value (the union of
    # the cases is exhaustive: obligation Symbol.str_value#cases-exhaustive)
    def case_bool_unknown(self):
        return self.orig_type == BOOL or self.orig_type == UNKNOWN

    def case_string(self):
        return self.orig_type == STRING

    def case_int_forced(self):
        return self.orig_type == INT and F_ON(self)

    def case_int_user(self):
        return self.orig_type == INT and not F_ON(self) and user_ok_num(self)

    def case_int_dflt_range(self):
        return self.orig_type == INT and not F_ON(self) and not user_ok_num(self) and R_ON(self)

    def case_int_dflt_norange(self):
        return self.orig_type == INT and not F_ON(self) and not user_ok_num(self) and not R_ON(self)

    def case_hex_forced(self):
        return self.orig_type == HEX and F_ON(self)

    def case_hex_user(self):
        return self.orig_type == HEX and not F_ON(self) and user_ok_num(self)

    def case_hex_dflt_range(self):
        return self.orig_type == HEX and not F_ON(self) and not user_ok_num(self) and R_ON(self)

    def case_hex_dflt_norange(self):
        return self.orig_type == HEX and not F_ON(self) and not user_ok_num(self) and not R_ON(self)

    def case_float_forced(self):
        return self.orig_type == FLOAT and F_ON(self)

    def case_float_user(self):
        return self.orig_type == FLOAT and not F_ON(self) and user_ok_flt(self)

    def case_float_dflt_range(self):
        return self.orig_type == FLOAT and not F_ON(self) and not user_ok_flt(self) and R_ON(self)

    def case_float_dflt_norange(self):
        return self.orig_type == FLOAT and not F_ON(self) and not user_ok_flt(self) and not R_ON(self)

    def assume_entry(self):
        t = self.orig_type
        return ((t == BOOL or t == UNKNOWN or sources_defined(self))
                and SV(self) == DEF_SV(self)
                and (t == BOOL or t == UNKNOWN or W2C(self) == DEF_W2C(self))
                and (t == BOOL or t == UNKNOWN or FORCED(self) == F_ON(self)))

    def ensures_value(self, result):
        return result == SV(self)

    def ensures_w2c(self, result):
        return self.orig_type == UNKNOWN or self._write_to_conf == W2C(self)

    def ensures_forced(self, result):
        return (self.orig_type == UNKNOWN or self.orig_type == BOOL
                or self._has_active_indirect_set == FORCED(self))

    def ensures_cached(self, result):
        return self._cached_str_val == result


@contract(M, "Choice.str_value", params=["self"], kind="property", cls="Choice", result="str", modifies=CACHES)
class C_Choice_str_value:
    def assume_entry(self):
        return SV(self) == ite(BV(self) == 2, "y", "n")

    def ensures_value(self, result):
        return result == SV(self)


# ------------------------------------------------------------------------------------------------ choices (C05)
def first_visible_default(c):
    """first `default` of the choice whose condition holds and whose member is visible"""
    for sym, cond in c.defaults:
        if EV(cond) != 0 and VIS(sym) != 0:
            return sym
    return None


def first_visible_member(c):
    for sym in c.syms:
        if VIS(sym) != 0:
            return sym
    return None


def DEF_SEL_FROM_DEFAULTS(c):
    d = first_visible_default(c)
    if d is not None:
        return d
    return first_visible_member(c)


def DEF_SEL(c):
    """C05: no selection unless the choice is in y mode; the user's pick if that member is visible, otherwise the
    first default whose condition holds and whose member is visible, otherwise the first visible member"""
    if BV(c) != 2:
        return None
    if c._user_selection is not None and VIS(c._user_selection) != 0:
        return c._user_selection
    return DEF_SEL_FROM_DEFAULTS(c)


@contract(M, "Choice._selection_from_defaults", params=["self"], kind="method", cls="Choice", modifies=CACHES)
class C_Choice__selection_from_defaults:
    def ensures_value(self, result):
        return result is DEF_SEL_FROM_DEFAULTS(self)

    def ensures_member(self, result):
        return result is None or is_instance(result, "Symbol")


@contract(M, "Choice._selection", params=["self"], kind="method", cls="Choice", modifies=CACHES)
class C_Choice__selection:
    def assume_entry(self):
        return SEL(self) is DEF_SEL(self)

    def ensures_value(self, result):
        return result is SEL(self)

    def ensures_member(self, result):
        return result is None or is_instance(result, "Symbol")


@contract(M, "Choice.selection", params=["self"], kind="property", cls="Choice", modifies=CACHES)
class C_Choice_selection:
    def ensures_value(self, result):
        return result is SEL(self)

    def ensures_member(self, result):
        return result is None or is_instance(result, "Symbol")


# ------------------------------------------------------------------------------------------------ trusted helpers
@contract(M, "Symbol.name_and_loc", params=["self"], kind="property", cls="Symbol", result="str", trusted=True,
          note="diagnostic text only (name + definition locations); reads immutable tree fields")
class C_Symbol_name_and_loc:
    pass


@contract(M, "Choice.name_and_loc", params=["self"], kind="property", cls="Choice", result="str", trusted=True,
          note="diagnostic text only")
class C_Choice_name_and_loc:
    pass


@contract(M, "Symbol._warn_select_unsatisfied_deps", params=["self"], kind="method", cls="Symbol", trusted=True,
          modifies=CACHES, note="prints a warning; evaluates expressions (cache effects only)")
class C_Symbol__warn_select:
    pass


@contract(M, "Symbol.type", params=["self"], kind="property", cls="Symbol", result="int")
class C_Symbol_type:
    def ensures_value(self, result):
        return result == self.orig_type


# ------------------------------------------------------------------------------------------------ valued symbols (C01, C06)
# WF(T) clauses used by the value contracts, as invariants of immutable tree fields (assumed at every read; they
# restrict the quantifier to the "well-formed Kconfig trees" of the property statements):
def lit_ok(t, text):
    """the literal operand of `set` / `set default` is well-formed for the target's type"""
    if t == INT:
        return parses_int(text, 10)
    if t == HEX:
        return parses_int(text, 16) and int_val(text, 16) >= 0
    if t == FLOAT:
        return parses_float(text)
    return True


@invariant("rev_values")
def inv_rev_values(obj, lst):
    return not is_instance(obj, "Symbol") or forall_int(0, len(lst), lambda j: lit_ok(obj.orig_type, lst[j][0].name))


@invariant("weak_rev_values")
def inv_weak_rev_values(obj, lst):
    return not is_instance(obj, "Symbol") or forall_int(0, len(lst), lambda j: lit_ok(obj.orig_type, lst[j][0].name))


def operand_ok(t, d):
    """operand of a `default` of a valued option: a symbol whose value is empty or well-formed for the type"""
    if not is_instance(d, "Symbol"):
        return False
    if t == INT:
        return SV(d) == "" or parses_int(SV(d), 10)
    if t == HEX:
        return SV(d) == "" or (parses_int(SV(d), 16) and int_val(SV(d), 16) >= 0)
    if t == FLOAT:
        return SV(d) == "" or parses_float(SV(d))
    return True


@invariant("defaults")
def inv_defaults(obj, lst):
    return (not is_instance(obj, "Symbol") or obj.orig_type == BOOL or obj.orig_type == UNKNOWN
            or forall_int(0, len(lst), lambda j: operand_ok(obj.orig_type, lst[j][0])))


def num_base(s):
    return ite(s.orig_type == HEX, 16, 10)


def num0(text, base):
    """numeric reading of a value text; text that is not a number reads as 0 (strtoll on an empty string)"""
    return ite(parses_int(text, base), int_val(text, base), 0)


def float0(text):
    """numeric reading of a value text; text that is not a finite float reads as 0.0"""
    return ite(parses_float(text), float_val(text), to_real(0))


def norm_float(text):
    """canonical notation of a float text ("5" -> "5.0"); text that does not parse is kept"""
    return ite(parses_float(text), str_of_float(float_val(text)), text)


# ---- the sources of a value, each "the first entry whose condition holds" (language.rst); they are named by
# uninterpreted functions whose defining equations (the loops below) are instantiated once, at the receiver
R_ON = uf("R_ON", ["V"], "bool")      # a `range` with a true condition applies
R_LO = uf("R_LO", ["V"], "str")       # value text of its lower / upper bound operand
R_HI = uf("R_HI", ["V"], "str")
F_ON = uf("F_ON", ["V"], "bool")      # an enabled `set` forces a value
F_NAME = uf("F_NAME", ["V"], "str")   # literal text of its value operand
F_SV = uf("F_SV", ["V"], "str")       # value of its value operand (string options: `set S=OTHER`)
W_ON = uf("W_ON", ["V"], "bool")      # an enabled `set default` applies (target's own dependencies hold)
W_NAME = uf("W_NAME", ["V"], "str")
W_SV = uf("W_SV", ["V"], "str")
D_ON = uf("D_ON", ["V"], "bool")      # a `default` with a true condition applies
D_SV = uf("D_SV", ["V"], "str")       # value of its operand


def r_on(s):
    for lo, hi, c in s.ranges:
        if EV(c) != 0:
            return True
    return False


def r_lo(s):
    for lo, hi, c in s.ranges:
        if EV(c) != 0:
            return SV(lo)
    return ""


def r_hi(s):
    for lo, hi, c in s.ranges:
        if EV(c) != 0:
            return SV(hi)
    return ""


def f_on(s):
    for v, c, src in s.rev_values:
        if EV(c) != 0:
            return True
    return False


def f_name(s):
    for v, c, src in s.rev_values:
        if EV(c) != 0:
            return v.name
    return ""


def f_sv(s):
    for v, c, src in s.rev_values:
        if EV(c) != 0:
            return SV(v)
    return ""


def w_on(s):
    for v, c, src in s.weak_rev_values:
        if EV(c) != 0 and EV(s.direct_dep) != 0:
            return True
    return False


def w_name(s):
    for v, c, src in s.weak_rev_values:
        if EV(c) != 0 and EV(s.direct_dep) != 0:
            return v.name
    return ""


def w_sv(s):
    for v, c, src in s.weak_rev_values:
        if EV(c) != 0 and EV(s.direct_dep) != 0:
            return SV(v)
    return ""


def d_on(s):
    for d, c in s.defaults:
        if EV(c) != 0:
            return True
    return False


def d_sv(s):
    for d, c in s.defaults:
        if EV(c) != 0:
            return SV(d)
    return ""


def sources_defined(s):
    """defining equations of the source functions at s"""
    return (R_ON(s) == r_on(s) and R_LO(s) == r_lo(s) and R_HI(s) == r_hi(s)
            and F_ON(s) == f_on(s) and F_NAME(s) == f_name(s) and F_SV(s) == f_sv(s)
            and W_ON(s) == w_on(s) and W_NAME(s) == w_name(s) and W_SV(s) == w_sv(s)
            and D_ON(s) == d_on(s) and D_SV(s) == d_sv(s))


def auto_sym(s):
    return s.env_var is not None or s is s.kconfig.defconfig_list


# ---- int / hex (C01, C06)
def range_lo(s):
    return num0(R_LO(s), num_base(s))


def range_hi(s):
    return num0(R_HI(s), num_base(s))


def user_ok_num(s):
    """the user's value counts: prompt visible, not overridden by `set`, and inside the active range"""
    uv = s._user_value
    if VIS(s) == 0 or uv is None or F_ON(s):
        return False
    n = int_val(uv, num_base(s))
    return not R_ON(s) or (range_lo(s) <= n and n <= range_hi(s))


def raw_num(s):
    """precedence of C01 for int / hex, before clamping"""
    if F_ON(s):
        return F_NAME(s)
    if user_ok_num(s):
        return s._user_value
    if W_ON(s):
        return W_NAME(s)
    if D_ON(s):
        return D_SV(s)
    return ""


def canon_num(s, n):
    return ite(s.orig_type == INT, str_of_int(n), hex_of_int(n))


def DEF_SV_num(s):
    raw = raw_num(s)
    if R_ON(s):
        n = num0(raw, num_base(s))
        if n < range_lo(s):
            return canon_num(s, range_lo(s))
        if n > range_hi(s):
            return canon_num(s, range_hi(s))
    return raw


def DEF_W2C_num(s):
    if auto_sym(s):
        return False
    return VIS(s) != 0 or F_ON(s) or (not user_ok_num(s) and (W_ON(s) or D_ON(s)))


# ---- string
def user_ok_str(s):
    return VIS(s) != 0 and s._user_value is not None and not F_ON(s)


def DEF_SV_string(s):
    if F_ON(s):
        return F_SV(s)
    if user_ok_str(s):
        return s._user_value
    if W_ON(s):
        return W_SV(s)
    if D_ON(s):
        return D_SV(s)
    return ""


def DEF_W2C_string(s):
    if auto_sym(s):
        return False
    return VIS(s) != 0 or F_ON(s) or (not user_ok_str(s) and (W_ON(s) or D_ON(s)))


# ---- float (C01, C06): same precedence; literals and defaults are shown in canonical float notation
def frange_lo(s):
    return float0(R_LO(s))


def frange_hi(s):
    return float0(R_HI(s))


def user_ok_flt(s):
    uv = s._user_value
    if VIS(s) == 0 or uv is None or F_ON(s):
        return False
    x = float_val(uv)
    return not R_ON(s) or (frange_lo(s) <= x and x <= frange_hi(s))


def raw_flt(s):
    if F_ON(s):
        return norm_float(F_NAME(s))
    if user_ok_flt(s):
        return s._user_value
    if W_ON(s):
        return norm_float(W_NAME(s))
    if D_ON(s):
        return norm_float(D_SV(s))
    return ""


def DEF_SV_float(s):
    raw = raw_flt(s)
    if R_ON(s):
        x = float0(raw)
        if x < frange_lo(s):
            return str_of_float(frange_lo(s))
        if x > frange_hi(s):
            return str_of_float(frange_hi(s))
    return raw


def DEF_W2C_float(s):
    if auto_sym(s):
        return False
    return VIS(s) != 0 or F_ON(s) or (not user_ok_flt(s) and (W_ON(s) or D_ON(s)))


def DEF_SV(s):
    t = s.orig_type
    if t == BOOL:
        return ite(BV(s) == 2, "y", "n")
    if t == UNKNOWN:
        return s.name
    if t == INT or t == HEX:
        return DEF_SV_num(s)
    if t == STRING:
        return DEF_SV_string(s)
    return DEF_SV_float(s)


def DEF_W2C(s):
    t = s.orig_type
    if t == INT or t == HEX:
        return DEF_W2C_num(s)
    if t == STRING:
        return DEF_W2C_string(s)
    return DEF_W2C_float(s)
