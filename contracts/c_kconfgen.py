"""Contracts for kconfgen's per-option writers (C06, C07): the JSON value of one option is the typed reading of the
option's value and is computed without raising for every well-formed value."""
from pyvc.dsl import (contract, invariant, inline, ite, is_tuple, is_none, is_int, is_str, is_instance, forall_int,
                      exists_int, uf, old, klass, field, parses_int, int_val, parses_float, float_val, same_value)
from contracts.kschema import EV, BV, SV, VIS, SEL, W2C, FORCED
from contracts.c_render import CFGLINE, CACHES
from esp_kconfiglib.core import BOOL, STRING, INT, HEX, FLOAT, UNKNOWN

MG = "kconfgen.core"


def sv_wellformed(s):
    """C06, first sentence (proved: str_value == DEF_SV and the lemmas sv_num_wellformed / sv_float_wellformed)"""
    t = s.orig_type
    if t == INT:
        return SV(s) == "" or parses_int(SV(s), 10)
    if t == HEX:
        return SV(s) == "" or parses_int(SV(s), 16)
    if t == FLOAT:
        return SV(s) == "" or parses_float(SV(s))
    return True


def json_entry_ok(d, s):
    """JSON: absent iff the option is not written; null for a numeric option without value, true / false for bool,
    the number for int / hex / float, the text for string"""
    t = s.orig_type
    if CFGLINE(s) == "":
        return True
    if s.name not in d:
        return False
    v = d[s.name]
    if SV(s) == "" and (t == INT or t == HEX or t == FLOAT):
        return v is None
    if t == BOOL:
        return same_value(v, SV(s) != "n")
    if t == HEX:
        return same_value(v, int_val(SV(s), 16))
    if t == INT:
        return same_value(v, int_val(SV(s), 10))
    if t == FLOAT:
        return same_value(v, float_val(SV(s)))
    return same_value(v, SV(s))


@contract(MG, "get_json_values.<locals>.write_node", params=["node", "config_dict"], free=["config_dict"],
          param_types={"node": "ref:MenuNode", "config_dict": "dict"}, modifies=CACHES)
class C_json_write_node:
    def requires(node, config_dict):
        return not is_instance(node.item, "Symbol") or sv_wellformed(node.item)

    def ensures_entry(node, config_dict, result):
        return not is_instance(node.item, "Symbol") or json_entry_ok(config_dict, node.item)
