"""Contracts for kconfcheck's scoped deprecated-options check (C19).

NEAREST(p) is the nearest enclosing project root of an absolute path p (None if there is none): p itself when p is a
project root, otherwise NEAREST of its parent directory, otherwise (at the file-system root) None.  The verdict of
the check is a function of NEAREST and of per-project sets, hence independent of what was checked before -- provided
the shared memo `cache` only ever holds correct answers.  That is the invariant CacheOK proved here."""
import os
from pyvc.dsl import (contract, invariant, inline, ite, is_tuple, is_none, is_int, is_str, is_instance, forall_int,
                      exists_int, uf, old, klass, field, same_value, forall_key)

MD = "kconfcheck.check_deprecated_options"


def _native_nearest(p):
    import kconfcheck.check_deprecated_options as m
    while True:
        if m._is_project_root(p):
            return p
        q = os.path.dirname(p)
        if q == p:
            return None
        p = q


NEAREST = uf("NEAREST", ["V"], "V", native=_native_nearest)
ISROOT = uf("ISROOT", ["V"], "bool", native=lambda d: __import__("kconfcheck.check_deprecated_options").check_deprecated_options._is_project_root(d))


def nearest_unfold(p):
    if ISROOT(p):
        return p
    if os.path.dirname(p) == p:
        return None
    return NEAREST(os.path.dirname(p))


@contract(MD, "_is_project_root", params=["directory"], param_types={"directory": "str"}, result="bool", trusted=True,
          note="reads the file system (CMakeLists.txt of the directory); assumed to be a function of the directory for "
               "the duration of one kconfcheck run. The second clause is the defining equation of NEAREST, unfolded at "
               "the directory that is being tested (a definition, not a property of the code).")
class C__is_project_root:
    def ensures_value(directory, result):
        return result == ISROOT(directory)

    def ensures_nearest_definition(directory, result):
        return same_value(NEAREST(directory), nearest_unfold(directory))


def cache_ok(cache):
    """every memoised answer is the right one"""
    return forall_key(cache, lambda k: same_value(cache[k], NEAREST(k)))


def chain_ok(checked, path):
    """every directory walked so far has the same nearest project root as the directory now being looked at"""
    return all(same_value(NEAREST(d), NEAREST(path)) for d in checked)


@contract(MD, "_find_project_root", params=["path", "cache"], param_types={"path": "str", "cache": "dict"})
class C__find_project_root:
    def requires(path, cache):
        return cache_ok(cache)

    def loop_inv_0(path, checked, cache, path_entry):
        return (is_str(path) and cache_ok(cache) and chain_ok(checked, path)
                and same_value(NEAREST(path), NEAREST(os.path.abspath(path_entry))))

    def loop_inv_1(cache, checked, result, path):
        return cache_ok(cache) and all(same_value(NEAREST(d), result) for d in checked)

    def loop_inv_2(cache, checked, path):
        return cache_ok(cache) and all(same_value(NEAREST(d), path) for d in checked)

    def loop_inv_3(cache, checked):
        return cache_ok(cache) and all(same_value(NEAREST(d), None) for d in checked)

    def ensures_value(path, cache, result):
        return same_value(result, NEAREST(os.path.abspath(path)))

    def ensures_cache_ok(path, cache, result):
        return cache_ok(cache)
