"""Contracts for the mutators of user state (C03, C05, C06, C16): every change of user state is well-formed for the
option's type (USERVAL invariant, checked at the store) and is followed by the invalidation of the changed item
before the mutator returns; a rejected value changes nothing."""
from pyvc.dsl import (contract, invariant, inline, ite, is_tuple, is_none, is_int, is_str, is_instance, forall_int,
                      exists_int, parses_int, int_val, parses_float, float_val, uf, str_of_float, old)
from contracts.kschema import EV, BV, SV, VIS, SEL, W2C, FORCED
from contracts.c_eval import norm_float
from esp_kconfiglib.core import BOOL, STRING, INT, HEX, FLOAT, UNKNOWN

M = "esp_kconfiglib.core"

ALL_CACHES = ["_cached_str_val", "_cached_bool_val", "_cached_vis", "_cached_assignable", "_cached_selection"]
# an invalidation only ever empties caches (frame of _rec_invalidate: every cache keeps its value or is reset)
RESET_CACHES = ["_cached_str_val@reset", "_cached_bool_val@reset", "_cached_vis@reset", "_cached_assignable@reset",
                "_cached_selection@reset0"]


def sym_invalid(s):
    """nothing is cached for the option: the next read recomputes"""
    return (s._cached_str_val is None and s._cached_bool_val is None and s._cached_vis is None
            and s._cached_assignable is None)


def choice_invalid(c):
    return c._cached_vis is None and c._cached_assignable is None and is_int(c._cached_selection) and c._cached_selection == 0


def has_prompt(s):
    for node in s.nodes:
        if node.prompt is not None:
            return True
    return False


# ---- the transitive part (closure under _dependents) is a whole-graph property: it is checked by the bounded
# ---- stand-in rtc.drv_eval (C03) on every generated tree; here the contract used by callers is assumed
@contract(M, "Symbol._rec_invalidate", params=["self"], kind="method", cls="Symbol", trusted=True, modifies=RESET_CACHES,
          note="assumed: invalidates self (when not re-entered) and, transitively, every registered dependent; "
               "restores every _invalidating flag. Closure checked at run time by rtc.drv_eval (bounded).")
class C_Symbol__rec_invalidate:
    def requires(self):
        return not self._invalidating

    def ensures_self(self, result):
        return sym_invalid(self)


@contract(M, "Choice._rec_invalidate", params=["self"], kind="method", cls="Choice", trusted=True, modifies=RESET_CACHES,
          note="assumed: see Symbol._rec_invalidate")
class C_Choice__rec_invalidate:
    def requires(self):
        return not self._invalidating

    def ensures_self(self, result):
        return choice_invalid(self)


@invariant("_invalidating")
def inv_invalidating(obj, v):
    """outside an invalidation no item is marked as being invalidated (the flags are restored before
    _rec_invalidate returns; the mutators below are never called from inside an invalidation)"""
    return v == False  # noqa: E712


@contract(M, "Symbol._rec_invalidate_if_has_prompt", params=["self"], kind="method", cls="Symbol", modifies=ALL_CACHES)
class C_rec_invalidate_if_has_prompt:
    def ensures_invalidated(self, result):
        return not has_prompt(self) or sym_invalid(self)


# ------------------------------------------------------------------------------------------------ Symbol.set_value
def valid_for(s, v):
    """value_is_valid of C06: y/n for bool, base-10 integer, non-negative base-16 integer, finite float, any text"""
    if s.orig_type == BOOL:
        return is_int(v) and (v == 0 or v == 2)
    if not is_str(v):
        return False
    if s.orig_type == INT:
        return parses_int(v, 10)
    if s.orig_type == HEX:
        return parses_int(v, 16) and int_val(v, 16) >= 0
    if s.orig_type == FLOAT:
        return parses_float(v)
    return s.orig_type == STRING


def documented_value(value):
    """the documented argument domain of set_value(): 0 / 2 (ints) for n / y, or a string"""
    return is_int(value) or is_str(value)


def as_bool_value(s, value):
    """"n" / "y" are accepted for bool options and mean 0 / 2"""
    return ite(s.orig_type == BOOL and is_str(value) and value == "n", 0,
               ite(s.orig_type == BOOL and is_str(value) and value == "y", 2, value))


@contract(M, "Symbol.value_is_valid", params=["self", "value"], kind="method", cls="Symbol", result="bool")
class C_value_is_valid:
    def requires(self, value):
        return documented_value(value)

    def ensures_value(self, value, result):
        return result == valid_for(self, value)


@contract(M, "Symbol.set_value", params=["self", "value"], kind="method", cls="Symbol", result="bool",
          modifies=ALL_CACHES + ["_user_value", "_was_set", "_user_selection", "_sdkconfig_value", "_loaded_as_default"])
class C_Symbol_set_value:
    def requires(self, value):
        return documented_value(value)

    def ensures_verdict(self, value, result):
        # accepted exactly when the value has the form of the option's type (or repeats the stored user value)
        v = as_bool_value(self, value)
        return result == (valid_for(self, v) or (self.choice is None and old(self._user_value) is not None
                                                 and v == old(self._user_value)))

    def ensures_rejected_unchanged(self, value, result):
        return result or (self._user_value is old(self._user_value) or self._user_value == old(self._user_value))

    def ensures_stored(self, value, result):
        v = as_bool_value(self, value)
        return (not result) or (ite(self.orig_type == FLOAT and is_str(v), self._user_value == norm_float(v),
                                    self._user_value == v)
                                or (self.choice is None and v == old(self._user_value)
                                    and self._user_value == old(self._user_value)))

    def ensures_invalidated(self, value, result):
        # a changed user value is followed by the invalidation of the option (if it has a prompt: a user value on a
        # promptless option has no effect, C01) or, for a member set to y, of its choice
        v = as_bool_value(self, value)
        unchanged = self.choice is None and old(self._user_value) is not None and v == old(self._user_value)
        if not result or unchanged:
            return True
        if self.choice is not None and is_int(v) and v == 2:
            return choice_invalid(self.choice) and self.choice._user_selection is self
        return not has_prompt(self) or sym_invalid(self)


@contract(M, "Symbol.unset_value", params=["self"], kind="method", cls="Symbol",
          modifies=ALL_CACHES + ["_user_value", "_user_source"])
class C_Symbol_unset_value:
    def ensures_state(self, result):
        return self._user_value is None

    def ensures_invalidated(self, result):
        return old(self._user_value) is None or not has_prompt(self) or sym_invalid(self)


# ------------------------------------------------------------------------------------------------ Choice
@contract(M, "Choice.set_value", params=["self", "value"], kind="method", cls="Choice", result="bool",
          modifies=ALL_CACHES + ["_user_value", "_was_set"])
class C_Choice_set_value:
    def requires(self, value):
        return documented_value(value)

    def ensures_rejected_unchanged(self, value, result):
        return result or self._user_value is old(self._user_value) or self._user_value == old(self._user_value)

    def ensures_invalidated(self, value, result):
        return (not result) or self._user_value == old(self._user_value) or choice_invalid(self)


@contract(M, "Choice.unset_value", params=["self"], kind="method", cls="Choice",
          modifies=ALL_CACHES + ["_user_value", "_user_selection"])
class C_Choice_unset_value:
    def ensures_state(self, result):
        return self._user_value is None and self._user_selection is None

    def ensures_invalidated(self, result):
        return (old(self._user_value) is None and old(self._user_selection) is None) or choice_invalid(self)


# ------------------------------------------------------------------------------------------------ reset
@contract(M, "_restore_default", params=["node"], param_types={"node": "ref:MenuNode"}, result="bool",
          modifies=ALL_CACHES + ["_user_value", "_user_selection"])
class C__restore_default:
    """C03 / C16: resetting an entry drops the user value of the option (and the user's pick of its choice) and
    invalidates what was changed"""

    def ensures_symbol(node, result):
        it = node.item
        if not is_instance(it, "Symbol"):
            return True
        return result and it._user_value is None and sym_invalid(it) and (
            it.choice is None or (it.choice._user_selection is None and choice_invalid(it.choice)))

    def ensures_choice(node, result):
        it = node.item
        if not is_instance(it, "Choice"):
            return True
        return result and it._user_selection is None and choice_invalid(it)

    def ensures_other(node, result):
        it = node.item
        return is_instance(it, "Symbol") or is_instance(it, "Choice") or result == False  # noqa: E712
