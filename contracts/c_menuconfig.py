"""Contracts for the menuconfig model (C16): needs_save() is exact with respect to the baseline fields.

BASELINE(file) (DESIGN §4.2): for every option, `_sdkconfig_value` is what the main sdkconfig file assigns to it (None
when the file has no entry) and `_loaded_as_default` says whether that entry carried the `# default:` marker.  Under
that reading "the file on disk is exactly what saving would write" is, per option: no entry in the file <=> the
option writes nothing; an entry <=> the option's value equals it and its marker equals the entry's marker."""
from pyvc.dsl import (contract, invariant, inline, ite, is_tuple, is_none, is_int, is_str, is_instance, forall_int,
                      exists_int, uf, old, klass, field, fs_exists, fs_trace)
from contracts.kschema import EV, BV, SV, VIS, SEL, W2C, FORCED
from contracts.c_render import CFGLINE, MARK, CACHES
from esp_kconfiglib.core import BOOL, STRING, INT, HEX, FLOAT, UNKNOWN

MM = "esp_menuconfig.model"

klass("MenuConfigState", 20, MM, fields={
    "kconf": field("ref:Kconfig", "imm"),
    "conf_filename": field("str", "imm"),
}, props=[], methods=["needs_save"])


def truthy(x):
    return ite(x, True, False)


def entry_matches(s):
    """what the file says about the option is what saving would write for it now"""
    if s._sdkconfig_value is None:
        return CFGLINE(s) == ""
    return SV(s) == s._sdkconfig_value and truthy(s._loaded_as_default) == MARK(s)


@contract(MM, "MenuConfigState.needs_save", params=["self"], kind="method", cls="MenuConfigState", result="bool",
          modifies=CACHES)
class C_needs_save:
    def ensures_clean_means_equal(self, result):
        # reported clean => no unknown entries in the file and every option's entry matches what would be written
        k = self.kconf
        return result or (len(k.missing_syms) == 0
                          and forall_int(0, len(k.unique_defined_syms),
                                         lambda j: entry_matches(k.unique_defined_syms[j])))

    def ensures_dirty_means_different(self, result):
        # reported dirty => the file has an unknown entry or some option's entry differs from what would be written
        k = self.kconf
        # (or there is no file at all yet: saving creates it)
        return ((not result) or len(k.missing_syms) != 0 or not fs_exists(self.conf_filename, len(fs_trace()))
                or exists_int(0, len(k.unique_defined_syms), lambda j: not entry_matches(k.unique_defined_syms[j])))
