"""Property -> what is proved / bounded / assumed (mirrors DESIGN §5 and MANIFEST.json)."""

K = "esp_kconfiglib.core"
EVAL_SIDECARS = ["contracts.kschema", "contracts.c_eval"]


class Prop:
    def __init__(self, sidecars=(), prove=(), bounded=(), level="proof", explanation="", assumptions=()):
        self.sidecars = list(sidecars)
        self.prove = list(prove)
        self.bounded = list(bounded)
        self.level = level
        self.explanation = explanation
        self.assumptions = list(assumptions)


EVALUATORS = [f"{K}:expr_value", f"{K}:_visibility", f"{K}:Symbol.visibility", f"{K}:Choice.visibility",
              f"{K}:Symbol.bool_value", f"{K}:Choice.bool_value", f"{K}:Choice.str_value"]
CHOICE = [f"{K}:Choice._selection_from_defaults", f"{K}:Choice._selection", f"{K}:Choice.selection"]

PROPS = {
    "C01": Prop(EVAL_SIDECARS, EVALUATORS, level="proof",
                explanation="every evaluator is proved equal to the spec function transcribed from the statement"),
    "C05": Prop(EVAL_SIDECARS, CHOICE + [f"{K}:Choice.bool_value", f"{K}:Symbol.bool_value"], level="proof",
                explanation="selection rule and member values proved against the statement's three-step rule"),
}
