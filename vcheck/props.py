"""Property -> what is proved (pyvc) / bounded (rtc) / assumed.  Mirrors DESIGN §5 and MANIFEST.json."""

K = "esp_kconfiglib.core"
EVAL_SIDECARS = ["contracts.kschema", "contracts.c_eval"]
RENDER_SIDECARS = EVAL_SIDECARS + ["contracts.c_render"]
MUT_SIDECARS = EVAL_SIDECARS + ["contracts.c_mut"]
MC_SIDECARS = RENDER_SIDECARS + ["contracts.c_mut", "contracts.c_menuconfig"]
MCM = "esp_menuconfig.model"
SRV = "kconfserver.core"


class Prop:
    def __init__(self, sidecars=(), prove=(), bounded=(), level="proof", explanation="", assumptions=(), thorough=()):
        self.sidecars = list(sidecars)
        self.prove = list(prove)
        self.prove_thorough = list(thorough)  # additional proof targets of the thorough tier (too slow for every change)
        self.bounded = list(bounded)  # names of rtc driver modules
        self.level = level
        self.explanation = explanation
        self.assumptions = list(assumptions)


STR_CASES = ["*", "bool_unknown", "string",
             "int_forced", "int_user", "int_dflt_range", "int_dflt_norange",
             "hex_forced", "hex_user", "hex_dflt_range", "hex_dflt_norange",
             "float_forced", "float_user", "float_dflt_range", "float_dflt_norange"]
NUM_CASES = [c for c in STR_CASES if c.split("_")[0] in ("int", "hex", "float")]
STR_VALUE = [f"{K}:Symbol.str_value#{c}" for c in STR_CASES]
STR_VALUE_NUM = [f"{K}:Symbol.str_value#{c}" for c in ["*"] + NUM_CASES]

EVALUATORS = [f"{K}:expr_value", f"{K}:_visibility", f"{K}:Symbol.visibility", f"{K}:Choice.visibility",
              f"{K}:Symbol.bool_value", f"{K}:Choice.bool_value", f"{K}:Choice.str_value"]
CHOICE = [f"{K}:Choice._selection_from_defaults", f"{K}:Choice._selection", f"{K}:Choice.selection"]
RENDER = [f"{K}:Symbol.has_active_default_value", f"{K}:_escape", f"{K}:Symbol.config_string",
          f"{K}:Kconfig._header_string"]
MUTATORS = [f"{K}:Symbol._rec_invalidate_if_has_prompt", f"{K}:Symbol.value_is_valid", f"{K}:Symbol.set_value",
            f"{K}:Symbol.unset_value", f"{K}:Choice.set_value", f"{K}:Choice.unset_value", f"{K}:_restore_default"]

PROPS = {
    "C01": Prop(EVAL_SIDECARS, EVALUATORS + [f"{K}:Symbol.str_value#{c}" for c in ("*", "bool_unknown", "string")],
                ["drv_eval"], level="other", thorough=[f"{K}:Symbol.str_value#{c}" for c in NUM_CASES],
                explanation="quick tier: expr_value, _visibility, Symbol/Choice.visibility, bool_value and the bool / string "
                            "branches of str_value are proved equal to the spec function transcribed from the statement "
                            "(precedence, select / imply, hidden user value); the twelve numeric cases of str_value "
                            "(int / hex / float x forced / user / default with and without range) are proved in the thorough "
                            "tier only (minutes of VC generation each); the propagation of inherited dependencies into "
                            "prompt conditions (finalisation) is covered by the bounded stand-in"),
    "C02": Prop(RENDER_SIDECARS, RENDER[:3], ["drv_loadsave"], level="other",
                explanation="line format, quoting map and marker predicate proved; write∘load fix-point bounded"),
    "C03": Prop(MUT_SIDECARS, MUTATORS, ["drv_eval"], level="other",
                explanation="every mutator is proved to store a well-formed user value and to invalidate the changed item "
                            "before returning, evaluators are proved to write nothing but caches (frame obligations); "
                            "edge completeness of _build_dep and the closure of _rec_invalidate are bounded"),
    "C04": Prop([], [], ["drv_parsers"], level="other",
                explanation="parser equivalence is not decidable by a contract within reach; bounded differential contract on "
                            "Kconfig.__init__ for the two parser versions"),
    "C05": Prop(MUT_SIDECARS, CHOICE + [f"{K}:Choice.bool_value", f"{K}:Symbol.bool_value", f"{K}:Symbol.set_value"],
                ["drv_eval"], level="proof",
                explanation="selection rule and member values proved against the statement's three-step rule"),
    "C06": Prop(RENDER_SIDECARS + ["contracts.c_mut", "contracts.c_lemmas", "contracts.c_kconfgen"],
                [f"{K}:Symbol.str_value#*", f"{K}:Symbol.value_is_valid", f"{K}:Symbol.set_value", f"{K}:Kconfig._header_string",
                 "kconfgen.core:get_json_values.<locals>.write_node",
                 "lemma:sv_num_wellformed", "lemma:sv_float_wellformed", "lemma:canary_sv_num_always_empty"],
                ["drv_eval"], level="other", thorough=[f"{K}:Symbol.str_value#{c}" for c in NUM_CASES],
                explanation="quick tier: accepted user values proved well-formed at the store (value_is_valid, set_value, float "
                            "normalisation), the header renderer proved against the one-entry spec, exhaustiveness of the "
                            "str_value case split, and two lemmas over the spec functions: the value the precedence rule prescribes "
                            "for an int / hex / float option (DEF_SV) is empty or well-formed for the type and lies inside the "
                            "active range; that the numeric branches of the real str_value compute exactly DEF_SV is proved in "
                            "the thorough tier only; generators bounded"),
    "C07": Prop(RENDER_SIDECARS + ["contracts.c_deprecated", "contracts.c_kconfgen"],
                [f"{K}:Symbol.config_string", f"{K}:Kconfig._header_string", f"{K}:_escape",
                 "esp_kconfiglib.deprecated:DeprecatedOptions._deprecated_config_string",
                 "kconfgen.core:get_json_values.<locals>.write_node"],
                ["drv_outputs"], level="other",
                explanation="the sdkconfig entry, the C header entry, the JSON value and the sdkconfig line of a deprecated alias "
                            "are each proved equal to one spec function of (written?, type, value[, inverted alias]) -- so "
                            "these formats agree for all inputs by transitivity; CMake, auto.conf, the header's alias "
                            "defines and whole-file agreement are bounded"),
    "C08": Prop(RENDER_SIDECARS, [f"{K}:Symbol.has_active_default_value"], ["drv_loadsave"], level="other",
                explanation="marker predicate proved; load-side clauses bounded"),
    "C09": Prop([], [], ["drv_eval"], level="other", explanation="loop rejection and exception-freedom bounded"),
    "C10": Prop([], [], ["drv_loadsave"], level="other", explanation="reconstruction bounded"),
    "C11": Prop(RENDER_SIDECARS + ["contracts.c_deprecated"],
                ["esp_kconfiglib.deprecated:DeprecatedOptions._deprecated_config_string",
                 "esp_kconfiglib.deprecated:DeprecatedOptions.is_inversion",
                 "esp_kconfiglib.deprecated:DeprecatedOptions.get_new_option"], ["drv_loadsave"], level="other",
                explanation="the line written for a deprecated alias is proved to carry the replacement's value, inverted "
                            "exactly for `!` aliases of bools (what a later load of the block reads back); rename resolution "
                            "while loading is bounded"),
    "C12": Prop(["contracts.kschema", "contracts.c_files"], [f"{K}:Kconfig._contents_eq", f"{K}:Kconfig._write_if_changed"],
                ["drv_outputs"], level="other",
                explanation="_write_if_changed (no write effect when unchanged) proved over the file-system effect model; "
                            "touch decision, idempotence and the crash clause bounded"),
    "C13": Prop(["contracts.kschema", "contracts.c_files"],
                [f"{K}:Kconfig._contents_eq", f"{K}:Kconfig._write_if_changed", f"{K}:_save_old", f"{K}:Kconfig.write_config",
                 "kconfgen.core:update_if_changed"],
                ["drv_outputs"], level="other",
                explanation="over the file-system effect model (pyvc/effects.py): _contents_eq is exact, _write_if_changed and "
                            "write_config perform no write effect when the destination already holds the text, and the effects "
                            "of a save are [backup effect on <file>.old]? . truncate . write -- nothing touches the file before "
                            "the backup effect; kconfgen's writers, mtimes and the crash clause on a real file system bounded"),
    "C14": Prop(["contracts.c_server"], [f"{SRV}:diff"], ["drv_server"], level="other",
                explanation="diff(before, after) proved to carry exactly the new / changed entries of `after`; the "
                            "client-sync invariant over whole request histories and the restart clause are bounded"),
    "C15": Prop([], [], ["drv_server"], level="other", explanation="one reply per line / survival bounded"),
    "C16": Prop(MC_SIDECARS, [f"{MCM}:MenuConfigState.needs_save", f"{K}:Symbol.config_string",
                              f"{K}:Symbol.has_active_default_value", f"{K}:Symbol.set_value"], ["drv_menuconfig"],
                level="other",
                explanation="needs_save() proved exact w.r.t. the baseline fields (clean <=> no unknown entry and every "
                            "option's file entry equals the line and marker that saving would write), on top of the proved "
                            "line / marker renderers; that load / save establish the baseline is bounded"),
    "C17": Prop([], [], ["drv_menuconfig"], level="other", explanation="state invariant bounded"),
    "C18": Prop([], [], ["drv_tools"], level="other", explanation="bounded"),
    "C19": Prop([], [], ["drv_tools"], level="other", explanation="bounded"),
    "C20": Prop([], [], ["drv_tools"], level="other", explanation="bounded"),
}
