import sys
from .main import main
sys.exit(main(sys.argv[1:]))
