"""./check driver: runs the proof obligations (pyvc) and bounded stand-ins (rtc) of one property against /repo's
current working tree, writes evidence/<id>.json, prints VIOLATION / KNOWN-FINDING lines.

exit 0 held | 1 violation | 2 undecided (solver unknown on all back ends) | 3 checker error
"""
import argparse
import json
import multiprocessing as mp
import os
import sys
import time
import traceback

VERIF = os.path.dirname(os.path.dirname(os.path.abspath(__file__)))
REPO = os.environ.get("PYVC_REPO", "/repo")
sys.path.insert(0, VERIF)
sys.path.insert(0, REPO)

_loaded = {}


def _load(sidecars):
    key = tuple(sidecars)
    if key not in _loaded:
        from pyvc import verify
        _loaded[key] = verify.load_sidecars(list(sidecars))
    return _loaded[key]


def verify_one(task):
    """Worker: verify + discharge one function / lemma. Returns a plain dict."""
    sidecars, key, djobs = task[:3]
    budget = task[3] if len(task) > 3 else None
    t0 = time.time()

    class _Budget(BaseException):
        pass

    def _on_alarm(*_a):
        raise _Budget()

    if budget:
        import signal
        signal.signal(signal.SIGALRM, _on_alarm)
        signal.alarm(int(budget))
    try:
        from pyvc import verify
        reg, sources = _load(sidecars)
        rep = verify.verify_function(reg, sources, key)
        if rep.status == "ok":
            verify.discharge(rep, jobs=djobs)
        obls = [verify._plain(o) for o in rep.obligations]
        if key.startswith("lemma:canary_") and rep.status == "ok":
            # a canary is a FALSE claim: it must not be provable (guard against an engine that proves everything)
            if obls and all(o["status"] == "discharged" for o in obls):
                return {"key": key, "status": "checker_error", "reason": "canary lemma was proved: the engine is unsound",
                        "obligations": [], "time": round(time.time() - t0, 2)}
            obls = [{"name": key.split(":", 1)[1] + "#not-provable", "status": "discharged", "time": 0.0,
                     "backend": "canary (the false claim was refuted or left undecided, as required)", "kind": "canary"}]
        c = reg.contracts.get(key)
        return {"key": key, "status": rep.status, "reason": rep.reason, "span": rep.span, "digest": rep.digest,
                "dropped": rep.dropped, "paths": rep.paths, "obligations": obls,
                "assumptions": sorted(rep.assumptions), "inlined": rep.inlined, "contracts_used": rep.contracts_used,
                "time": round(time.time() - t0, 2), "stats": rep.stats,
                "file": (sources.get(key.split(":")[0]).path if sources.get(key.split(":")[0]) else None)}
    except _Budget:
        try:
            from pyvc import verify as _v
            _v.kill_children()
        except Exception:
            pass
        return {"key": key, "status": "budget_exceeded", "reason": f"not completed within the time budget of {budget} s",
                "obligations": [], "time": round(time.time() - t0, 2)}
    except Exception as e:  # checker crash: exit 3
        if budget and ("_Budget" in f"{type(e).__name__}: {e}" or time.time() - t0 >= budget - 1):
            # the alarm went off inside a solver call-back: ctypes wraps the exception
            try:
                from pyvc import verify as _v
                _v.kill_children()
            except Exception:
                pass
            return {"key": key, "status": "budget_exceeded", "reason": f"not completed within the time budget of {budget} s",
                    "obligations": [], "time": round(time.time() - t0, 2)}
        return {"key": key, "status": "checker_error", "reason": f"{type(e).__name__}: {e}",
                "trace": traceback.format_exc()[-3000:], "obligations": [], "time": round(time.time() - t0, 2)}
    finally:
        if budget:
            import signal
            signal.alarm(0)


def run_driver(modname, prop, tier, seed, jobs):
    """Bounded stand-in: run rtc/<modname>.py in its own process (it imports the project from PYVC_REPO and may
    fork workers); its JSON result is read from a file.  A crash of the driver is a checker error, never a violation."""
    import subprocess
    import tempfile
    if not os.path.exists(os.path.join(VERIF, "rtc", modname + ".py")):
        return {"name": modname, "status": "checker_error", "reason": f"driver rtc/{modname}.py is missing"}
    fd, outp = tempfile.mkstemp(suffix=".json")
    os.close(fd)
    code = ("import json, sys, os\n"
            "sys.path.insert(0, %r); sys.path.insert(0, os.environ.get('PYVC_REPO', '/repo'))\n"
            "import importlib\n"
            "m = importlib.import_module('rtc.%s')\n"
            "r = m.run(%r, %r, %d, %d)\n"
            "json.dump(r, open(%r, 'w'), default=str)\n") % (VERIF, modname, prop, tier, seed, jobs, outp)
    limit = int(os.environ.get("VERIF_DRIVER_TIMEOUT", "900" if tier == "quick" else "3600"))
    try:
        p = subprocess.run([sys.executable, "-c", code], cwd=VERIF, stdout=subprocess.PIPE, stderr=subprocess.PIPE,
                           text=True, timeout=limit, env=dict(os.environ, PYTHONHASHSEED="0"))
        if p.returncode != 0 or os.path.getsize(outp) == 0:
            return {"name": modname, "status": "checker_error",
                    "reason": f"driver exited {p.returncode}", "trace": (p.stderr or "")[-3000:]}
        r = json.load(open(outp))
        r.setdefault("name", modname)
        return r
    except subprocess.TimeoutExpired:
        return {"name": modname, "status": "checker_error", "reason": f"driver exceeded {limit}s"}
    except Exception as e:
        return {"name": modname, "status": "checker_error", "reason": f"{type(e).__name__}: {e}",
                "trace": traceback.format_exc()[-2000:]}
    finally:
        try:
            os.unlink(outp)
        except OSError:
            pass


def load_known():
    path = os.path.join(VERIF, "KNOWN_FINDINGS.jsonl")
    out = []
    if os.path.exists(path):
        for line in open(path):
            line = line.strip()
            if line and not line.startswith("#"):
                out.append(json.loads(line))
    return out


def finding_matches(f, prop, ob):
    """A known finding names one obligation (function#clause) and, optionally, the exception / call site."""
    if f.get("status") != "known" or f.get("property") != prop:
        return False
    if f.get("obligation") != ob["name"]:
        return False
    for k in ("exception", "where_function"):
        if k in f:
            got = ob.get("exception") if k == "exception" else (ob.get("where") or "").rsplit(":", 1)[0]
            if got != f[k]:
                return False
    return True


def main(argv):
    ap = argparse.ArgumentParser(prog="check")
    ap.add_argument("prop")
    ap.add_argument("--tier", default=os.environ.get("VERIF_TIER", "quick"), choices=["quick", "thorough"])
    ap.add_argument("--replay", default=None)
    ap.add_argument("--jobs", type=int, default=int(os.environ.get("VERIF_JOBS", "16")))
    args = ap.parse_args(argv)
    seed = int(os.environ.get("VERIF_SEED", "0") or 0)
    from . import props
    if args.prop not in props.PROPS:
        print(f"unknown property {args.prop}", file=sys.stderr)
        return 3
    if args.replay:
        from . import replay
        return replay.run_replay_file(args.prop, args.replay)
    P = props.PROPS[args.prop]
    t0 = time.time()
    exit_code = 0
    lines = []
    # ---- axiom cross-check (trusted builtin models vs CPython)
    from pyvc import axiomcheck
    ax_n, ax_bad = axiomcheck.run(args.tier == "thorough")
    if ax_bad:
        print(f"CHECKER-ERROR builtin axiom disagrees with CPython: {ax_bad[:3]}")
        return 3
    # ---- proof obligations
    extra = list(P.prove_thorough) if args.tier == "thorough" else []
    targets = extra + list(P.prove)  # the long-running targets first
    djobs = max(1, args.jobs // max(1, len(targets)))  # spare cores discharge one function's obligations in parallel
    # thorough-only targets (minutes of VC generation, thousands of obligations each) run under a wall-clock budget and
    # discharge with a few workers of their own; what does not complete within the budget is reported as not completed
    # (evidence: thorough_targets_not_completed) and does not decide the exit code -- a refuted obligation still does
    budget = int(os.environ.get("PYVC_THOROUGH_BUDGET_S", "3000"))
    tasks = [(tuple(P.sidecars), k, max(djobs, 4), budget) for k in extra] + [(tuple(P.sidecars), k, djobs) for k in P.prove]
    results = []
    if tasks:
        nproc = max(1, min(args.jobs, len(tasks)))
        if nproc == 1:
            results = [verify_one(t) for t in tasks]
        else:
            ctx = mp.get_context("fork")
            with ctx.Pool(nproc, maxtasksperchild=1) as pool:
                results = pool.map(verify_one, tasks, chunksize=1)
    # ---- second chance for undecided functions: re-verify them one at a time with all cores (solver give-ups and
    # feasibility time-outs of the first pass are mostly contention between the parallel workers)
    for i, r in enumerate(results):
        if (r.get("status") == "ok" and r["key"] not in extra
                and any(o.get("status") == "undecided" for o in r.get("obligations", []))):
            r2 = verify_one((tuple(P.sidecars), r["key"], max(1, args.jobs)))
            n1 = sum(o.get("status") == "undecided" for o in r["obligations"])
            n2 = sum(o.get("status") == "undecided" for o in r2.get("obligations", [])) if r2.get("status") == "ok" else n1
            if r2.get("status") == "ok" and n2 < n1:
                r2["retried"] = True
                results[i] = r2
    # ---- bounded stand-ins
    bounded = []
    for b in P.bounded:
        bounded.append(run_driver(b, args.prop, args.tier, seed, args.jobs))
    known = load_known()
    from . import report
    return report.finish(args, P, results, bounded, known, ax_n, t0, seed)
