"""Aggregation of results: known-finding matching, replay files, evidence, exit code."""
import fnmatch
import json
import os
import sys
import time

VERIF = os.path.dirname(os.path.dirname(os.path.abspath(__file__)))
OUT = os.environ.get("VERIF_OUT", VERIF)  # seeded-change runs redirect evidence / replays away from /verif

PY_SEMANTICS = [
    "python-semantics:int-is-mathematical (true in CPython)",
    "python-semantics:float-as-real (only ordering / equality / str<->float round trips are used)",
    "python-semantics:str-is-z3-String (code-point sequences; str.replace on one-character needles = replace_all)",
    "python-semantics:bool-is-int, truthiness / min / max / len / in / isinstance per the language reference",
    "python-semantics:`is` on small ints and interned token constants behaves as ==",
    "python-semantics:locals unbound after a zero-iteration loop are treated as arbitrary values",
    "python-semantics:no termination claim (partial correctness); recursion handled by the function's own contract",
]


def finish(args, P, results, bounded, known, ax_n, t0, seed):
    from .main import finding_matches
    prop = args.prop
    soft = set(getattr(P, "prove_thorough", ()))
    not_completed = []
    violations = []
    known_hits = []
    undecided = []
    checker_errors = []
    out_of_reach = []
    n_obl = n_dis = 0
    samples = []
    functions = []
    assumptions = set()
    backends = {}
    solver_time = 0.0
    for r in results:
        fn = {"function": r["key"], "status": r["status"], "file": r.get("file"), "span": r.get("span"),
              "source_digest": r.get("digest"), "paths": r.get("paths"), "dropped_by_extraction": r.get("dropped"),
              "inlined_callees": r.get("inlined"), "callee_contracts_used": r.get("contracts_used"),
              "seconds": r.get("time")}
        if r["status"] == "checker_error":
            checker_errors.append((r["key"], r.get("reason"), r.get("trace")))
            fn["reason"] = r.get("reason")
        elif r["status"] == "out_of_reach":
            out_of_reach.append((r["key"], r.get("reason")))
            fn["reason"] = r.get("reason")
        elif r["status"] == "budget_exceeded":
            fn["reason"] = r.get("reason")
            if r["key"] in soft:
                not_completed.append({"function": r["key"], "reason": r.get("reason")})
            else:
                out_of_reach.append((r["key"], r.get("reason")))
        per = {}
        for o in r["obligations"]:
            solver_time += o.get("time") or 0.0
            backends[o.get("backend")] = backends.get(o.get("backend"), 0) + 1
            slot = per.setdefault(o["name"], {"instances": 0, "discharged": 0})
            slot["instances"] += 1
            if o["status"] == "discharged":
                slot["discharged"] += 1
                n_obl += 1
                n_dis += 1
                if len(samples) < 12 and o.get("backend") != "simplifier" and not any(s["obligation"] == o["name"] for s in samples):
                    samples.append({"obligation": o["name"], "kind": o.get("kind"), "backend": o.get("backend"),
                                    "seconds": o.get("time"), "function": r["key"]})
            elif o["status"] == "failed":
                hit = next((f for f in known if finding_matches(f, prop, o)), None)
                if hit is not None:
                    known_hits.append((hit, o, r))
                else:
                    n_obl += 1
                    violations.append((o, r))
            elif r["key"] in soft:
                # a thorough-only target: an obligation the solvers gave up on is reported, it does not decide the exit code
                n_obl += 1
                not_completed.append({"function": r["key"], "obligation": o["name"], "reason": str(o.get("reason"))[:200]})
            else:
                n_obl += 1
                undecided.append((o, r))
        fn["obligations"] = per
        assumptions.update(r.get("assumptions") or [])
        functions.append(fn)
    # a vacuous run (no obligation at all) is a checker error, not a success
    if results and n_obl + len(known_hits) == 0 and not checker_errors and not out_of_reach:
        checker_errors.append(("*", "zero obligations generated (vacuous run)", None))
    b_viol = []
    for b in bounded:
        if b.get("status") == "checker_error":
            checker_errors.append((b.get("name"), b.get("reason"), b.get("trace")))
        for v in b.get("violations", []):
            hit = next((f for f in known if f.get("status") == "known" and f.get("property") == prop
                        and f.get("bounded") == b.get("name")
                        and (f.get("case_class") == v.get("case_class")
                             or (f.get("case_class_glob") and fnmatch.fnmatchcase(v.get("case_class") or "", f["case_class_glob"])))
                        and (not f.get("detail_contains") or f["detail_contains"] in (v.get("detail") or ""))), None)
            if hit is not None:
                known_hits.append((hit, {"name": f"bounded:{b.get('name')}:{v.get('case_class')}"}, None))
            else:
                b_viol.append((b, v))
    # ---- replay files
    os.makedirs(os.path.join(OUT, "replays"), exist_ok=True)
    out_lines = []
    from . import replay
    for i, (o, r) in enumerate(violations[:20]):
        path = os.path.join(OUT, "replays", f"{prop}-{i}.json")
        rp = replay.try_replay(prop, P, r, o)
        doc = {"property": prop, "kind": "failed-obligation", "obligation": o["name"], "function": r["key"],
               "clause_kind": o.get("kind"), "exception": o.get("exception"), "where": o.get("where"),
               "backend": o.get("backend"), "solver_seconds": o.get("time"), "model": o.get("model"),
               "model_full": o.get("model_full"), "file": r.get("file"), "span": r.get("span"),
               "source_digest": r.get("digest"), "replayed": rp}
        with open(path, "w") as f:
            json.dump(doc, f, indent=1, default=str)
        if o.get("smt2"):
            with open(path[:-5] + ".smt2", "w") as f:
                f.write(o["smt2"])
        tail = "" if (rp and rp.get("failing_input_found")) else " no-failing-input-found"
        out_lines.append(f"VIOLATION property={prop} replay={path}{tail}")
    for i, (b, v) in enumerate(b_viol[:20]):
        path = os.path.join(OUT, "replays", f"{prop}-b{i}.json")
        with open(path, "w") as f:
            json.dump({"property": prop, "kind": "bounded-contract-fired", "bounded": b.get("name"), "case": v},
                      f, indent=1, default=str)
        out_lines.append(f"VIOLATION property={prop} replay={path}")
    seen_k = set()
    for hit, o, r in known_hits:
        k = hit.get("id") or hit.get("what")
        if k in seen_k:
            continue
        seen_k.add(k)
        out_lines.append(f"KNOWN-FINDING: property={prop} {hit.get('what')}")
    for o, r in undecided[:10]:
        out_lines.append(f"UNDECIDED obligation={o['name']} function={r['key']} reason={str(o.get('reason'))[:200]}")
    for key, why in out_of_reach:
        out_lines.append(f"OUT-OF-REACH function={key} reason={why}")
    for nc in not_completed[:20]:
        out_lines.append(f"NOT-COMPLETED (thorough-only target, does not decide the exit code) {nc.get('function')} {nc.get('obligation', '')} {nc.get('reason')}")
    for key, why, tr in checker_errors:
        out_lines.append(f"CHECKER-ERROR {key}: {why}")
        if tr:
            print(tr, file=sys.stderr)
    n_viol = len(violations) + len(b_viol)
    if checker_errors:
        code = 3
    elif n_viol:
        code = 1
    elif undecided or out_of_reach:
        code = 2
    else:
        code = 0
    # ---- evidence
    reg_assumptions = {}
    trusted = []
    try:
        from pyvc import dsl, builtins_model
        reg_assumptions = dict(dsl.REG.assumptions)
        for k, c in dsl.REG.contracts.items():
            if getattr(c, "trusted", False):
                trusted.append(f"trusted contract (body not verified): {k} -- {c.note}")
        for k, v in builtins_model.TRUSTED.items():
            trusted.append(f"external: {k} -- {v}")
        from pyvc import effects as _effects
        for k, v in _effects.TRUSTED.items():
            trusted.append(f"file-system model: {k} -- {v}")
        for k, v in builtins_model.AXIOMS.items():
            trusted.append(f"builtin axiom {k}: {v} (cross-checked against CPython on {ax_n} instances this run)")
    except Exception:
        pass
    level = P.level if code == 0 or P.level != "proof" else P.level
    cov = {
        "obligations": n_obl,
        "discharged": n_dis,
        "checker_cmd": f"./check {prop} --tier {args.tier}",
        "trusted_base": sorted(trusted) + ["pyvc VC generator incl. loop rules (pyvc/LOOPS.md)", "z3 4.x/5.x, cvc5 1.0"],
        "samples": samples or [{"note": "no solver-discharged obligation in this run"}],
        "functions_under_contract": functions,
        "distinct_obligation_clauses": sum(len(f["obligations"]) for f in functions),
        "solver_seconds": round(solver_time, 2),
        "backends": {str(k): v for k, v in backends.items()},
        "known_finding_obligations": [{"obligation": o["name"], "finding": h.get("what")} for h, o, _ in known_hits],
        "out_of_reach": [{"function": k, "reason": w} for k, w in out_of_reach],
        "undecided": [o["name"] for o, _ in undecided],
        "bounded_stand_ins": [{k: v for k, v in b.items() if k not in ("violations", "trace")} for b in bounded],
        "builtin_axiom_instances_checked": ax_n,
        "explanation": P.explanation,
        "thorough_targets_not_completed": not_completed,
        "proof_targets_of_the_thorough_tier_only": (list(getattr(P, "prove_thorough", [])) if args.tier == "quick" else []),
    }
    # exploration-style counters for bounded parts (measured)
    ev = sum(b.get("evaluations", 0) for b in bounded)
    dn = sum(b.get("distinct_nontrivial", 0) for b in bounded)
    if ev:
        cov["evaluations"] = ev
        cov["distinct_nontrivial"] = dn
        cov["rule"] = "; ".join(b.get("rule", "") for b in bounded if b.get("rule"))
        for b in bounded:
            for s in b.get("samples", [])[:3]:
                cov["samples"].append({"bounded": b.get("name"), "case": s})
    assum = sorted(set(list(assumptions) + [f"{k}: {v}" for k, v in reg_assumptions.items()] + PY_SEMANTICS + list(P.assumptions)))
    doc = {"property_id": prop, "tier": args.tier, "seed": seed, "level": P.level, "coverage": cov,
           "assumptions": assum, "wall_s": round(time.time() - t0, 2), "violations": n_viol,
           "exit_code": code}
    os.makedirs(os.path.join(OUT, "evidence"), exist_ok=True)
    with open(os.path.join(OUT, "evidence", f"{prop}.json"), "w") as f:
        json.dump(doc, f, indent=1, default=str)
    for ln in out_lines:
        print(ln)
    print(f"{prop} {args.tier}: functions={len(results)} obligations={n_obl} discharged={n_dis} violations={n_viol} "
          f"known={len(seen_k)} undecided={len(undecided)} out_of_reach={len(out_of_reach)} bounded={len(bounded)} "
          f"wall={doc['wall_s']}s exit={code}")
    return code
