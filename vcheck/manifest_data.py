"""Claims per property (source of MANIFEST.json, see tools/gen_manifest.py)."""

NOTES = ("Technique family: contract-based deductive verification of the real code. pyvc re-reads /repo's working tree on "
         "every run, extracts the functions under contract by qualified name and generates verification conditions from "
         "their ast (calls by contract, loop summaries, frame obligations); sidecar contracts and spec functions live in "
         "/verif/contracts. Where a function is out of pyvc's reach the same kind of contract is checked at run time on "
         "the real function over a stated small scope (rtc/, labelled bounded, never counted as proved). Exit codes: "
         "0 held, 1 violation, 2 undecided / out of reach, 3 checker error. PYVC_REPO=<dir> points a check at another "
         "tree (used for the seeded changes in /verif/seeded); VERIF_OUT=<dir> redirects evidence / replays.")

T_PROOF = "contracts + VC generation from the real ast, z3/cvc5"
T_MIXED = "contracts: VC generation from the real ast (z3/cvc5) for the functions in reach + run-time contracts over a stated bounded scope for the rest"
T_BOUNDED = "run-time contracts on the real functions over a stated bounded scope (bounded stand-in; nothing proved)"

ASSUMED_EVAL = ("Assumed: declared field types and literal well-formedness of the tree (WF), ACYCLIC (property C09), the "
                "paper lemma that the defining equations have a unique solution, trusted builtin axioms (cross-checked "
                "against CPython every run), the pyvc generator itself. ")

CLAIMS = {
    "C01": {"category": 'other', "technique": T_MIXED, "design_ref": 'DESIGN.md §5.1', "text": 'Proved on every run: expr_value, _visibility, Symbol/Choice.visibility, Symbol.bool_value and the bool / string branches of Symbol.str_value equal, for all trees and user states, the spec functions transcribed from the statement (set > visible user value > set default under direct deps > first true default > n/empty; select raises, imply raises when own deps hold and there is no effective user value; a user value counts only while the prompt is visible). The twelve numeric cases of str_value (int / hex / float x forced / user / default with and without active range) are proved by the thorough command only. Finalisation (folding inherited dependencies into prompt conditions) and whole-tree behaviour are bounded (rtc.drv_eval).', "note": ASSUMED_EVAL + 'Category is `other` because the quick command does not re-prove the numeric branches; known findings: see KNOWN_FINDINGS.jsonl (symbol operand of set for numeric targets, pick of a hidden choice member).'},

    "C02": {
        "category": "other", "technique": T_MIXED, "design_ref": "DESIGN.md §5.2",
        "text": ("Proved: Symbol.config_string equals the one-line spec (marker, name, value, quoting) for every type, "
                 "has_active_default_value equals the marker rule of defaults.rst and is only called on an evaluated option, "
                 "_escape is the quoting map. Bounded: write_config then load_config into a fresh instance reproduces "
                 "values and lines, reports nothing, and is byte-stable (with and without the deprecated block)."),
        "note": "The fix-point itself is decided only on the bounded scope stated in the evidence file; unescape∘escape is exercised there, not proved.",
    },
    "C03": {
        "category": "other", "technique": T_MIXED, "design_ref": "DESIGN.md §5.3",
        "text": ("Proved: every mutator of user state (Symbol.set_value / unset_value, Choice.set_value / unset_value, "
                 "_restore_default, _rec_invalidate_if_has_prompt) stores only well-formed values, leaves everything "
                 "unchanged when it rejects, and has invalidated the changed item before it returns; frame obligations show "
                 "the evaluators write nothing but caches and their two side results. Bounded: edge completeness of "
                 "_build_dep/_add_choice_deps (every symbol an option's evaluation can read lists it as dependent), closure "
                 "of _rec_invalidate, and incremental = recomputed = fresh instance = any read order after every step of "
                 "generated histories."),
        "note": "Symbol._rec_invalidate / Choice._rec_invalidate enter the proofs as assumed contracts (resets only; invalidates the receiver).",
    },
    "C04": {
        "category": "other", "technique": T_BOUNDED, "design_ref": "DESIGN.md §5.4",
        "text": ("Equivalence of two parsers over all programs is not decidable by a contract within reach. Bounded "
                 "differential contract on Kconfig.__init__ for parser_version 1 and 2: same accept/reject verdict, same menu "
                 "tree and expressions, same outputs, over the generated corpus plus hand-written multi-file sources."),
        "note": "Nothing is proved for this property; known divergences are listed in KNOWN_FINDINGS.jsonl.",
    },
    "C05": {
        "category": "proof", "technique": T_MIXED, "design_ref": "DESIGN.md §5.5",
        "text": ("Choice._selection_from_defaults, Choice._selection, Choice.selection, Choice.bool_value, the choice-member "
                 "branch of Symbol.bool_value and the selection bookkeeping of Symbol.set_value are proved, for all trees and "
                 "user states, equal to the statement's rule (user pick if visible, else first default whose condition holds "
                 "and whose member is visible, else first visible member; no selection unless the choice is visible)."),
        "note": (ASSUMED_EVAL + "Header/CMake/JSON agreement and the deferred application of member assignments in "
                 "_load_config are covered by the bounded stand-in (rtc.drv_eval), not proved."),
    },
    "C06": {"category": 'other', "technique": T_MIXED, "design_ref": 'DESIGN.md §5.6', "text": "Proved on every run: value_is_valid / set_value accept exactly the values of the option's type and store floats canonically, the header entry equals the one-entry spec (hex with 0x), the case split of str_value is exhaustive. The int, hex and float branches of str_value (well-formed result, precedence of sources, clamping into the active range with canonical re-rendering) are proved by the thorough command only. CMake / JSON generators and whole-run exception freedom are bounded (rtc.drv_eval).", "note": ASSUMED_EVAL + 'Known findings (literal syntax accepted by int(), symbol operand of set) are listed in KNOWN_FINDINGS.jsonl.'},

    "C07": {
        "category": "other", "technique": T_MIXED, "design_ref": "DESIGN.md §5.7",
        "text": ("Proved: the sdkconfig entry (config_string) and the C header entry (_header_string) are each equal to one "
                 "spec of (written?, type, value). Bounded: pairwise agreement of sdkconfig, header, CMake, JSON and auto.conf "
                 "and of every deprecated alias, parsed back by independent readers."),
        "note": "CMake/JSON writers are closures over an open file and the rename table is dict-heavy: out of pyvc's reach, bounded.",
    },
    "C08": {
        "category": "other", "technique": T_MIXED, "design_ref": "DESIGN.md §5.8",
        "text": ("Proved: the `# default:` marker predicate. Bounded: load of a tool-written file ≡ load with default-marked "
                 "entries removed (now and after edits), policy behaviour on changed trees, promptless entries ignored."),
        "note": "_load_config and resolve_defaults are out of pyvc's reach (400-line parser loop, report singleton).",
    },
    "C09": {"category": "other", "technique": T_BOUNDED, "design_ref": "DESIGN.md §5.9",
            "text": "Bounded: deliberately cyclic trees (one back edge of every kind) are rejected with an error naming the loop; every accepted tree evaluates without exception in every reached configuration.",
            "note": "The 3-colour loop detector memoises path-dependent results and is out of pyvc's reach; termination is not addressed."},
    "C10": {"category": "other", "technique": T_BOUNDED, "design_ref": "DESIGN.md §5.10",
            "text": "Bounded: the four minimal-config variants reload to the same values; labelled and unlabelled variants list the same assignments in the same order.",
            "note": "Nothing proved."},
    "C11": {"category": "other", "technique": T_BOUNDED, "design_ref": "DESIGN.md §5.11",
            "text": "Bounded: loading through a deprecated name ≡ loading through the new name (inversions, not-set lines, duplicates), never unknown, deprecated block ignored unless requested.",
            "note": "Nothing proved."},
    "C12": {"category": 'other', "technique": T_MIXED, "design_ref": 'DESIGN.md §5.12', "text": 'Proved over a file-system effect model: _contents_eq is exact and _write_if_changed performs no write effect when the file already holds the text. Bounded: touch decision = changed, nothing else touched, repeated sync idempotent, and no trigger lost when the sync is killed at every file-system operation (incl. short writes of auto.conf) and rerun.', "note": 'File-system model (pyvc/effects.py) is trusted; sync_deps itself (loop over options, _load_old_vals) is bounded only.'},
    "C13": {"category": 'other', "technique": T_MIXED, "design_ref": 'DESIGN.md §5.13', "text": 'Proved over a file-system effect model (ghost append-only trace): Kconfig.write_config / _write_if_changed / _contents_eq perform no write effect when the destination already holds the text; the effects of a save are exactly [backup effect on <file>.old]? . truncate(file) . write(file, text), the backup being an atomic replace (regular file) or a copy (symlink), so nothing touches the file before its backup exists. Bounded: every kconfgen format, modification times / inodes, and the crash clause on a real file system with a kill at every operation and short writes.', "note": 'Trusted: the file-system model and _config_contents / standard_config_filename (no write effects). The crash clause is decided on the bounded scope; the proved trace shape is what that argument rests on.'},
    "C14": {"category": 'other', "technique": T_MIXED, "design_ref": 'DESIGN.md §5.14', "text": "Proved: kconfserver.diff(before, after) returns exactly the entries of `after` that are new or changed (so overlaying replies keeps a client equal to the server on the server's keys). Bounded: the client-sync invariant over whole request histories and equality with a freshly started server on the saved file, protocol versions 1-3.", "note": "run_server's loop, get_visible / get_ranges and handle_* are bounded only. Known findings: ranges that become inactive are never retracted; defaults of hidden unwritten options."},
    "C15": {"category": "other", "technique": T_BOUNDED, "design_ref": "DESIGN.md §5.15",
            "text": "Bounded: one JSON reply line per request line, survival, error reporting and no effect of the offending part, over a catalogue of malformed and type-confused requests.",
            "note": "Nothing proved."},
    "C16": {"category": 'other', "technique": T_MIXED, "design_ref": 'DESIGN.md §5.16', "text": "Proved: MenuConfigState.needs_save() is exact with respect to the baseline fields -- it answers clean iff the file had no unknown entries, exists, and every option's recorded entry (value, default marker) equals the line Symbol.config_string would write now; config_string, has_active_default_value and set_value are proved against their specs. Bounded: the baseline fields are what the file says after load / save / reload, over UI-level histories.", "note": "Baseline establishment in _load_config is bounded. Known findings: hand-edited files that differ from the tool's output only in layout / duplicates / deprecated spellings are reported clean."},
    "C17": {"category": "other", "technique": T_BOUNDED, "design_ref": "DESIGN.md §5.17",
            "text": "Bounded: every public method of MenuConfigState preserves the state invariant and does not raise, over action sequences on generated trees; validator-accepted values are applied.",
            "note": "Nothing proved."},
    "C18": {"category": "other", "technique": T_BOUNDED, "design_ref": "DESIGN.md §5.18",
            "text": "Bounded: compliant files are left alone; whitespace-only defects converge under --replace to an equivalent OK file.",
            "note": "Nothing proved."},
    "C19": {"category": "other", "technique": T_BOUNDED, "design_ref": "DESIGN.md §5.19",
            "text": "Bounded: verdict = own scope only, independent of check order, over generated directory layouts.",
            "note": "Nothing proved."},
    "C20": {"category": "other", "technique": T_BOUNDED, "design_ref": "DESIGN.md §5.20",
            "text": "Bounded: reachable prompted options are documented, shown conditions are truth-preserving, no dangling :ref:, by brute force over small trees and targets.",
            "note": "Nothing proved."},
}

# properties not claimed yet (reason shown in MANIFEST.not_applicable); filled by tools/gen_manifest.py from the
# set of ENABLED checks below
ENABLED = ["C%02d" % i for i in range(1, 21)]

NOT_APPLICABLE = {}


# ---- later refinements of the claim texts (proved parts added after the first wiring) ----------------------------
CLAIMS["C06"]["text"] = ("Proved on every run: value_is_valid / set_value accept exactly the values of the option's type and store floats "
                         "canonically; two lemmas over the spec functions: the value the precedence rule prescribes for an int / hex / float "
                         "option (DEF_SV) is empty or well-formed for the type and lies inside the active range (a false canary lemma must stay "
                         "unprovable); the header entry (hex with 0x) and the JSON value (typed number, null when empty, computed without "
                         "raising for every well-formed value) equal their one-entry specs; the case split of str_value is exhaustive. That "
                         "the numeric branches of the real str_value compute exactly DEF_SV is proved by the thorough command only. CMake "
                         "and whole-run exception freedom are bounded (rtc.drv_eval).")
CLAIMS["C07"]["text"] = ("Proved: the sdkconfig entry (config_string), the C header entry (_header_string), the JSON value "
                         "(get_json_values.write_node) and the sdkconfig line of a deprecated alias (_deprecated_config_string: the replacement's "
                         "value, inverted exactly for `!` aliases of bools, independent of other aliases) are each equal to one spec function of "
                         "(written?, type, value), so these formats agree for all inputs. Bounded: CMake, auto.conf, the alias defines of the "
                         "header, the rename-table construction and whole-file agreement, parsed back by independent readers.")
CLAIMS["C07"]["note"] = "write_cmake's closure over an open file and the rename table (dict-heavy) are out of pyvc's reach: bounded. Known finding: inverted alias of a disabled bool is missing from the header."
CLAIMS["C11"]["category"] = "other"
CLAIMS["C11"]["technique"] = T_MIXED
CLAIMS["C11"]["text"] = ("Proved: the line written for a deprecated alias carries the replacement's value, inverted exactly for `!` aliases of "
                         "bools (what a later load of the deprecated block reads back). Bounded: loading through a deprecated name == loading "
                         "through the new name (inversions, not-set lines, duplicates), never unknown, deprecated block ignored unless requested.")
CLAIMS["C11"]["note"] = "_load_config's rename resolution and _parse_replacements are bounded only."
