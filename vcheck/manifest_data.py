"""Claims per property (source of MANIFEST.json, see tools/gen_manifest.py)."""

NOTES = ("Technique family: contract-based deductive verification of the real code. pyvc re-reads /repo's working tree on "
         "every run, extracts the functions under contract by qualified name and generates verification conditions from "
         "their ast; sidecar contracts and spec functions live in /verif/contracts. Exit codes: 0 held, 1 violation, "
         "2 undecided / out of reach, 3 checker error.")

CLAIMS = {
    "C05": {
        "category": "proof",
        "technique": "contracts + VC generation from the real ast, z3/cvc5",
        "design_ref": "DESIGN.md §5.5",
        "text": ("Choice._selection_from_defaults, Choice._selection, Choice.selection, Choice.bool_value and the choice-member "
                 "branch of Symbol.bool_value are proved, for all trees and user states, equal to the statement's rule (user pick "
                 "if visible, else first default whose condition holds and whose member is visible, else first visible member; "
                 "no selection unless the choice is visible), with the cache invariants preserved and no exception."),
        "note": ("Assumed: declared field types (WF), ACYCLIC (callees do not write the receiver's side-result fields), paper "
                 "lemma L1 (the defining equations have a unique solution), trusted builtin axioms cross-checked against CPython; "
                 "header/CMake/JSON agreement is carried by C07's renderer contracts; deferred application of several member "
                 "assignments in _load_config is not covered here."),
    },
}

NOT_APPLICABLE = {}
