"""Replay of solver counter-models against the real code (DESIGN §2.8).  Per contract family a scenario builder
turns the abstract model into a concrete input; where none exists (or the model cannot be realised) the
violation is reported with `no-failing-input-found` and the replay file carries the solver's output."""
import json
import os
import sys

BUILDERS = {}


def builder(prefix):
    def deco(fn):
        BUILDERS[prefix] = fn
        return fn
    return deco


def try_replay(prop, P, result, ob):
    for prefix, fn in BUILDERS.items():
        if result["key"].startswith(prefix) or ob["name"].startswith(prefix):
            try:
                return fn(prop, result, ob)
            except Exception as e:  # replay is evidence, never the deciding step
                return {"failing_input_found": False, "error": f"{type(e).__name__}: {e}"}
    return {"failing_input_found": False, "note": "no scenario builder for this contract family"}


def run_replay_file(prop, path):
    doc = json.load(open(path))
    print(json.dumps({k: doc.get(k) for k in ("property", "obligation", "function", "exception", "where", "replayed")},
                     indent=1, default=str))
    rp = doc.get("replayed") or {}
    script = rp.get("script") or (doc.get("case") or {}).get("script")
    if script:
        # the script exits 1 when the violation shows on the tree named by PYVC_REPO (default /repo), 0 otherwise
        import subprocess
        p = subprocess.run([sys.executable, "-c", script], capture_output=True, text=True,
                           env=dict(os.environ, PYVC_REPO=os.environ.get("PYVC_REPO", "/repo")))
        print(p.stdout[-2000:], p.stderr[-2000:])
        return 1 if p.returncode != 0 else 0
    print("no replay script: the replay file names the failed obligation and carries the solver's output")
    return 1
