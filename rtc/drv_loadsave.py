"""
rtc.drv_loadsave -- run-time contracts for loading and saving configurations.

Properties served: C02 (save/reload is a fixpoint), C08 (default-marked entries
never pin a value / defaults policy), C10 (minimal configuration reconstructs
the full one), C11 (a deprecated name behaves like its replacement).

The contracts are stated on the real functions of the project under test
(``Kconfig.write_config``, ``Kconfig.load_config``, ``Kconfig.write_min_config``,
``kconfgen.core.write_min_config``, ``Kconfig.load_rename_files``,
``Kconfig.eval_string``) and are evaluated on real executions.  Every oracle is
relational and comes from the property statement: "a fresh instance loaded
from the written file", "the same file with the default-marked entries
removed", "the same file spelled with the new names" (translated with the
rename MODEL the driver generated the rename files from, last mapping wins),
"the value a user assignment of the stored value would give" (acceptability of
a stored value).  Nothing of the value semantics of the library is
re-implemented.

The part of this file between the lines ``# === BEGIN STANDALONE CORE`` and
``# === END STANDALONE CORE`` depends only on the standard library and the
project under test; the "script" of a violation is that part followed by the
JSON description of the case, so a script replays exactly the contract code the
driver ran.

    cd /verif && .venv/bin/python -m rtc.drv_loadsave C02 quick 0 2>/dev/null
"""

import os
import sys

_REPO = os.environ.get("PYVC_REPO", "/repo")
if not sys.path or sys.path[0] != _REPO:
    sys.path.insert(0, _REPO)

# === BEGIN STANDALONE CORE ===================================================
import json  # noqa: E402
import re  # noqa: E402
import shutil  # noqa: E402
import tempfile  # noqa: E402

import esp_kconfiglib.core as K  # noqa: E402

ENV_VARS = (
    "KCONFIG_PARSER_VERSION", "srctree", "KCONFIG_WARN_UNDEF_ASSIGN", "CONFIG_", "KCONFIG_DEFAULTS_POLICY",
    "KCONFIG_PROMPTLESS_NO_WARN", "KCONFIG_CONFIG_HEADER", "KCONFIG_AUTOHEADER_HEADER", "KCONFIG_FUNCTIONS",
    "KCONFIG_WARN_UNDEF", "KCONFIG_STRICT", "KCONFIG_AUTOHEADER", "KCONFIG_CONFIG", "KCONFIG_REPORT_VERBOSITY",
    "COMPONENT_SDKCONFIG_RENAMES", "IDF_VERSION", "ESP_IDF_KCONFIG_MIN_LABELS",
)
DEP_BEGIN = "# Deprecated options for backward compatibility"
DEP_END = "# End of deprecated options"
MARKER = "# default:"
_STATE = {"silenced": False}


class LibFailure(Exception):
    """An exception raised by the library while a contract's precondition held."""

    def __init__(self, where, exc):
        Exception.__init__(self, "%s: %s: %s" % (where, type(exc).__name__, exc))
        self.where = where
        self.exc = exc


def lib(where, fn, *args, **kw):
    try:
        return fn(*args, **kw)
    except Exception as e:  # noqa: BLE001 - every library exception is a finding
        raise LibFailure(where, e)


class Env:
    """None of ENV_VARS is set inside the block except 'overrides'; restored on exit."""

    def __init__(self, overrides=None):
        self.overrides = dict(overrides or {})
        self.saved = {}

    def __enter__(self):
        for name in ENV_VARS:
            if name in os.environ:
                self.saved[name] = os.environ.pop(name)
        for name, val in sorted(self.overrides.items()):
            os.environ[name] = val
        return self

    def __exit__(self, *exc):
        for name in self.overrides:
            os.environ.pop(name, None)
        for name, val in self.saved.items():
            os.environ[name] = val
        return False


def reset_report():
    """The library keeps ONE KconfigReport per process; clear it so that only the next load is observed."""
    inst = getattr(K.KconfigReport, "_instance", None)
    if inst is not None and getattr(inst, "_initialized", False):
        inst.reset()


def _silence():
    if not _STATE["silenced"]:
        try:
            from esp_pylib.logger import Verbosity, log

            log.set_verbosity(Verbosity.SILENT)
        except Exception:  # noqa: BLE001
            pass
        _STATE["silenced"] = True


class Work:
    """Scratch directory of one case: tree directories, slot files, written configurations."""

    def __init__(self):
        shm = "/dev/shm"  # tmpfs when available: the cases create and delete many small files
        base = shm if os.path.isdir(shm) and os.access(shm, os.W_OK | os.X_OK) else None
        self.dir = tempfile.mkdtemp(prefix="rtcls", dir=base)
        self.trees = {}

    def new_case(self):
        """Forget the files of the previous case (tree directories are kept: they only depend on the tree)."""
        for name in os.listdir(self.dir):
            p = os.path.join(self.dir, name)
            if os.path.isfile(p):
                os.unlink(p)

    def close(self):
        shutil.rmtree(self.dir, ignore_errors=True)

    def path(self, name):
        return os.path.join(self.dir, name)

    def write(self, name, text):
        p = self.path(name)
        with open(p, "w", encoding="utf-8", newline="\n") as f:
            f.write(text)
        return p

    def read(self, p):
        with open(p, "r", encoding="utf-8", newline="") as f:
            return f.read()

    def tree_dir(self, tree):
        key = json.dumps([tree["text"], tree.get("renames") or []])
        d = self.trees.get(key)
        if d is None:
            d = os.path.join(self.dir, "t%d" % len(self.trees))
            os.mkdir(d)
            with open(os.path.join(d, "Kconfig"), "w", encoding="utf-8", newline="\n") as f:
                f.write(tree["text"])
            for i, text in enumerate(tree.get("renames") or []):
                with open(os.path.join(d, "sdkconfig.rename%d" % i), "w", encoding="utf-8", newline="\n") as f:
                    f.write(text)
            self.trees[key] = d
        return d

    def kconf(self, tree, policy=None):
        """FRESH instance of 'tree' ({"text", "renames": [...], "pv"}), rename files loaded, report cleared."""
        d = self.tree_dir(tree)
        reset_report()
        with Env({"KCONFIG_DEFAULTS_POLICY": policy} if policy else None):
            k = lib("Kconfig()", K.Kconfig, os.path.join(d, "Kconfig"), parser_version=tree.get("pv", 1))
            rn = tree.get("renames") or []
            if rn:
                lib("load_rename_files", k.load_rename_files,
                    [os.path.join(d, "sdkconfig.rename%d" % i) for i in range(len(rn))])
        _silence()
        return k


def ckey(i, name):
    return "choice:%d:%s" % (i, name or "")


def snap(k):
    """name -> (str_value, visibility, assignable, config_string, written) for every option; choice key -> selection."""
    out = {}
    for s in k.unique_defined_syms:
        sv = s.str_value
        vis = s.visibility
        asg = s.assignable
        cs = s.config_string
        out[s.name] = (sv, vis, tuple(asg), cs, bool(s._write_to_conf))
    for i, c in enumerate(k.unique_choices):
        sel = c.selection
        out[ckey(i, c.name)] = sel.name if sel is not None else None
    return out


def values(k):
    out = {}
    for s in k.unique_defined_syms:
        out[s.name] = s.str_value
    for i, c in enumerate(k.unique_choices):
        sel = c.selection
        out[ckey(i, c.name)] = sel.name if sel is not None else None
    return out


def ustate(k):
    """Everything the user (or a loaded file) has set: option -> user value, choice key -> user selection."""
    out = {}
    for s in k.unique_defined_syms:
        if s._user_value is not None:
            out[s.name] = s._user_value
    for i, c in enumerate(k.unique_choices):
        if c._user_selection is not None:
            out[ckey(i, c.name)] = c._user_selection.name
    return out


_FIELDS = ("value", "visibility", "assignable", "config_string", "written")


def sym_tag(k, name):
    s = k.syms.get(name)
    if s is None or not s.nodes:
        return "undefined"
    t = K.TYPE_TO_STR.get(s.orig_type, "unknown")
    if s.choice is not None:
        t += "-member"
    if all(n.prompt is None for n in s.nodes):
        t += "-promptless"
    elif len(s.nodes) > 1 and any(n.prompt is None for n in s.nodes):
        t += "-multidef-mixed"
    return t


def diff_kind(k, name, va, vb):
    """Stable description of the first field in which two snapshot entries of 'name' differ."""
    if name.startswith("choice:"):
        return "selection"
    for f, x, y in zip(_FIELDS, va, vb):
        if x != y:
            if f == "config_string" and x.replace(MARKER + "\n", "") == y.replace(MARKER + "\n", ""):
                f = "marker-" + ("lost" if x.startswith(MARKER) else "gained")
            return "%s:%s" % (f, sym_tag(k, name))
    return "none"


def dict_diff(a, b, limit=5):
    out = []
    for name in a:
        if name not in b or a[name] != b[name]:
            out.append([name, a[name], b.get(name, "<absent>")])
    for name in b:
        if name not in a:
            out.append([name, "<absent>", b[name]])
    return out[:limit]


_SET_RE = re.compile(r"CONFIG_([^=]+)=(.*)")
_UNSET_RE = re.compile(r"# CONFIG_([^ ]+) is not set")


def entries(text):
    """[(name, raw value or None for 'is not set', marked, in_deprecated_block)] of an sdkconfig text, in order."""
    out = []
    marked = False
    dep = False
    for line in text.split("\n"):
        s = line.rstrip()
        st = s.strip()
        if st == MARKER:
            marked = True
            continue
        if st == DEP_BEGIN:
            dep, marked = True, False
            continue
        if st == DEP_END:
            dep, marked = False, False
            continue
        m = _SET_RE.match(s)
        if m:
            out.append((m.group(1), m.group(2), marked, dep))
            marked = False
            continue
        m = _UNSET_RE.match(s)
        if m:
            out.append((m.group(1), None, marked, dep))
            marked = False
    return out


def strip_marked(text, pred):
    """Remove every '# default:' line together with the assignment line that follows it when pred(name)."""
    lines = text.split("\n")
    out = []
    i = 0
    while i < len(lines):
        if lines[i].strip() == MARKER and i + 1 < len(lines):
            nxt = lines[i + 1].rstrip()
            m = _SET_RE.match(nxt) or _UNSET_RE.match(nxt)
            if m and pred(m.group(1)):
                i += 2
                continue
        out.append(lines[i])
        i += 1
    return "\n".join(out)


def strip_block(text):
    """Remove the deprecated-options block (markers included)."""
    out = []
    dep = False
    for line in text.split("\n"):
        st = line.strip()
        if st == DEP_BEGIN:
            dep = True
            continue
        if st == DEP_END:
            dep = False
            continue
        if not dep:
            out.append(line)
    return "\n".join(out)


def diagnostics(k):
    rep = k.report
    dva = rep.area_to_instance[K.DefaultValuesArea]
    maa = rep.area_to_instance[K.MultipleAssignmentArea]

    def cname(n):
        return "nameless" if n.startswith("nameless") else n

    return {
        "changed_defaults": sorted([r[0], r[1], r[2]] for r in dva.changed_defaults),
        "changed_choices": sorted([cname(r[0]), r[1], r[2]] for r in dva.changed_choices),
        "promptless": sorted([r[0], r[1], r[2], bool(r[3])] for r in dva.changed_values_promptless),
        "multi_sym": sorted(s.name for s in maa.multiple_assignments_sym),
        "multi_choice": sorted((c.name or "nameless") for c in maa.multiple_assignments_choice),
        "missing": [list(x) for x in k.missing_syms],
    }


def raw_value(k, name, raw):
    """The value an entry 'CONFIG_name=raw' / '# CONFIG_name is not set' (raw None) denotes, as a str_value string."""
    s = k.syms.get(name)
    if raw is None:
        return "n"
    if s is not None and s.orig_type == K.STRING or raw.startswith('"'):
        m = re.match(r'"(.*)"$', raw)
        return K.unescape(m.group(1)) if m else raw
    return raw


def has_prompt(k, name):
    s = k.syms.get(name)
    return s is not None and bool(s.nodes) and any(n.prompt is not None for n in s.nodes)


def numeric_set_sym_target(k, name):
    """Class suffix only (never part of an oracle): 'name' is an int / hex / float option that is the target of a
    `set` / `set default` whose operand is not a literal of its type (i.e. a symbol).  KNOWN_FINDINGS root cause
    precedence:<type>:set-sym / *:numeric-target-of-set-with-symbol-operand: the numeric branches of Symbol.str_value
    take the operand's name for a malformed literal, stop, and leave _has_active_indirect_set as the PREVIOUS
    evaluation left it, so the value depends on the evaluation history (a fresh instance disagrees)."""
    s = k.syms.get(name)
    if s is None or s.orig_type not in (K.INT, K.HEX, K.FLOAT):
        return False
    for v, _c, _s in list(s.rev_values) + list(s.weak_rev_values):
        ok = K.is_float(v.name) if s.orig_type == K.FLOAT else K._is_base_n(v.name, 16 if s.orig_type == K.HEX else 10)
        if not ok:
            return True
    return False


def injected_state(k, pristine):
    """Class suffix only (never part of an oracle): options of 'k' that carry an *injected default* (a stale
    default-marked entry kept by policy sdkconfig as the option's first default) and keys of the choices whose default
    list differs from that of 'pristine' (a fresh instance of the same tree)."""
    out = set(s.name for s in k.unique_defined_syms if getattr(s, "_default_value_injected", False))
    for i, (c, p) in enumerate(zip(k.unique_choices, pristine.unique_choices)):
        if [getattr(d[0], "name", None) for d in c.defaults] != [getattr(d[0], "name", None) for d in p.defaults]:
            out.add(ckey(i, c.name))
    return out


def apply_op(k, op, w):
    kind = op[0]
    if kind == "set":
        return k.syms[op[1]].set_value(op[2])
    if kind == "unset":
        return k.syms[op[1]].unset_value()
    if kind == "reset":
        return K._restore_default(k.syms[op[1]].nodes[0])
    if kind == "pick":
        return k.syms[op[1]].set_value(2)
    if kind == "choice_unset":
        return k.unique_choices[int(op[1].split(":")[1])].unset_value()
    if kind == "save":
        return k.write_config(w.path("slot_" + op[1]))
    if kind == "load":
        p = w.path("slot_" + op[1])
        return k.load_config(p, replace=bool(op[2])) if os.path.exists(p) else None
    if kind == "hand":
        return k.load_config(w.write("hand.cfg", op[1]), replace=bool(op[2]))
    raise ValueError("unknown op %r" % (op,))


def run_ops(k, ops, w, where="history"):
    for op in ops:
        lib("%s:%s" % (where, op[0]), apply_op, k, op, w)


class Out:
    def __init__(self, case):
        self.case = case
        self.viol = []
        self.evals = 0
        self.nontrivial = None

    def bad(self, case_class, contract, detail):
        self.viol.append({"case_class": case_class, "contract": contract, "detail": detail})

    def result(self):
        return {"viol": self.viol, "evals": self.evals, "nontrivial": self.nontrivial}


def _j(x):
    return json.dumps(x, sort_keys=True, default=str)


# ---------------------------------------------------------------------------
# --- SECTION C02 ---
# C02  write_config / load_config fixpoint
# ---------------------------------------------------------------------------

C02_CONTRACTS = [
    "Kconfig.load_config(f) on a FRESH instance, f = Kconfig.write_config() of a configuration reached by a history "
    "(set/unset/reset/pick/choice_unset, save, load/merge of tool-written files, load/merge of hand-written files "
    "without default markers): complete snapshot after the load (value, visibility, assignable values, config_string "
    "incl. '# default:' marker, written flag of every option; selection of every choice) == the writer's snapshot",
    "same load: DefaultValuesArea.changed_defaults / changed_choices / changed_values_promptless, "
    "MultipleAssignmentArea (symbols and choices) and Kconfig.missing_syms are all empty",
    "Kconfig.write_config() of the reloaded instance: bytes == f",
    "the same three for f = write_config(write_deprecated=True) on trees with rename files, loaded with "
    "load_deprecated=False and load_deprecated=True; second write also with write_deprecated=True",
]


def _classify_rewrite(k, t1, t2):
    e1 = entries(t1)
    e2 = entries(t2)
    if [(n, v) for n, v, _, _ in e1] == [(n, v) for n, v, _, _ in e2]:
        for a, b in zip(e1, e2):
            if a[2] != b[2]:
                return "marker-%s:%s" % ("lost" if a[2] else "gained", sym_tag(k, a[0]))
        return "layout"
    n1 = [n for n, _, _, _ in e1]
    n2 = [n for n, _, _, _ in e2]
    if n1 != n2:
        odd = [n for n in n1 if n not in n2] + [n for n in n2 if n not in n1]
        return "entries:%s" % (sym_tag(k, odd[0]) if odd else "order")
    for a, b in zip(e1, e2):
        if a[1] != b[1]:
            return "value:%s%s" % (sym_tag(k, a[0]), _C02_SET_SYM if numeric_set_sym_target(k, a[0]) else "")
    return "other"


# class suffixes that name a root cause recorded in KNOWN_FINDINGS (suffix only, the oracles do not look at them)
_C02_SET_SYM = ":numeric-target-of-set-with-symbol-operand"
_C02_INJECTED = ":writer-injected-default"


def _c02_roundtrip(out, w, tree, A, snap_a, pfx, wkw, lkw):
    tag = "C02" + pfx
    p1 = w.path("f1" + pfx.replace(":", "_"))
    kws = ",".join("%s=%s" % kv for kv in sorted(list(wkw.items()) + list(lkw.items())))
    lib("write_config(%s)" % kws, A.write_config, p1, **wkw)
    t1 = w.read(p1)
    B = w.kconf(tree)
    reset_report()
    lib("load_config(%s)" % kws, B.load_config, p1, **lkw)
    diag = diagnostics(B)
    snap_b = lib("snapshot", snap, B)
    out.evals += 3
    inj = None
    d = dict_diff(snap_a, snap_b)
    if d:
        kinds = sorted({(diff_kind(B, n, x, y), n) for n, x, y in d if y != "<absent>"})
        kind = kinds[0][0] if kinds else "absent"
        if kinds and kind.startswith("value:") and numeric_set_sym_target(B, kinds[0][1]):
            kind += _C02_SET_SYM
        out.bad("%s:reload:%s" % (tag, kind), C02_CONTRACTS[0],
                "writer vs reloaded snapshot differ: %s; file:\n%s" % (_j(d), t1))
    for area in ("changed_defaults", "changed_choices", "promptless", "multi_sym", "multi_choice", "missing"):
        if diag[area]:
            first = diag[area][0]
            nm = first if isinstance(first, str) else first[0]
            t = "" if area in ("changed_choices", "multi_choice") else ":" + sym_tag(B, nm)
            if area == "changed_defaults" and numeric_set_sym_target(B, nm):
                t += _C02_SET_SYM
            elif area in ("changed_defaults", "changed_choices"):
                # The writer's state carried an injected default for exactly this option / choice (it had loaded or
                # merged a tool-written file whose default-marked entries were stale for its user values, default
                # policy sdkconfig): the written file marks the injected value as default and every load reports it
                # again.  One root cause whatever the type: the class names the cause instead of the type.
                if inj is None:
                    inj = injected_state(A, w.kconf(tree))  # (the report of B was read above; B itself is not touched)
                if area == "changed_defaults":
                    hit = nm in inj
                else:
                    hit = any(key in inj and (c.name or "nameless") == nm
                              for key, c in ((ckey(i, c.name), c) for i, c in enumerate(A.unique_choices)))
                if hit:
                    t = _C02_INJECTED
            out.bad("%s:diag:%s%s" % (tag, area, t), C02_CONTRACTS[1],
                    "loading the tool-written file reported %s = %s; file:\n%s" % (area, _j(diag[area]), t1))
    p2 = w.path("f2" + pfx.replace(":", "_"))
    lib("write_config(reloaded,%s)" % kws, B.write_config, p2, **wkw)
    t2 = w.read(p2)
    if t2 != t1:
        out.bad("%s:rewrite:%s" % (tag, _classify_rewrite(B, t1, t2)), C02_CONTRACTS[2],
                "second write differs from the first.\n--- first\n%s--- second\n%s" % (t1, t2))
    return t1


def check_c02(case, w, out):
    tree = case["tree"]
    A = w.kconf(tree)
    run_ops(A, case["ops"], w)
    snap_a = lib("snapshot", snap, A)
    t1 = _c02_roundtrip(out, w, tree, A, snap_a, "", {}, {})
    ents = entries(t1)
    if any(not m for _, _, m, _ in ents):
        out.nontrivial = _j([tree["text"], t1])
    if tree.get("renames"):
        for ld in (False, True):
            n0 = len(out.viol)
            try:
                _c02_roundtrip(out, w, tree, A, snap_a, ":dep:ld%d" % ld, {"write_deprecated": True}, {"load_deprecated": ld})
            finally:
                # a class that already fired for the file without the block is not repeated for the file with it
                seen = {v["case_class"] for v in out.viol[:n0]}
                out.viol[n0:] = [v for v in out.viol[n0:]
                                 if re.sub(r":dep:ld\d", "", v["case_class"]) not in seen
                                 and v["case_class"].replace(":dep:ld1", ":dep:ld0") not in seen]


# ---------------------------------------------------------------------------
# --- SECTION C08 ---
# C08  default-marked entries / defaults policy
# ---------------------------------------------------------------------------

C08_CONTRACTS = [
    "Kconfig.load_config(f), f tool-written, UNCHANGED tree, policies sdkconfig and kconfig: snapshot and user state "
    "== those of a fresh instance loading f with every '# default:' entry removed -- directly after the load and "
    "after every step of the same later edit sequence applied to both instances",
    "same load: every unmarked entry of f that carries a value is a user value afterwards (Symbol._user_value is not "
    "None; the y member of an unmarked choice is Choice._user_selection); 'CONFIG_X=' with nothing after the '=' for "
    "an int / hex / float option (the option has no value at all) carries none",
    "CHANGED tree (one default / condition / prompt / option changed between writing and loading), policy kconfig: "
    "load_config(f) == load_config(f without default-marked entries), snapshot and user state, now and after edits",
    "CHANGED tree, policy sdkconfig: load_config(f) == load_config(f without the default-marked entries of options "
    "that are promptless in the new tree), now and after edits; no default-marked entry becomes a user value",
    "CHANGED tree, policy sdkconfig: every default-marked entry X=v of a prompted non-choice option has "
    "X.str_value == v after the load, unless v is not acceptable (a user assignment X.set_value(v) on an identically "
    "loaded instance does not yield v: invisible, out of range, invalid, forced); a default-marked choice keeps its "
    "stored selection unless selecting it by hand is impossible",
    "CHANGED tree, both policies: every default-marked entry X=v of a prompted non-choice option that is still part of "
    "the configuration under policy kconfig (visible, or invisible but written out with its Kconfig default) and whose "
    "Kconfig value (value under policy kconfig) differs from v is in DefaultValuesArea.changed_defaults under policy "
    "kconfig, and the changed option itself also under policy sdkconfig; same for a default-marked visible choice "
    "and changed_choices (also when the stored member itself is not visible any more). Entries of options / choices "
    "that the new tree switches off (invisible and not written out) are like entries of removed options: nothing is "
    "expected for them",
    "CHANGED tree, policy sdkconfig, two or more default-marked choices in f: load_config(f) is a function of tree, "
    "file and policy -- fresh instances loading the same f give the same snapshot and the same changed_defaults / "
    "changed_choices records",
]


def _pair_compare(out, w, B, R, edits, tag, contract, ctx, value_cls=None):
    """Compare B and R now and after every edit; returns False after the first snapshot difference.
    'value_cls': class to report a snapshot difference under instead of tag:after-load|after-edit:<kind> (naming only)."""
    steps = [None] + list(edits)
    out.evals += len(steps)
    ustate_diff = None
    for i, op in enumerate(steps):
        if op is not None:
            lib("edit:%s" % op[0], apply_op, B, op, w)
            lib("edit:%s" % op[0], apply_op, R, op, w)
        sb = lib("snapshot", snap, B)
        sr = lib("snapshot", snap, R)
        d = dict_diff(sb, sr)
        if d:
            kinds = sorted({diff_kind(B, n, x, y) for n, x, y in d})
            out.bad(value_cls or "%s:%s:%s" % (tag, "after-load" if i == 0 else "after-edit", kinds[0]), contract,
                    "%s; after %s: full-file instance vs reference instance differ: %s" % (ctx, _j(steps[1:i + 1]), _j(d)))
            return False
        if ustate_diff is None and i == 0:
            ub = ustate(B)
            ur = ustate(R)
            if ub != ur:
                ustate_diff = dict_diff(ub, ur)
    if ustate_diff:
        # no observable difference in the whole edit sequence, but the loads left different user values behind
        d = ustate_diff
        out.bad("%s:user-state-only:%s" % (tag, sym_tag(B, d[0][0]) if not d[0][0].startswith("choice:") else "choice"), contract,
                "%s; user values after the load differ (full file vs reference), no value difference during %s: %s"
                % (ctx, _j(steps[1:]), _j(d)))
    return True


def _c08_rival(s):
    """Class suffix only (never part of an oracle): what competes with a stored default that was not kept."""
    if s.orig_type == K.BOOL:
        if K.expr_value(s.weak_rev_dep):
            return ":implied"
    elif any(K.expr_value(cond) for _, cond, _ in s.weak_rev_values):
        return ":set-default-target"
    if len(s.nodes) > 1:
        return ":multi-def"
    if s.orig_type == K.STRING and s._sdkconfig_value in ("y", "n"):
        return ":value-y-or-n"
    return ""


def _c08_sig(k):
    """What a load left behind, as far as default-marked prompted entries can influence it (call right after the load)."""
    d = diagnostics(k)
    return _j([lib("snapshot", snap, k), d["changed_defaults"], d["changed_choices"]])


def _c08_load_varies(out, w, new, policy, pf, sig_b, tag, ctx):
    """True (and a violation of C08_CONTRACTS[6]) iff some fresh instance loading the SAME file differs from sig_b."""
    out.evals += 1
    for _ in range(40):
        X = w.kconf(new, policy)
        reset_report()
        lib("load_config", X.load_config, pf)
        sig_x = _c08_sig(X)
        if sig_x != sig_b:
            a, b = json.loads(sig_b), json.loads(sig_x)
            out.bad("%s:load-not-deterministic:marked-choices" % tag, C08_CONTRACTS[6],
                    "%s; two fresh instances loading this file disagree: changed_choices %s vs %s, changed_defaults %s "
                    "vs %s, snapshot difference %s" % (ctx, _j(a[2]), _j(b[2]), _j(a[1]), _j(b[1]), _j(dict_diff(a[0], b[0]))))
            return True
    return False


def check_c08(case, w, out):
    old = case["tree"]
    new = case.get("new") or old
    changed = case.get("new") is not None
    mut = case.get("mut") or {}
    A = w.kconf(old)
    run_ops(A, case["ops"], w)
    pf = w.path("written.cfg")
    lib("write_config", A.write_config, pf)
    text = w.read(pf)
    ents = [e for e in entries(text) if not e[3]]
    N0 = w.kconf(new)
    tag0 = "C08:changed" if changed else "C08:same"
    # Naming only: the WRITER's state carried injected defaults (it had loaded / merged a tool-written file whose
    # default-marked entries were stale for its user values, default policy sdkconfig).  The file then marks values as
    # default that are not the tree's defaults, and under policy sdkconfig every load of it pins them again: one root
    # cause, reported under one class whatever option shows the difference first (first clause, policy sdkconfig only;
    # under policy kconfig such entries are ignored and the comparison keeps its usual classes).
    winj = bool(injected_state(A, N0)) if not changed else False
    edit_seqs = case.get("edits") or [[]]
    mch = {}
    for n, raw, m, _ in ents:
        sy = N0.syms.get(n)
        if sy is not None and sy.nodes and sy.choice is not None:
            mch[id(sy.choice)] = mch.get(id(sy.choice), True) and m
    n_marked_choices = sum(1 for v in mch.values() if v)
    e_k = None
    e_k_choices = None
    interesting = False
    for policy in ("kconfig", "sdkconfig"):
        if policy == "kconfig" or not changed:
            ref_text = strip_marked(text, lambda n: True)
            contract = C08_CONTRACTS[2] if changed else C08_CONTRACTS[0]
        else:
            ref_text = strip_marked(text, lambda n: not has_prompt(N0, n))
            contract = C08_CONTRACTS[3]
        pr = w.write("reference_%s.cfg" % policy, ref_text)
        tag = "%s:%s" % (tag0, policy)
        ctx = "policy %s; written file:\n%s" % (policy, text)
        diag = None
        snap_b0 = None
        seqs = list(edit_seqs)
        if not changed and policy == "kconfig":
            seqs = seqs[-1:]  # unchanged tree: all sequences under the default policy, the last one under policy kconfig
        multi = changed and policy == "sdkconfig" and n_marked_choices >= 2
        if multi:
            # the library resolves default-marked choices in the iteration order of a set of objects (address
            # dependent): repeat the load with fresh instances so that both orders are seen with probability 1 - 2^-5
            seqs = seqs * 6
        for si, edits in enumerate(seqs):
            B = w.kconf(new, policy)
            reset_report()
            lib("load_config", B.load_config, pf)
            sig_b = _c08_sig(B) if multi else None
            if si == 0:
                diag = diagnostics(B)
                snap_b0 = lib("snapshot", snap, B)
                ub0 = ustate(B)
                ch_vis0 = [c.visibility for c in B.unique_choices]
                # unmarked entries are user values (only meaningful where the option still exists with a prompt)
                for name, raw, marked, _ in ents:
                    if marked or not has_prompt(B, name):
                        continue
                    s = B.syms[name]
                    if raw == "" and s.orig_type in (K.INT, K.HEX, K.FLOAT):
                        # 'CONFIG_X=': the option had no value at all when the file was written (no default in
                        # effect, user value rejected as out of range). The entry carries no value that could be
                        # restored as a user value ("" is not an int / hex / float).
                        continue
                    out.evals += 1
                    if s._user_value is None and not changed:
                        out.bad("%s:unmarked-not-user:%s" % (tag, sym_tag(B, name)), C08_CONTRACTS[1],
                                "%s; unmarked entry %s=%r has no user value after the load" % (ctx, name, raw))
                    if s.choice is not None and raw == "y" and s.choice._user_selection is not s and not changed:
                        out.bad("%s:unmarked-not-user-selection" % tag, C08_CONTRACTS[1],
                                "%s; unmarked entry %s=y is not the user selection of its choice" % (ctx, name))
                if changed and policy == "sdkconfig":
                    for name, raw, marked, _ in ents:
                        if marked and name in ub0:
                            out.bad("%s:marked-became-user:%s" % (tag, sym_tag(B, name)), C08_CONTRACTS[3],
                                    "%s; default-marked entry %s became a user value %r" % (ctx, name, ub0[name]))
            R = w.kconf(new, policy)
            lib("load_config(reference)", R.load_config, pr)
            if multi and _c08_sig(R) != sig_b and _c08_load_varies(out, w, new, policy, pf, sig_b, tag, ctx):
                break  # the load itself has more than one outcome: comparing two instances says nothing
            if not _pair_compare(out, w, B, R, edits, tag, contract, ctx,
                                 "%s:pinned-by-writer-injected-default" % tag if winj and policy == "sdkconfig" else None):
                break
        if not changed:
            if any(m and has_prompt(N0, n) for n, _, m, _ in ents):
                interesting = True
            continue
        # ---- changed tree: expectations on kept values and on the report
        marked_syms = [(n, raw_value(N0, n, raw)) for n, raw, m, _ in ents
                       if m and has_prompt(N0, n) and N0.syms[n].choice is None]
        marked_choices = {}
        for n, raw, m, _ in ents:
            s = N0.syms.get(n)
            if s is not None and s.nodes and s.choice is not None:
                idx = N0.unique_choices.index(s.choice)
                rec = marked_choices.setdefault(idx, {"all_marked": True, "y": []})
                rec["all_marked"] = rec["all_marked"] and m
                if raw == "y":
                    rec["y"].append(n)
        marked_choices = {i: r for i, r in marked_choices.items() if r["all_marked"] and len(r["y"]) == 1}
        reported = {r[0] for r in diag["changed_defaults"]}
        reported_ch = {r[0] for r in diag["changed_choices"]}
        if policy == "kconfig":
            e_k = {}
            for n, v in marked_syms:
                if n not in ub0 and snap_b0[n][0] != v:
                    if snap_b0[n][1] > 0:
                        e_k[n] = (v, snap_b0[n][0], sym_tag(B, n))
                    elif snap_b0[n][4]:
                        # not visible, but still written out with a Kconfig default that is not the stored one
                        e_k[n] = (v, snap_b0[n][0], "invisible-still-written")
                    # else: the new tree switches the option off (invisible, not written): like a removed option
            e_k_choices = {}
            for idx, rec in marked_choices.items():
                ch = N0.unique_choices[idx]
                key = ckey(idx, ch.name)
                if key not in ub0 and snap_b0[key] != rec["y"][0] and ch_vis0[idx] > 0:
                    # (an invisible choice has no selection and none of its members is written: switched off)
                    e_k_choices[idx] = (rec["y"][0], snap_b0[key],
                                        "" if snap_b0[rec["y"][0]][1] > 0 else ":stored-member-invisible")
            if e_k or e_k_choices:
                interesting = True
            for n, (v, kv, shape) in sorted(e_k.items()):
                out.evals += 1
                if n not in reported:
                    out.bad("%s:mismatch-not-reported:%s" % (tag, shape), C08_CONTRACTS[5],
                            "%s; stored default %s=%r differs from the Kconfig value %r but changed_defaults = %s"
                            % (ctx, n, v, kv, _j(diag["changed_defaults"])))
            for idx, (sel, ksel, shape) in sorted(e_k_choices.items()):
                out.evals += 1
                nm = N0.unique_choices[idx].name or "nameless"
                if nm not in reported_ch:
                    out.bad("%s:choice-mismatch-not-reported%s" % (tag, shape), C08_CONTRACTS[5],
                            "%s; stored default selection %s of choice %s differs from the Kconfig selection %r but "
                            "changed_choices = %s" % (ctx, sel, nm, ksel, _j(diag["changed_choices"])))
        else:
            m_name = mut.get("name")
            if m_name in (e_k or {}):
                out.evals += 1
                v, kv, shape = e_k[m_name]
                if m_name not in reported:
                    out.bad("%s:mismatch-not-reported:%s" % (tag, shape),
                            C08_CONTRACTS[5],
                            "%s; changed option %s: stored default %r differs from the Kconfig value %r but "
                            "changed_defaults = %s" % (ctx, m_name, v, kv, _j(diag["changed_defaults"])))
            if mut.get("choice") is not None and mut["choice"] in (e_k_choices or {}):
                out.evals += 1
                sel, ksel, shape = e_k_choices[mut["choice"]]
                nm = N0.unique_choices[mut["choice"]].name or "nameless"
                if nm not in reported_ch:
                    out.bad("%s:choice-mismatch-not-reported%s" % (tag, shape), C08_CONTRACTS[5],
                            "%s; changed choice %s: stored default selection %s differs from the Kconfig selection %r "
                            "but changed_choices = %s" % (ctx, nm, sel, ksel, _j(diag["changed_choices"])))
            # stored values are kept
            P = None
            for n, v in marked_syms:
                out.evals += 1
                if snap_b0[n][0] == v:
                    continue
                if P is None:
                    P = w.kconf(new, policy)
                    lib("load_config(probe)", P.load_config, pf)
                s = P.syms[n]
                before = s.str_value
                lib("probe:set_value", s.set_value, (2 if v == "y" else 0) if s.orig_type == K.BOOL else v)
                ok = s.str_value == v
                s.unset_value()
                if ok and s.str_value == before:
                    out.bad("%s:stored-default-not-kept:%s%s" % (tag, sym_tag(B, n), _c08_rival(s)), C08_CONTRACTS[4],
                            "%s; default-marked entry %s=%r: value after load is %r although a user assignment of %r "
                            "is accepted" % (ctx, n, v, snap_b0[n][0], v))
            for idx, rec in sorted(marked_choices.items()):
                out.evals += 1
                key = ckey(idx, N0.unique_choices[idx].name)
                if snap_b0[key] == rec["y"][0]:
                    continue
                if P is None:
                    P = w.kconf(new, policy)
                    lib("load_config(probe)", P.load_config, pf)
                ch = P.unique_choices[idx]
                mem = P.syms[rec["y"][0]]
                lib("probe:set_value", mem.set_value, 2)
                ok = ch.selection is mem
                ch.unset_value()
                mem.unset_value()
                if ok:
                    out.bad("%s:stored-selection-not-kept" % tag, C08_CONTRACTS[4],
                            "%s; default-marked selection %s: selection after load is %r although selecting %s by hand "
                            "works" % (ctx, rec["y"][0], snap_b0[key], rec["y"][0]))
    if interesting:
        out.nontrivial = _j([old["text"], new["text"], text])


# ---------------------------------------------------------------------------
# --- SECTION C10 ---
# C10  minimal configuration
# ---------------------------------------------------------------------------

C10_CONTRACTS = [
    "Kconfig.write_min_config(f, labels=L, normalize_unset=N) for all four (L, N), then Kconfig.load_config(f) on a "
    "FRESH instance: str_value of every option and selection of every choice == the writer's",
    "kconfgen.core.write_min_config(config, f) (header + normalize_unset=True, labels from ESP_IDF_KCONFIG_MIN_LABELS "
    "unset and =1), then load_config(f) on a fresh instance: same values",
    "assignment lines (name, value, in order) of the labelled output == those of the unlabelled output, for both N",
]


def _kconfgen():
    try:
        import kconfgen.core as kc

        return kc
    except Exception:  # noqa: BLE001
        return None


def check_c10(case, w, out):
    tree = case["tree"]
    A = w.kconf(tree)
    run_ops(A, case["ops"], w)
    # A configuration is what the user assigned (user values, picks).  Loading a file whose default-marked entries no
    # longer match the tree's defaults leaves, under the default policy, an *injected default* behind (the stored
    # value replaces the option's `default` properties for this session): state that is neither a user value nor part
    # of the tree and that no configuration file can carry.  Such histories are outside "all reachable configurations"
    # of C10 in the same way as C03's fresh-instance comparison excludes loads with stale default-marked entries.
    fresh = w.kconf(tree)
    fresh_defaults = dict(("choice:%d" % i, [getattr(d[0], "name", None) for d in c.defaults]) for i, c in enumerate(fresh.unique_choices))
    if (any(getattr(s_, "_default_value_injected", False) for s_ in A.unique_defined_syms)
            or any([getattr(d[0], "name", None) for d in c.defaults] != fresh_defaults.get("choice:%d" % i)
                   for i, c in enumerate(A.unique_choices))):
        out.skipped = getattr(out, "skipped", 0) + 1
        return
    vals_a = lib("values", values, A)
    texts = {}
    loaded = {}
    bad_by_name = {}
    variants = [("L%dN%d" % (lab, norm), lab, norm) for lab in (0, 1) for norm in (0, 1)]
    kc = _kconfgen()
    if kc is not None:
        variants += [("kconfgen", 0, None), ("kconfgenL", 1, None)]
    for vname, lab, norm in variants:
        p = w.path("min_%s.cfg" % vname)
        if norm is None:
            with Env({"ESP_IDF_KCONFIG_MIN_LABELS": "1"} if lab else None):
                lib("kconfgen.write_min_config", kc.write_min_config, A, p)
        else:
            lib("write_min_config", A.write_min_config, p, header="", labels=bool(lab), normalize_unset=bool(norm))
        texts[vname] = w.read(p)
        # lines the loader looks at (assignments, 'is not set' lines, pragma lines); comments and blanks do not matter
        eff = _j([ln for ln in texts[vname].split("\n") if ln.strip() and (not ln.lstrip().startswith("#") or _UNSET_RE.match(ln)
                                                                          or ln.strip() in (MARKER, DEP_BEGIN, DEP_END))])
        out.evals += 1
        if eff not in loaded:
            B = w.kconf(tree)
            lib("load_config(min)", B.load_config, p)
            loaded[eff] = dict_diff(vals_a, lib("values", values, B), limit=50)
        for name, x, y in loaded[eff]:
            bad_by_name.setdefault(name, []).append((vname, x, y))
    if any(entries(t) for t in texts.values()):
        out.nontrivial = _j([tree["text"], texts["L0N0"]])
    for name, fails in sorted(bad_by_name.items()):
        vs = sorted(v for v, _, _ in fails)
        scope = "all" if len(vs) == len(variants) else "+".join(vs)
        out.bad("C10:reload:%s:%s" % ("selection" if name.startswith("choice:") else sym_tag(A, name), scope),
                C10_CONTRACTS[0] if any(not v.startswith("kconfgen") for v in vs) else C10_CONTRACTS[1],
                "%s: original %r, after loading the minimal configuration %r (variants %s); minimal file (%s):\n%s"
                % (name, fails[0][1], fails[0][2], vs, fails[0][0], texts[fails[0][0]]))
    for norm in (0, 1):
        a = [(n, v) for n, v, _, _ in entries(texts["L0N%d" % norm])]
        b = [(n, v) for n, v, _, _ in entries(texts["L1N%d" % norm])]
        out.evals += 1
        if a != b:
            out.bad("C10:labels:assignments-differ", C10_CONTRACTS[2],
                    "normalize_unset=%d: unlabelled %s vs labelled %s\n--- labelled\n%s" % (norm, _j(a), _j(b), texts["L1N%d" % norm]))


# ---------------------------------------------------------------------------
# --- SECTION C11 ---
# C11  deprecated names
# ---------------------------------------------------------------------------

C11_CONTRACTS = [
    "Kconfig.load_config(old) == Kconfig.load_config(new) on fresh instances of the same tree with the same rename "
    "files (load_rename_files), where 'new' is 'old' with every assignment through a deprecated name rewritten to "
    "the LAST mapping of that name in the generated rename model (y/n swapped and 'is not set' -> =y for '!' "
    "mappings to bool options): complete snapshot and user state equal",
    "same loads: no deprecated name occurs in Kconfig.missing_syms (also when the tree still mentions the old name "
    "in an expression without defining it, and when the target is undefined)",
    "load_config(f with a deprecated-options block) with load_deprecated=False == load_config(f without the block): "
    "snapshot, user state and missing_syms",
    "load_config(f, load_deprecated=True): for every entry OLD=v of the block Kconfig.eval_string(OLD) (bool) / "
    "eval_string('OLD = v') (other types) is y exactly for the written value, and OLD is not in missing_syms; f "
    "hand-written and f = write_config(write_deprecated=True)",
]


def c11_translate(text, final, types):
    """'text' with deprecated names replaced according to 'final' (old -> [new, inverted]); types: new -> type or None."""
    out = []
    for line in text.split("\n"):
        s = line.rstrip()
        m = _SET_RE.match(s)
        if m and m.group(1) in final:
            new, inv = final[m.group(1)]
            val = m.group(2)
            if inv and types.get(new) == "bool":
                val = "n" if val.startswith("y") else "y"
            out.append("CONFIG_%s=%s" % (new, val))
            continue
        m = _UNSET_RE.match(s)
        if m and m.group(1) in final:
            new, inv = final[m.group(1)]
            if inv and types.get(new) == "bool":
                out.append("CONFIG_%s=y" % new)
            else:
                out.append("# CONFIG_%s is not set" % new)
            continue
        out.append(line)
    return "\n".join(out)


def _c11_eval_entries(out, w, tree, text, tag, ctx):
    E = w.kconf(tree)
    lib("load_config(load_deprecated)", E.load_config, w.write("blk_%s.cfg" % tag.replace(":", "_"), text), load_deprecated=True)
    final = tree["final"]
    for name, raw, _, dep in entries(text):
        if not dep:
            continue
        out.evals += 1
        new = final.get(name, [None])[0]
        ttag = sym_tag(E, new) if new else "unmapped"
        if any(name == m[0] for m in E.missing_syms):
            where = "mentioned-in-tree" if re.search(r"\b%s\b" % re.escape(name), tree["text"]) else ttag
            out.bad("C11:%s:block-entry-in-missing-syms:%s" % (tag, where), C11_CONTRACTS[3],
                    "%s; entry %s of the deprecated block is reported in missing_syms = %s" % (ctx, name, _j(E.missing_syms)))
            continue
        s = E.syms.get(name)
        if s is None:
            out.bad("C11:%s:block-entry-undefined:%s" % (tag, ttag), C11_CONTRACTS[3],
                    "%s; entry %s of the deprecated block does not exist as a symbol after load_deprecated=True" % (ctx, name))
            continue
        if raw is None or raw in ("y", "n"):
            want = 2 if raw == "y" else 0
            got = lib("eval_string", E.eval_string, name)
            ok = got == want
            shown = "eval_string(%r) = %r, expected %r" % (name, got, want)
        else:
            # ('CONFIG_OLD=' with nothing after the '=' is an int / hex / float option without a value: the empty string)
            expr = "%s = %s" % (name, raw if raw != "" else '""')
            got = lib("eval_string", E.eval_string, expr)
            ok = got == 2
            shown = "eval_string(%r) = %r (expected 2); str_value %r, written %s" % (expr, got, s.str_value, raw)
        if not ok:
            out.bad("C11:%s:block-entry-value:%s" % (tag, ttag), C11_CONTRACTS[3], "%s; %s" % (ctx, shown))


def check_c11(case, w, out):
    tree = case["tree"]
    final = tree["final"]
    dep_names = set(final)
    T = w.kconf(tree)
    types = {}
    for old, (new, _) in final.items():
        s = T.syms.get(new)
        types[new] = K.TYPE_TO_STR[s.orig_type] if s is not None and s.nodes else None
    sfx = ":marked-old-name" if case.get("marked_old") else ""
    if case.get("old_text") is not None:
        old_text = case["old_text"]
        new_text = c11_translate(old_text, final, types)
        ctx = "rename files %s; old-name file:\n%s\n--- new-name file:\n%s" % (_j(tree["renames"]), old_text, new_text)
        A = w.kconf(tree)
        lib("load_config(old names)", A.load_config, w.write("old.cfg", old_text))
        B = w.kconf(tree)
        lib("load_config(new names)", B.load_config, w.write("new.cfg", new_text))
        sa = lib("snapshot", snap, A)
        sb = lib("snapshot", snap, B)
        out.evals += 1
        used = [n for n, _, _, _ in entries(old_text) if n in final and types.get(final[n][0])]
        if used:
            out.nontrivial = _j([tree["text"], tree["renames"], old_text])
        d = dict_diff(sa, sb)
        if d:
            kinds = sorted({diff_kind(A, n, x, y) for n, x, y in d})
            out.bad("C11:equiv:marked-old-name" if sfx else "C11:equiv:%s" % kinds[0], C11_CONTRACTS[0],
                    "%s\nold-name instance vs new-name instance: %s" % (ctx, _j(d)))
        else:
            ua, ub = ustate(A), ustate(B)
            if ua != ub:
                d = dict_diff(ua, ub)
                out.bad("C11:equiv:marked-old-name" if sfx else
                        "C11:equiv:user-state:%s" % (sym_tag(A, d[0][0]) if not d[0][0].startswith("choice:") else "choice"),
                        C11_CONTRACTS[0], "%s\nuser values differ: %s" % (ctx, _j(d)))
        out.evals += 1
        leaked = sorted({m[0] for m in A.missing_syms if m[0] in dep_names})
        if leaked:
            kind = "undefined-target" if all(types.get(final[n][0]) is None for n in leaked) else \
                ("mentioned-in-tree" if any(re.search(r"\b%s\b" % re.escape(n), tree["text"]) for n in leaked) else "plain")
            out.bad("C11:missing-syms:deprecated-name:%s" % kind, C11_CONTRACTS[1],
                    "%s\nmissing_syms = %s contains deprecated names %s" % (ctx, _j(A.missing_syms), leaked))
    if case.get("block_text") is not None:
        btext = case["block_text"]
        ctx = "rename files %s; file:\n%s" % (_j(tree["renames"]), btext)
        C = w.kconf(tree)
        lib("load_config(with block)", C.load_config, w.write("with_block.cfg", btext))
        D = w.kconf(tree)
        lib("load_config(without block)", D.load_config, w.write("without_block.cfg", strip_block(btext)))
        out.evals += 1
        d = dict_diff(lib("snapshot", snap, C), lib("snapshot", snap, D))
        if d:
            kinds = sorted({diff_kind(C, n, x, y) for n, x, y in d})
            out.bad("C11:block-not-ignored:%s" % kinds[0], C11_CONTRACTS[2], "%s\nwith block vs without block: %s" % (ctx, _j(d)))
        elif ustate(C) != ustate(D):
            out.bad("C11:block-not-ignored:user-state", C11_CONTRACTS[2],
                    "%s\nuser values differ: %s" % (ctx, _j(dict_diff(ustate(C), ustate(D)))))
        elif [list(m) for m in C.missing_syms] != [list(m) for m in D.missing_syms]:
            out.bad("C11:block-not-ignored:missing-syms", C11_CONTRACTS[2],
                    "%s\nmissing_syms with block %s, without %s" % (ctx, _j(C.missing_syms), _j(D.missing_syms)))
        _c11_eval_entries(out, w, tree, btext, "hand-block", ctx)
        if out.nontrivial is None:
            out.nontrivial = _j([tree["text"], tree["renames"], btext])
    if case.get("ops") is not None:
        A = w.kconf(tree)
        run_ops(A, case["ops"], w)
        p = w.path("written_dep.cfg")
        lib("write_config(write_deprecated)", A.write_config, p, write_deprecated=True)
        text = w.read(p)
        if any(dep for _, _, _, dep in entries(text)):
            _c11_eval_entries(out, w, tree, text, "tool-block", "rename files %s; tool-written file:\n%s" % (_j(tree["renames"]), text))
            if out.nontrivial is None:
                out.nontrivial = _j([tree["text"], tree["renames"], text])


# --- SECTION TAIL ---
CHECKERS = {p: globals().get("check_" + p.lower()) for p in ("C02", "C08", "C10", "C11")}


def check_case(case, work=None):
    """Run the contracts of case['prop'] on one case; returns {"viol": [...], "evals": n, "nontrivial": key or None}."""
    out = Out(case)
    w = work or Work()
    try:
        w.new_case()
        try:
            CHECKERS[case["prop"]](case, w, out)
        except LibFailure as e:
            out.bad("exception:%s:%s" % (e.where, type(e.exc).__name__), "no exception while the precondition holds",
                    "%s raised %s: %s" % (e.where, type(e.exc).__name__, e.exc))
    finally:
        if work is None:
            w.close()
    return out.result()


def replay(case, want):
    for name in ENV_VARS:
        os.environ.pop(name, None)
    res = check_case(case)
    hits = [v for v in res["viol"] if v["case_class"] == want]
    print("tree:\n" + case["tree"]["text"])
    for k in ("new", "ops", "edits", "mut"):
        if case.get(k):
            print("%s: %s" % (k, case[k]["text"] if k == "new" else json.dumps(case[k])))
    for v in hits:
        print("VIOLATION %s\n  contract: %s\n  %s" % (v["case_class"], v["contract"], v["detail"]))
    if not hits:
        print("not reproduced: %s (other classes seen: %s)" % (want, sorted({v["case_class"] for v in res["viol"]})))
    return 1 if hits else 0


# === END STANDALONE CORE =====================================================

import hashlib  # noqa: E402
import multiprocessing  # noqa: E402
import random  # noqa: E402
import time  # noqa: E402

from rtc import gen  # noqa: E402  (esp_kconfiglib is already imported from PYVC_REPO above)

NAME = "drv_loadsave"
PROPERTIES = ["C02", "C08", "C10", "C11"]

CONTRACTS = {"C02": C02_CONTRACTS, "C08": C08_CONTRACTS, "C10": C10_CONTRACTS, "C11": C11_CONTRACTS}

# string values that look like sdkconfig syntax (used by "set" ops on string options)
SPECIAL_STRINGS = ("# CONFIG_G0 is not set", "was: # CONFIG_FOO is not set", "CONFIG_G0=y", "# default:", "a\tb", "café ✓")

# ---------------------------------------------------------------------------
# Hand-written tree families (deterministic; shapes rtc.gen draws rarely or never)
# ---------------------------------------------------------------------------


def _fam_choice_dep(order, mode_default):
    mem = {"LO": 'config SPEED_LO\n    bool "lo"\n', "HI": 'config SPEED_HI\n    bool "hi"\n', "MAX": 'config SPEED_MAX\n    bool "max"\n'}
    return (
        'mainmenu "T"\n\nchoice MODE\n    prompt "mode"\n%s\nconfig MODE_A\n    bool "a"\n\nconfig MODE_B\n    bool "b"\n\nendchoice\n\n'
        'choice SPEED\n    prompt "speed"\n    default SPEED_HI if MODE_B\n    default SPEED_LO\n\n%s\nendchoice\n\n'
        'config SPEED_VAL\n    int "speed value"\n    default 20 if MODE_B\n    default 10\n\n'
        'config LABEL\n    string "label"\n    default "fast" if MODE_B\n    default "slow"\n\n'
        'config HID\n    int\n    default 2 if MODE_B\n    default 1\n\n'
        'config VIA_HID\n    int "via hidden"\n    default 200 if HID = 2\n    default 100\n\n'
        'config ONLY_B\n    bool "only b"\n    depends on MODE_B\n    default y\n'
    ) % ("    default %s\n" % mode_default if mode_default else "", "\n".join(mem[o] for o in order))


def _family():
    out = []
    for order in (("LO", "HI", "MAX"), ("HI", "LO", "MAX"), ("MAX", "HI", "LO")):
        for md in ("MODE_A", "MODE_B", None):
            out.append(("family:choice_dep:%s:%s" % ("".join(o[0] for o in order), md), _fam_choice_dep(order, md), ()))
    out.append(("family:bool_defaults:n_first", (
        'mainmenu "T"\n\nconfig QUIET\n    bool "quiet"\n    default y\n\nconfig OFF\n    bool "off"\n\n'
        'config FOO\n    bool "foo"\n    default n if QUIET\n    default y\n\n'
        'config BAR\n    bool "bar"\n    default OFF if QUIET\n    default y\n\n'
        'config BAZ\n    bool "baz"\n    default !QUIET if QUIET\n    default QUIET\n    default y\n\n'
        'config LEVEL\n    int "level"\n    default 1 if FOO\n    default 0\n'), ()))
    out.append(("family:bool_defaults:select", (
        'mainmenu "T"\n\nconfig QUIET\n    bool "quiet"\n    default y\n\n'
        'config SEL\n    bool "sel"\n    select FOO if !QUIET\n    imply BAR\n\n'
        'config FOO\n    bool "foo"\n    default n if QUIET\n    default y\n\n'
        'config BAR\n    bool "bar"\n    default n if QUIET\n    default y if SEL\n\n'
        'config HID\n    bool\n    default y if FOO && !BAR\n'), ()))
    for kw in ("set default", "set"):
        out.append(("family:%s" % kw.replace(" ", "_"), (
            'mainmenu "T"\n\nconfig OTHER\n    bool "other"\n\n'
            'config SRC\n    bool "src"\n    default y\n    %s TGT=7\n    %s STGT="xyz" if OTHER\n    %s FTGT=2.5\n\n'
            'config TGT\n    int "tgt"\n    range 0 10\n    default 5\n\n'
            'config STGT\n    string "stgt"\n    default "abc"\n\n'
            'config FTGT\n    float "ftgt"\n    default 1.5\n\n'
            'config FOLLOW\n    int "follow"\n    default TGT\n') % (kw, kw, kw), ()))
    out.append(("family:multidef_promptless", (
        'mainmenu "T"\n\nconfig BUF_SIZE\n    int "buffer size"\n    default 3\n\nconfig DEV_NAME\n    string "device name"\n    default "abc"\n\n'
        'config FLAG\n    bool "flag"\n\n'
        'menu "extra"\n\nconfig BUF_SIZE\n    int\n    default 9 if FLAG\n\nconfig DEV_NAME\n    string\n\nconfig FLAG\n    bool\n    default y if DEV_NAME = "on"\n\nendmenu\n'), ()))
    out.append(("family:empty_string", (
        'mainmenu "T"\n\nconfig VERBOSE\n    bool "verbose"\n\nconfig HOSTNAME\n    string "hostname"\n    default ""\n\n'
        'config PASSWORD\n    string "password"\n    default "" if !VERBOSE\n    default "debug"\n\n'
        'config NOTE\n    string "note"\n    default HOSTNAME\n\nconfig RETRIES\n    int "retries"\n    default 3\n'), ()))
    out.append(("family:idf_target", (
        'mainmenu "T"\n\nconfig IDF_TARGET\n    string "target"\n    default "esp32"\n\n'
        'config FEATURE\n    bool "feature"\n    default y if IDF_TARGET = "esp32s3"\n\nconfig SIZE\n    int "size"\n    default 4 if FEATURE\n    default 2\n'), ()))
    out.append(("family:ranges", (
        'mainmenu "T"\n\nconfig LO\n    int "lo"\n    default 2\n\nconfig HI\n    int "hi"\n    default 8\n\n'
        'config V\n    int "v"\n    range LO HI\n    default 5\n\nconfig H\n    hex "h"\n    range 0x1 0xff\n    default 0x10\n\n'
        'config F\n    float "f"\n    range 0.5 HI_F\n    default 1.5\n\nconfig HI_F\n    float "hi f"\n    default 3.0\n\n'
        'config W\n    int "w"\n    range 0 V\n    default 100\n'), ()))
    out.append(("family:menus_visible", (
        'mainmenu "T"\n\nconfig EN\n    bool "en"\n    default y\n\nmenu "outer"\n    visible if EN\n\nconfig A\n    int "a"\n    default 1\n\n'
        'menu "inner"\n    depends on EN\n\nconfig B\n    string "b"\n    default "b"\n\nconfig C\n    bool "c" if !EN\n    default y\n\nendmenu\n\nendmenu\n\n'
        'config LAST\n    bool "last"\n    default y if A = 1\n'), ()))
    return out


def family_trees():
    return [gen.TreeSpec(text, origin=origin) for origin, text, _ in _family()]


# ---------------------------------------------------------------------------
# Histories
# ---------------------------------------------------------------------------


def _fmt_entry(name, typ, value):
    if typ == "bool":
        return value
    if typ == "string":
        return 'CONFIG_%s="%s"' % (name, gen.kescape(value))
    return "CONFIG_%s=%s" % (name, value)


def hand_text(rng, kconf):
    """A hand-written sdkconfig.defaults style file: 1..3 user assignments, no default markers."""
    syms = kconf.unique_defined_syms
    lines = ["# hand written"]
    for _ in range(rng.choice((1, 1, 2, 3))):
        s = rng.choice(syms)
        typ = K.TYPE_TO_STR[s.orig_type]
        if typ == "bool":
            lines.append(rng.choice(("CONFIG_%s=y", "CONFIG_%s=y", "CONFIG_%s=n", "# CONFIG_%s is not set")) % s.name)
        else:
            lines.append(_fmt_entry(s.name, typ, rng.choice(gen.VALUES[typ][0])))
    return "\n".join(lines) + "\n"


def rand_history(rng, kconf, spec, length, files=True):
    out = []
    for op in gen.gen_ops(rng, kconf, spec, length):
        op = list(op)
        r = rng.random()
        if files and r < 0.08:
            out.append(["save", rng.choice("ab")])
        elif files and r < 0.15:
            out.append(["load", rng.choice("ab"), rng.random() < 0.5])
        elif files and r < 0.25:
            out.append(["hand", hand_text(rng, kconf), rng.random() < 0.3])
        if op[0] == "set" and kconf.syms[op[1]].orig_type == K.STRING and rng.random() < 0.3:
            op[2] = rng.choice(SPECIAL_STRINGS)
        out.append(op)
    return out


def alphabet(kconf):
    """Small fixed op alphabet of a tree: per option two assignments and unset, per member pick, per choice unset."""
    ops = []
    for s in kconf.unique_defined_syms:
        typ = K.TYPE_TO_STR[s.orig_type]
        if s.choice is not None:
            ops.append(["pick", s.name])
            continue
        if typ == "bool":
            ops += [["set", s.name, 2], ["set", s.name, 0]]
        elif typ == "string":
            ops += [["set", s.name, ""], ["set", s.name, SPECIAL_STRINGS[1]]]
        else:
            d = s.str_value
            vals = [v for v in gen.VALUES[typ][0] if v != d][:1] + ([d] if d else [])
            for dflt, _cond in s.defaults[:1]:
                if dflt.str_value and dflt.str_value not in vals:
                    vals.append(dflt.str_value)  # a user value equal to the (possibly shadowed) Kconfig default
            ops += [["set", s.name, v] for v in vals]
        ops.append(["unset", s.name])
    for i, c in enumerate(kconf.unique_choices):
        ops.append(["choice_unset", ckey(i, c.name)])
    return ops


# ---------------------------------------------------------------------------
# Tree mutations (C08, second clause): deterministic single changes of a tree text
# ---------------------------------------------------------------------------

_LIT_ALT = {"bool": ("y", "n"), "int": ("77", "3"), "hex": ("0x4D", "0x2"), "float": ("7.5", "0.25"), "string": ('"changed"', '""')}
_RANGE_ALT = {"int": "range 1 2", "hex": "range 0x1 0x2", "float": "range 0.5 0.75"}
_TYPE_RE = re.compile(r'(bool|int|hex|string|float)\s+"((?:[^"\\]|\\.)*)"(\s+if\s+.+)?$')


def tree_mutations(text, kconf):
    """[(kind, option name or None, choice index or None, new text)] -- every applicable single change."""
    types = {s.name: K.TYPE_TO_STR[s.orig_type] for s in kconf.unique_defined_syms}
    member_of = {}
    for i, c in enumerate(kconf.unique_choices):
        for m in c.syms:
            member_of[m.name] = i
    lines = text.split("\n")
    out = []

    def emit(kind, name, cidx, i, new_line):
        new = lines[:i] + ([new_line] if new_line is not None else []) + lines[i + 1:]
        out.append((kind, name, cidx, "\n".join(new)))

    ctx = None
    n_choice = -1
    for i, line in enumerate(lines):
        s = line.strip()
        ind = line[: len(line) - len(line.lstrip())]
        m = re.match(r"(config|menuconfig)\s+(\w+)", s)
        if m:
            ctx = ("opt", m.group(2))
            continue
        if re.match(r"choice\b", s):
            n_choice += 1
            ctx = ("choice", n_choice)
            continue
        if s in ("endchoice", "endmenu", "endif") or re.match(r"(menu|if|comment|mainmenu)\s", s):
            ctx = None
            continue
        if ctx is None or not s:
            continue
        md = re.match(r"default\s+(.+?)(\s+if\s+(.+))?$", s)
        if ctx[0] == "opt" and ctx[1] in types:
            name = ctx[1]
            t = types[name]
            if md and name not in member_of:
                operand, condpart, cond = md.group(1), md.group(2) or "", md.group(3)
                alt = [a for a in _LIT_ALT[t] if a != operand][0]
                emit("default-literal:" + t, name, None, i, "%sdefault %s%s" % (ind, alt, condpart))
                if cond:
                    emit("default-cond-drop:" + t, name, None, i, "%sdefault %s" % (ind, operand))
                    emit("default-cond-negate:" + t, name, None, i, "%sdefault %s if !(%s)" % (ind, operand, cond))
            elif s.startswith("depends on "):
                emit("depends-drop:" + t, name, member_of.get(name), i, None)
            elif s.startswith("range ") and t in _RANGE_ALT:
                emit("range-change:" + t, name, None, i, ind + _RANGE_ALT[t])
            else:
                mt = _TYPE_RE.match(s)
                if mt and mt.group(1) == t:
                    if mt.group(3):
                        emit("prompt-cond-drop:" + t, name, member_of.get(name), i, '%s%s "%s"' % (ind, t, mt.group(2)))
                    if name not in member_of:
                        emit("prompt-removed:" + t, name, None, i, ind + t)
                elif s.startswith("prompt ") and name not in member_of:
                    emit("prompt-removed:" + t, name, None, i, None)
        elif ctx[0] == "choice" and md and ctx[1] < len(kconf.unique_choices):
            mem = [x.name for x in kconf.unique_choices[ctx[1]].syms]
            others = [x for x in mem if x != md.group(1)]
            if md.group(1) in mem and others:
                emit("choice-default", None, ctx[1], i, "%sdefault %s%s" % (ind, others[0], md.group(2) or ""))
    out.append(("option-added", None, None, text.rstrip("\n") + '\n\nconfig ZNEW\n    bool "znew"\n    default y\n'))
    # remove the last top-level option when nothing else mentions it
    tops = [i for i, line in enumerate(lines) if re.match(r"config\s+\w+", line)]
    if tops:
        i = tops[-1]
        name = lines[i].split()[1]
        tail_ok = all((not ln.strip()) or ln.startswith(" ") for ln in lines[i + 1:])
        if tail_ok and len(re.findall(r"\b%s\b" % re.escape(name), text)) == 1 and len(tops) > 1:
            out.append(("option-removed", name, None, "\n".join(lines[:i]).rstrip("\n") + "\n"))
    return out


def pick_mutations(muts, limit, rng):
    """At most 'limit' mutations, one per kind first (kinds in order of first appearance), then the rest."""
    by_kind = {}
    for m in muts:
        by_kind.setdefault(m[0], []).append(m)
    for v in by_kind.values():
        rng.shuffle(v)
    out = []
    while len(out) < limit and any(by_kind.values()):
        for kind in list(by_kind):
            if by_kind[kind] and len(out) < limit:
                out.append(by_kind[kind].pop())
    return out


# ---------------------------------------------------------------------------
# Rename models (C11, C02 deprecated block)
# ---------------------------------------------------------------------------


def rename_files(lines, split):
    """lines: [(old, new, inverted)], split: index where the second file starts (or None) -> list of file texts."""
    def render(part, head):
        return head + "".join("CONFIG_%s    %sCONFIG_%s\n" % (o, "!" if inv else "", n) for o, n, inv in part)
    if split is None or split <= 0 or split >= len(lines):
        return [render(lines, "# deprecated names\n\n")]
    return [render(lines[:split], "# component one\n"), render(lines[split:], "\n# component two\n")]


def final_map(lines):
    final = {}
    for o, n, inv in lines:
        final[o] = [n, bool(inv)]
    return final


def rand_rename_model(rng, kconf):
    """Random rename lines over the options of 'kconf': aliases, inversions, duplicates, undefined targets."""
    syms = list(kconf.unique_defined_syms)
    bools = [s for s in syms if s.orig_type == K.BOOL]
    lines = []
    for s in rng.sample(syms, min(len(syms), rng.choice((1, 2, 2, 3)))):
        aliases = ["OLD_" + s.name] + (["old2_" + s.name] if rng.random() < 0.5 else []) + (["OLD3_" + s.name] if rng.random() < 0.2 else [])
        for a in aliases:
            lines.append((a, s.name, s.orig_type == K.BOOL and rng.random() < 0.5))
    rng.shuffle(lines)
    if lines and rng.random() < 0.5:
        o, n, inv = rng.choice(lines)
        tgt = kconf.syms[n]
        r = rng.random()
        if tgt.orig_type == K.BOOL and r < 0.5:
            lines.append((o, n, not inv))  # same target, differs only in '!'
        else:
            other = rng.choice(syms)
            lines.append((o, other.name, other.orig_type == K.BOOL and rng.random() < 0.5))
        if rng.random() < 0.3:  # the duplicate first, the original last
            lines.insert(0, lines.pop())
    if bools and rng.random() < 0.3:  # inverted alias listed before a plain one of the same option
        b = rng.choice(bools)
        lines = [("OLDI_" + b.name, b.name, True), ("OLDP_" + b.name, b.name, False)] + lines
    if rng.random() < 0.12:
        lines.append(("OLD_GONE", "NOPE_%d" % rng.randrange(3), False))
    split = rng.randrange(len(lines) + 1) if rng.random() < 0.5 else None
    return lines, split


def old_name_text(rng, kconf, final, base_text=None):
    """sdkconfig text spelled (partly) with deprecated names. Returns (text, has_marked_old_name)."""
    by_new = {}
    for o, (n, inv) in final.items():
        by_new.setdefault(n, []).append((o, inv))
    marked_old = False
    if base_text is not None:
        out = []
        lines = base_text.split("\n")
        i = 0
        while i < len(lines):
            line = lines[i]
            marked = line.strip() == MARKER and i + 1 < len(lines)
            body = lines[i + 1] if marked else line
            m = _SET_RE.match(body)
            u = None if m else _UNSET_RE.match(body)
            name = (m or u).group(1) if (m or u) else None
            if name in by_new and rng.random() < (0.15 if marked else 0.7):
                o, inv = rng.choice(by_new[name])
                if inv and kconf.syms[name].orig_type == K.BOOL:
                    body = ("# CONFIG_%s is not set" % o if rng.random() < 0.6 else "CONFIG_%s=n" % o) if m else "CONFIG_%s=y" % o
                else:
                    body = "CONFIG_%s=%s" % (o, m.group(2)) if m else "# CONFIG_%s is not set" % o
                marked_old = marked_old or marked
            if marked:
                out += [line, body]
                i += 2
            else:
                out.append(body)
                i += 1
        return "\n".join(out), marked_old
    out = ["# old project configuration"]
    names = [s.name for s in kconf.unique_defined_syms]
    for _ in range(rng.choice((1, 2, 3, 4, 6))):
        r = rng.random()
        if final and r < 0.6:
            spelled = rng.choice(sorted(final))
            target, inv = final[spelled]
        elif r < 0.95:
            spelled = target = rng.choice(names)
            inv = False
        else:
            spelled = target = "UNKNOWN_%d" % rng.randrange(2)
            inv = False
        ts = kconf.syms.get(target)
        typ = K.TYPE_TO_STR[ts.orig_type] if ts is not None and ts.nodes else rng.choice(("bool", "int"))
        if rng.random() < 0.08:
            out.append(MARKER)
            marked_old = marked_old or spelled in final
        if typ == "bool":
            out.append(rng.choice(("CONFIG_%s=y", "CONFIG_%s=n", "# CONFIG_%s is not set")) % spelled)
        else:
            valid, bad = gen.VALUES[typ]
            out.append(_fmt_entry(spelled, typ, rng.choice(bad) if bad and rng.random() < 0.1 else rng.choice(valid)))
    return "\n".join(out) + "\n", marked_old


def hand_block(rng, kconf, final):
    """Deprecated block whose entries DISAGREE with the main part where possible."""
    out = [DEP_BEGIN]
    for o in sorted(final):
        n, inv = final[o]
        s = kconf.syms.get(n)
        if s is None or not s.nodes:
            out.append("CONFIG_%s=y" % o)
            continue
        typ = K.TYPE_TO_STR[s.orig_type]
        if typ == "bool":
            cur = s.str_value == "y"
            want_y = cur if inv else not cur  # the block claims the opposite of the current value of the new option
            if rng.random() < 0.3:
                want_y = not want_y
            out.append("CONFIG_%s=y" % o if want_y else "# CONFIG_%s is not set" % o)
        else:
            vals = [v for v in gen.VALUES[typ][0] if v != s.str_value and v != ""]
            v = rng.choice(vals)
            if typ == "hex" and not v.startswith(("0x", "0X")):
                v = "0x" + v
            out.append(_fmt_entry(o, typ, v))
    out.append(DEP_END)
    return "\n".join(out) + "\n"


_C11_FAMILY_TREE = (
    'mainmenu "T"\n\nconfig NEW_BOOL\n    bool "nb"\n\nconfig NEW_INV\n    bool "ni"\n\nconfig NEW_INT\n    int "nint"\n    default 1\n\n'
    'config NEW_STR\n    string "ns"\n    default "s"\n\nconfig NEW_HEX\n    hex "nh"\n    default 0x1\n\n'
    'config USES_OLD\n    bool "uses"\n    default y if REF_OLD\n    depends on !REF_OLD2 || NEW_BOOL\n\n'
    'config USES_OLD_INT\n    int "u2"\n    default 5 if REF_OLD_INT = 3\n    default 6\n\n'
    'config FOLLOWS\n    bool "follows"\n    default y if NEW_BOOL && !NEW_INV\n'
)


def c11_family_cases(pv):
    """Exhaustive: an old name listed twice (all ordered pairs of mappings, one or two files), every spelling."""
    targets = (("NEW_BOOL", False), ("NEW_BOOL", True), ("NEW_INV", False), ("NEW_INV", True), ("NEW_INT", False))
    cases = []
    for old in ("REF_OLD", "PLAIN_OLD"):
        for first in targets + (None,):
            for last in targets:
                lines = ([(old, first[0], first[1])] if first else []) + [("OTHER_OLD", "NEW_STR", False), (old, last[0], last[1])]
                lines += [("REF_OLD2", "NEW_INV", True), ("REF_OLD_INT", "NEW_INT", False), ("OLD_HEX", "NEW_HEX", False)]
                for split in ((None, 2) if first else (None,)):
                    tree = {"text": _C11_FAMILY_TREE, "renames": rename_files(lines, split), "pv": pv, "final": final_map(lines)}
                    spellings = ["CONFIG_%s=y" % old, "CONFIG_%s=n" % old, "# CONFIG_%s is not set" % old]
                    if last[0] == "NEW_INT":
                        spellings = ["CONFIG_%s=42" % old]
                    for sp in spellings:
                        for extra in ("", "CONFIG_NEW_BOOL=y\n", "# CONFIG_REF_OLD2 is not set\nCONFIG_REF_OLD_INT=3\n"):
                            cases.append({"prop": "C11", "tree": tree, "old_text": extra + sp + "\n",
                                          "origin": "family:c11:%s:%s->%s:%s" % (old, first, last, split)})
                        cases.append({"prop": "C11", "tree": tree, "old_text": sp + "\nCONFIG_%s=%s\n" % (last[0], "7" if last[0] == "NEW_INT" else "y"),
                                      "origin": "family:c11:mixed"})
                    blk = "CONFIG_NEW_BOOL=y\nCONFIG_NEW_INT=9\n\n%s\nCONFIG_%s=%s\nCONFIG_OTHER_OLD=\"blk\"\nCONFIG_REF_OLD_INT=3\nCONFIG_OLD_HEX=0x2A\nCONFIG_REF_OLD2=y\n%s\n" % (
                        DEP_BEGIN, old, "5" if last[0] == "NEW_INT" else ("y" if last[1] else "n"), DEP_END)
                    cases.append({"prop": "C11", "tree": tree, "block_text": blk, "ops": [["set", "NEW_BOOL", 2], ["set", "NEW_STR", 'q"x']],
                                  "origin": "family:c11:block"})
    return cases


# ---------------------------------------------------------------------------
# Scope: trees and cases
# ---------------------------------------------------------------------------

TIERS = {
    # random trees (6 / 10 options), random histories per tree, tree changes per tree (C08), rename models per tree (C11)
    "quick":    {"rand6": 220, "rand10": 50, "hist": 3, "muts": 4, "models": 2, "parts": 4},
    "thorough": {"rand6": 2400, "rand10": 600, "hist": 8, "muts": 10, "models": 5, "parts": 8},
}


def _rng(*key):
    return random.Random(int(hashlib.md5(repr(key).encode()).hexdigest()[:12], 16))


def tree_sources(seed, tier):
    """Ordered list of (kind, index): small trees, hand-written families, random trees (seed rotates only these)."""
    t = TIERS[tier]
    src = [("small", i) for i in range(len(_SMALL()))]
    src += [("family", i) for i in range(len(_FAMILY()))]
    src += [("rand6", i) for i in range(t["rand6"])] + [("rand10", i) for i in range(t["rand10"])]
    return src


_CACHE = {}


def _SMALL():
    if "small" not in _CACHE:
        _CACHE["small"] = list(gen.small_trees(3))
    return _CACHE["small"]


def _FAMILY():
    if "family" not in _CACHE:
        _CACHE["family"] = family_trees()
    return _CACHE["family"]


def get_tree(kind, idx, seed):
    if kind == "small":
        return _SMALL()[idx]
    if kind == "family":
        return _FAMILY()[idx]
    if kind == "rand6":
        spec = gen.gen_tree(random.Random(seed * 1000003 + idx), 6)  # == gen.corpus(seed, n)[270 + idx]
        spec.origin = "random:%d:%d" % (seed, idx)
        return spec
    spec = gen.gen_tree(random.Random(seed * 1000003 + 500000 + idx), 10)
    spec.origin = "random10:%d:%d" % (seed, idx)
    return spec


def _pv(kind, idx):
    return 2 if idx % 8 == 5 else 1


def _histories(rng, kconf, spec, kind, n_hist, depth2):
    """[] first, then (family trees) all histories over the alphabet up to length 1 or 2, then random ones."""
    hs = [[]]
    if kind == "family":
        al = alphabet(kconf)
        hs += [[a] for a in al]
        if depth2:
            hs += [[a, b] for a in al if a[0] not in ("unset", "choice_unset") for b in al if a != b]
    n_syms = len(kconf.unique_defined_syms)
    for j in range(n_hist if kind != "small" else 2 + (n_syms > 1)):
        hs.append(rand_history(rng, kconf, spec, rng.choice((1, 2, 3, 5, 8))))
    return hs


def cases_for_tree(prop, kind, idx, seed, tier):
    """Deterministic list of cases (JSON-able dicts) of property 'prop' for one tree."""
    t = TIERS[tier]
    spec = get_tree(kind, idx, seed)
    pv = _pv(kind, idx)
    rng = _rng(prop, kind, idx, seed if kind.startswith("rand") else 0)
    w = Work()
    try:
        base = {"text": spec.text, "pv": pv}
        renamed = dict(base, renames=[spec.rename_text]) if spec.rename_text else base
        k0 = w.kconf(base)
        cases = []
        if prop in ("C02", "C10"):
            tree = renamed if prop == "C02" else base
            if prop == "C02" and not spec.rename_text and rng.random() < 0.35:
                lines, split = rand_rename_model(rng, k0)
                tree = dict(base, renames=rename_files(lines, split))
            for h in _histories(rng, k0, spec, kind, t["hist"], depth2=True):
                cases.append({"prop": prop, "tree": tree, "ops": h, "origin": spec.origin})
        elif prop == "C08":
            muts = tree_mutations(spec.text, k0)
            good = []
            for kind_m, name, cidx, text in pick_mutations(muts, t["muts"] * 2, rng):
                if len(good) >= t["muts"]:
                    break
                try:
                    kn = w.kconf({"text": text, "pv": pv})
                    snap(kn)
                    good.append((kind_m, name, cidx, text, kn))
                except LibFailure:
                    continue
            al = alphabet(k0) if kind == "family" else None
            for hi, h in enumerate(_histories(rng, k0, spec, kind, t["hist"], depth2=False)):
                if al is not None:
                    edits = [al, al[::-1]]
                else:
                    edits = [rand_history(rng, k0, spec, 4, files=False), rand_history(rng, k0, spec, 3, files=False)]
                cases.append({"prop": prop, "tree": base, "ops": h, "edits": edits, "origin": spec.origin})
                for mi, (kind_m, name, cidx, text, kn) in enumerate(good):
                    if hi > 0 and (hi + mi) % (4 if kind == "family" else 2):
                        continue  # every tree change on the default configuration, a part of them on each other history
                    nspec = gen.TreeSpec(text)
                    e = [rand_history(rng, kn, nspec, 4, files=False)]
                    cases.append({"prop": prop, "tree": base, "new": {"text": text, "pv": pv}, "ops": h, "edits": e,
                                  "mut": {"kind": kind_m, "name": name, "choice": cidx}, "origin": spec.origin + "+" + kind_m})
        elif prop == "C11":
            for mi in range(t["models"]):
                lines, split = rand_rename_model(rng, k0)
                text = spec.text
                if rng.random() < 0.35:  # the tree still mentions an old name in an expression without defining it
                    olds = sorted({o for o, _, _ in lines if o.isupper() or o.startswith("OLD")})
                    ref = rng.choice(olds)
                    if re.match(r"[A-Z0-9_]+$", ref):
                        text2 = text.rstrip("\n") + '\n\nconfig ZREF\n    bool "zref"\n    default y if %s\n\nconfig ZDEP\n    int "zdep"\n    depends on !%s\n    default 4\n' % (ref, ref)
                        try:
                            snap(w.kconf({"text": text2, "pv": pv}))
                            text = text2
                        except LibFailure:
                            pass
                tree = {"text": text, "pv": pv, "renames": rename_files(lines, split), "final": final_map(lines)}
                kt = w.kconf(tree)
                for j in range(2 if tier == "quick" else 3):
                    base_text = None
                    if j == 1:
                        ka = w.kconf(tree)
                        run_ops(ka, rand_history(rng, ka, spec, 4, files=False), w)
                        base_text = ka._config_contents("")
                    old_text, marked_old = old_name_text(rng, kt, tree["final"], base_text)
                    cases.append({"prop": prop, "tree": tree, "old_text": old_text, "marked_old": marked_old, "origin": spec.origin})
                main = kt._config_contents("") if rng.random() < 0.5 else old_name_text(rng, kt, {}, None)[0]
                cases.append({"prop": prop, "tree": tree, "block_text": main + "\n" + hand_block(rng, kt, tree["final"]),
                              "ops": rand_history(rng, kt, spec, 3, files=False), "origin": spec.origin})
        return cases
    finally:
        w.close()


# ---------------------------------------------------------------------------
# Runner
# ---------------------------------------------------------------------------


def _case_size(case):
    return (len(case["tree"]["text"]) + len((case.get("new") or {}).get("text", "")),
            len(json.dumps(case.get("ops") or [])) + len(json.dumps(case.get("edits") or [])) + len(case.get("old_text") or "")
            + len(case.get("block_text") or ""))


def _shrink(case, want):
    """Greedy, deterministic reduction of a violating case: drop ops / edit sequences / edits while 'want' still fires."""
    def fires(c):
        try:
            return any(v["case_class"] == want for v in check_case(c)["viol"])
        except Exception:  # noqa: BLE001
            return False

    cur = dict(case)
    for key in ("ops",):
        ops = list(cur.get(key) or [])
        i = 0
        while i < len(ops) and len(ops) <= 12:
            trial = dict(cur, **{key: ops[:i] + ops[i + 1:]})
            if fires(trial):
                ops = trial[key]
                cur = trial
            else:
                i += 1
    if cur.get("edits"):
        for seq in cur["edits"]:
            trial = dict(cur, edits=[seq])
            if fires(trial):
                cur = trial
                break
        seq = list(cur["edits"][0]) if len(cur["edits"]) == 1 else None
        if seq is not None and len(seq) <= 40:
            i = 0
            while i < len(seq):
                trial = dict(cur, edits=[seq[:i] + seq[i + 1:]])
                if fires(trial):
                    seq = trial["edits"][0]
                    cur = trial
                else:
                    i += 1
    return cur


def _work(args):
    prop, tier, seed, tasks = args
    res = {"evals": 0, "cases": 0, "nontrivial": set(), "samples": [], "viol": {}, "error": None, "trees": 0}
    work = None
    try:
        for kind, idx, part, parts in tasks:
            if kind == "c11family":
                cases = c11_family_cases(1 + idx)[part::parts]
            else:
                cases = cases_for_tree(prop, kind, idx, seed, tier)[part::parts]
                if part == 0:
                    res["trees"] += 1
            if work is not None and len(work.trees) > 40:
                work.close()
                work = None
            if work is None:
                work = Work()
            for case in cases:
                r = check_case(case, work)
                res["cases"] += 1
                res["evals"] += r["evals"]
                if r["nontrivial"] is not None:
                    res["nontrivial"].add(hashlib.md5(r["nontrivial"].encode()).hexdigest())
                if len(res["samples"]) < 2 and kind != "small":
                    res["samples"].append({"origin": case.get("origin"), "options": len(re.findall(r"^\s*(?:menu)?config ", case["tree"]["text"], re.M)),
                                           "ops": case.get("ops"), "mut": case.get("mut"), "old_text": case.get("old_text")})
                for v in r["viol"]:
                    rec = res["viol"].get(v["case_class"])
                    size = _case_size(case)
                    if rec is None:
                        res["viol"][v["case_class"]] = {"v": v, "case": case, "size": size, "count": 1}
                    else:
                        rec["count"] += 1
                        if size < rec["size"]:
                            rec.update(v=v, case=case, size=size)
    except Exception as e:  # noqa: BLE001 - driver error
        import traceback

        res["error"] = "%s: %s\n%s" % (type(e).__name__, e, traceback.format_exc())
    finally:
        if work is not None:
            work.close()
    return res


def _init_worker():
    try:
        devnull = os.open(os.devnull, os.O_WRONLY)
        os.dup2(devnull, 2)
    except OSError:
        pass


def _core_source(prop):
    """Common part of the standalone core + the section of 'prop' + the tail (check_case, replay)."""
    with open(os.path.abspath(__file__), "r", encoding="utf-8") as f:
        src = f.read()
    a = src.index("\n# === BEGIN STANDALONE CORE") + 1
    b = src.index("\n# === END STANDALONE CORE") + 1
    core = src[a:b]
    marks = [(m.start(), m.group(1)) for m in re.finditer(r"^# --- SECTION (\w+) ---$", core, re.M)]
    out = core[: marks[0][0]]
    for i, (pos, name) in enumerate(marks):
        end = marks[i + 1][0] if i + 1 < len(marks) else len(core)
        if name in (prop, "TAIL"):
            out += core[pos:end]
    return out


def make_script(case, want):
    case = {k: v for k, v in case.items() if k != "origin"}
    return (
        "#!/usr/bin/env python3\n"
        "# Replays one case of rtc/drv_loadsave.py on the tree named by PYVC_REPO (default /repo).\n"
        "# exit status 1: the violation %r shows; 0: it does not.\n"
        "import os\nimport sys\n\nsys.path.insert(0, os.environ.get('PYVC_REPO', '/repo'))\n\n%s\n"
        "CASE = json.loads(%r)\n\nif __name__ == '__main__':\n    sys.exit(replay(CASE, %r))\n"
    ) % (want, _core_source(case["prop"]), json.dumps(case), want)


BOUND = {
    "C02": "trees: the 334 trees of rtc.gen.small_trees(3); {fam} hand-written family trees (two choices where the second "
           "choice's / an int's / a string's / a promptless option's defaults depend on a member of the first, three member "
           "orders x three MODE defaults; bools with several defaults whose first active default is n; set / set default "
           "targets; options with a prompted and a promptless definition; empty-string defaults; IDF_TARGET; symbol-valued "
           "range bounds; nested menus with visible if); {r6} random trees gen_tree(Random(seed*1000003+i), 6) and {r10} "
           "with 10 options (full DEFAULT_FEATURES grammar of rtc.gen, parser version 2 for every eighth tree, else 1); "
           "35% of the trees without a generated rename file get a random rename model (1-2 files). histories: the empty "
           "history, for family trees ALL histories of length 1 and 2 (first op not an unset) over the tree's op alphabet (per option: two "
           "assignments + unset, per member: pick, per choice: unset), and {h} random histories per tree of length "
           "1,2,3,5,8 (gen_ops incl. invalid values, string values that look like sdkconfig lines) with interleaved "
           "save / load / merge of tool-written files and load / merge of hand-written files without default markers",
    "C08": "trees and initial histories as for C02 (family trees: histories up to length 1). first clause: every case with "
           "policies sdkconfig and kconfig, two edit sequences (family trees: the whole op alphabet forwards and "
           "backwards; else two random sequences of 4 and 3 ops), comparison after every edit. second clause: per tree up "
           "to {m} validated single-change successors (default literal changed incl. ''<->non-empty strings, default "
           "condition dropped / negated, choice default changed, depends on dropped, prompt condition dropped, prompt "
           "removed, range changed, option added, option removed), each with every history of the tree, both policies, "
           "one random edit sequence of 4 ops",
    "C10": "trees and histories as for C02 (no rename files). variants: labels x normalize_unset (4, header '') plus "
           "kconfgen.core.write_min_config with ESP_IDF_KCONFIG_MIN_LABELS unset / 1",
    "C11": "trees as for C02, per tree {mo} random rename models (1-3 options with 1-3 aliases each incl. lower-case old "
           "names, '!' on bool targets, inverted alias listed before a plain one, an old name listed twice -- same target "
           "differing only in '!' or a different target --, mapping to an undefined option, lines split over 1 or 2 files; "
           "in 35% of the models the tree gets two extra options mentioning an old name in a default condition / depends "
           "on); per model 3 old-name files (two hand-written with 1-6 assignments mixing old, new and unknown names, =y / "
           "=n / is not set / typed values / 10% malformed / 8% '# default:' markers; one tool-written configuration after a "
           "random history respelled through aliases) and one file with a hand-written deprecated block that contradicts "
           "the main part, plus write_config(write_deprecated=True) after a random history; and the exhaustive family: "
           "tree with REF_OLD mentioned in expressions / PLAIN_OLD not mentioned, all ordered pairs (first, last) of "
           "mappings of that name over {{NEW_BOOL, !NEW_BOOL, NEW_INV, !NEW_INV, NEW_INT}} in one file and split over two, "
           "every spelling (=y, =n, is not set, =42) alone, after other assignments, and followed by the new name; both "
           "parser versions",
}

RULE = ("all small and family trees are enumerated exhaustively and do not depend on the seed; the seed selects the random "
        "trees (gen_tree(Random(seed*1000003+i))) and, through md5(property, tree, seed), the random histories, edits, "
        "rename models and sdkconfig texts drawn for them; per violation class the smallest case is kept and greedily "
        "shrunk (ops / edits dropped while the class still fires)")


def run(prop, tier="quick", seed=0, jobs=None):
    t0 = time.perf_counter()
    res = {"name": NAME, "property": prop, "kind": "bounded", "status": "ok"}
    try:
        if prop not in PROPERTIES:
            raise ValueError("unknown property %r" % (prop,))
        if tier not in TIERS:
            raise ValueError("unknown tier %r" % (tier,))
        seed = int(seed)
        jobs = int(jobs or min(16, os.cpu_count() or 1))
        gen.scrub_env()
        t = TIERS[tier]
        tasks = []
        for kind, idx in tree_sources(seed, tier):
            parts = t["parts"] * 4 if kind == "family" else 1
            tasks += [(kind, idx, p, parts) for p in range(parts)]
        if prop == "C11":
            tasks += [("c11family", pvi, p, 8) for pvi in (0, 1) for p in range(8)]
        # interleave: chunk j gets tasks j, j+n, j+2n ... (order inside a chunk and merge order are fixed)
        n_chunks = max(1, jobs * 6)
        chunks = [tasks[j::n_chunks] for j in range(n_chunks)]
        args = [(prop, tier, seed, c) for c in chunks if c]
        if jobs > 1:
            with multiprocessing.get_context("fork").Pool(jobs, initializer=_init_worker) as pool:
                parts = pool.map(_work, args, chunksize=1)
        else:
            parts = [_work(a) for a in args]
        evals = cases = trees = 0
        nontrivial = set()
        samples = []
        viol = {}
        for p in parts:
            if p["error"]:
                raise RuntimeError("worker failed: " + p["error"])
            evals += p["evals"]
            cases += p["cases"]
            trees += p["trees"]
            nontrivial |= p["nontrivial"]
            samples += p["samples"]
            for cls, rec in p["viol"].items():
                cur = viol.get(cls)
                if cur is None:
                    viol[cls] = dict(rec)
                else:
                    cur["count"] += rec["count"]
                    if rec["size"] < cur["size"]:
                        cur.update(v=rec["v"], case=rec["case"], size=rec["size"])
        violations = []
        for cls in sorted(viol):
            rec = viol[cls]
            small = _shrink(rec["case"], cls)
            v = rec["v"]
            if small is not rec["case"]:
                again = [x for x in check_case(small)["viol"] if x["case_class"] == cls]
                if again:
                    v = again[0]
                else:
                    small = rec["case"]
            violations.append({"case_class": cls, "contract": v["contract"], "detail": v["detail"][:6000],
                               "script": make_script(small, cls), "count": rec["count"], "origin": rec["case"].get("origin")})
        res.update({
            "bound": BOUND[prop].format(fam=len(_FAMILY()), r6=t["rand6"], r10=t["rand10"], h=t["hist"], m=t["muts"], mo=t["models"])
            + "; %d trees, %d cases in this run" % (trees, cases),
            "rule": RULE,
            "contracts": list(CONTRACTS[prop]),
            "evaluations": evals,
            "distinct_nontrivial": len(nontrivial),
            "samples": samples[:5],
            "violations": violations,
        })
    except Exception as e:  # noqa: BLE001
        import traceback

        res.update({"status": "checker_error", "reason": "%s: %s" % (type(e).__name__, e), "traceback": traceback.format_exc()})
        for k, d in (("bound", ""), ("rule", RULE), ("contracts", list(CONTRACTS.get(prop, []))), ("evaluations", 0),
                     ("distinct_nontrivial", 0), ("samples", []), ("violations", [])):
            res.setdefault(k, d)
    res["seconds"] = round(time.perf_counter() - t0, 2)
    return res


def main(argv=None):
    argv = list(sys.argv[1:] if argv is None else argv)
    if not argv or argv[0] in ("-h", "--help"):
        print("usage: python -m rtc.drv_loadsave <C02|C08|C10|C11> [quick|thorough] [seed] [jobs]")
        return 2
    prop = argv[0]
    tier = argv[1] if len(argv) > 1 else "quick"
    seed = int(argv[2]) if len(argv) > 2 else 0
    jobs = int(argv[3]) if len(argv) > 3 else None
    res = run(prop, tier, seed, jobs)
    print(json.dumps(res, indent=1, sort_keys=True, default=str))
    return 0 if res["status"] == "ok" else 1


if __name__ == "__main__":
    sys.exit(main())
