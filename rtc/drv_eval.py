"""
rtc.drv_eval -- run-time contracts on the evaluation core of esp_kconfiglib/core.py
(properties C01, C03, C05, C06, C09), checked on real executions over a stated,
deterministic small scope.  Results are `bounded`, never `proved`.

    cd /verif && .venv/bin/python -m rtc.drv_eval <prop> [quick|thorough] [seed] [jobs]

Oracles (all taken from the property statements, none from the code under test):

* C03  "discard all caches and recompute" (Kconfig._invalidate_all() on a twin that saw the same
       mutator calls and on the instance itself), "fresh instance + same final user state"
       (gen.user_state / gen.apply_user_state, canonical and permuted order), "other read order"
       (gen.snapshot vs gen.snapshot_reversed, partial reads in between), and completeness of the
       invalidation edges for everything an option's evaluation can read.
* C01  a spec function of the documented precedence rule, evaluated over an INDEPENDENT parse of
       the Kconfig text (enclosing if / menu / visible if / choice are taken from the text, not from
       the library's propagated conditions); the values of the OTHER options an option refers to
       are taken from the library (assume/guarantee: every option is checked, so the induction
       over the acyclic reference order closes), relations between two operands are evaluated
       with Kconfig.eval_string().  Plus: "a user value on an option whose prompt condition is
       false has no effect on any output" = outputs with and without that user value identical.
* C05  the selection rule of the statement evaluated on the same independent parse.
* C06  lexical well-formedness per type, membership in the active range (range taken from the
       text, bounds from the library's values of the bound options), agreement of header / CMake /
       JSON with str_value.
* C09  trees that are cyclic BY CONSTRUCTION must be rejected with a KconfigError naming the loop;
       accepted trees must evaluate everywhere without an exception.
"""

import hashlib
import inspect
import json
import math
import multiprocessing
import os
import random
import re
import sys
import tempfile
import time
import traceback

_REPO = os.environ.get("PYVC_REPO", "/repo")
if sys.path[0] != _REPO:
    sys.path.insert(0, _REPO)

import esp_kconfiglib.core as K  # noqa: E402
import kconfgen.core as KG  # noqa: E402  (imports everything it needs from _REPO now)

import rtc.gen as G  # noqa: E402  (finds esp_kconfiglib already imported from _REPO)

NAME = "drv_eval"
PROPERTIES = ["C01", "C03", "C05", "C06", "C09"]

# ----------------------------------------------------------------------------------------------
# Helpers shared by the driver and by the replay scripts (the source text below is pasted into
# every "script" so that the scripts are self-contained).
# ----------------------------------------------------------------------------------------------

_HELPERS_OWN = r'''
import os, re, sys, json, tempfile, random
_ENV_VARS = ("KCONFIG_PARSER_VERSION", "srctree", "KCONFIG_WARN_UNDEF_ASSIGN", "CONFIG_", "KCONFIG_DEFAULTS_POLICY",
             "KCONFIG_PROMPTLESS_NO_WARN", "KCONFIG_CONFIG_HEADER", "KCONFIG_AUTOHEADER_HEADER", "KCONFIG_FUNCTIONS",
             "KCONFIG_WARN_UNDEF", "KCONFIG_STRICT", "KCONFIG_AUTOHEADER", "KCONFIG_CONFIG", "KCONFIG_REPORT_VERBOSITY",
             "COMPONENT_SDKCONFIG_RENAMES", "IDF_VERSION")


def h_load(text, rename_text, d, pv):
    """Fresh Kconfig instance of the tree 'text' (+ optional sdkconfig.rename) under parser version pv."""
    for n in _ENV_VARS:
        os.environ.pop(n, None)
    path = os.path.join(d, "Kconfig")
    with open(path, "w", encoding="utf-8", newline="\n") as f:
        f.write(text)
    inst = getattr(K.KconfigReport, "_instance", None)
    if inst is not None and getattr(inst, "_initialized", False):
        inst.reset()
    k = K.Kconfig(path, parser_version=pv)
    if rename_text:
        rp = os.path.join(d, "sdkconfig.rename")
        with open(rp, "w", encoding="utf-8", newline="\n") as f:
            f.write(rename_text)
        k.load_rename_files([rp])
    return k


_h_counter = [0]


def h_apply_op(k, op, d):
    """One mutator call.  op kinds: set / unset / reset / pick / choice_unset / choice_set / reset_choice / load."""
    kind = op[0]
    if kind == "set":
        return k.syms[op[1]].set_value(op[2])
    if kind == "unset":
        return k.syms[op[1]].unset_value()
    if kind == "reset":
        return K._restore_default(k.syms[op[1]].nodes[0])
    if kind == "pick":
        return k.syms[op[1]].set_value(2)
    if kind == "choice_unset":
        return find_choice(k, op[1]).unset_value()
    if kind == "choice_set":
        return find_choice(k, op[1]).set_value(op[2])
    if kind == "reset_choice":
        return K._restore_default(find_choice(k, op[1]).nodes[0])
    if kind == "load":
        _h_counter[0] += 1
        p = os.path.join(d, "sdkconfig_%d" % _h_counter[0])
        with open(p, "w", encoding="utf-8", newline="\n") as f:
            f.write(op[2])
        try:
            return k.load_config(p, replace=op[3])
        finally:
            os.unlink(p)
    raise ValueError("unknown op %r" % (op,))


def h_modes(k):
    """user modes of the choices (Choice._user_value), part of the user state besides gen.user_state()."""
    return dict((choice_key(i, c.name), c._user_value) for i, c in enumerate(k.unique_choices) if c._user_value is not None)


def h_apply_state(k, state, modes, permute_seed=None):
    """gen.apply_user_state (canonical order) or the same assignments in a permuted order, then the choice modes."""
    if permute_seed is None:
        apply_user_state(k, state)
    else:
        rng = random.Random(permute_seed)
        selected = {}
        for idx, ch in enumerate(k.unique_choices):
            key = choice_key(idx, ch.name)
            if key in state:
                selected[state[key]] = ch
        names = [s.name for s in k.unique_defined_syms if s.name in state and s.name not in selected]
        rng.shuffle(names)
        chs = list(enumerate(k.unique_choices))
        rng.shuffle(chs)
        half = len(names) // 2

        def do_choices():
            for idx, ch in chs:
                key = choice_key(idx, ch.name)
                if key in state:
                    member = k.syms[state[key]]
                    member.set_value(2)
                    want = state.get(member.name)
                    if want is None:
                        member.unset_value()
                    elif want != 2:
                        member.set_value(want)
        for n in names[:half]:
            k.syms[n].set_value(state[n])
        do_choices()
        for n in names[half:]:
            k.syms[n].set_value(state[n])
        # members whose y was overwritten by a later pick of a sibling keep their own user value
        for idx, ch in chs:
            key = choice_key(idx, ch.name)
            if key not in state and any(state.get(m.name) == 2 for m in ch.syms):
                ch.unset_value()
    for idx, ch in enumerate(k.unique_choices):
        m = modes.get(choice_key(idx, ch.name))
        if m is not None:
            ch.set_value(m)


def h_choice_extra(k):
    """(visibility, assignable, mode) of every choice, keyed like gen.snapshot()'s choice entries."""
    return dict((choice_key(i, c.name) + "#", (c.visibility, tuple(c.assignable), c.str_value)) for i, c in enumerate(k.unique_choices))


def h_partial_reads(k, rng, frac=0.5):
    """Read a random subset of the observables in a random attribute order (warms some caches only)."""
    attrs = ("str_value", "visibility", "assignable", "config_string", "bool_value")
    for s in k.unique_defined_syms:
        if rng.random() < frac:
            order = list(attrs)
            rng.shuffle(order)
            for a in order[:rng.randint(1, len(order))]:
                getattr(s, a)
    for c in k.unique_choices:
        if rng.random() < frac:
            if rng.random() < 0.5:
                c.selection
            else:
                c.visibility


def h_outputs(k, d):
    """header (write_autoconf), kconfgen header, CMake, JSON values, sdkconfig text -- as (dict of texts, json dict)."""
    import kconfgen.core as KG
    out = {}
    p = os.path.join(d, "out_autoconf.h")
    k.write_autoconf(p, header="")
    out["autoconf"] = open(p, encoding="utf-8").read()
    p = os.path.join(d, "out_header.h")
    KG.write_header(k, p)
    out["header"] = open(p, encoding="utf-8").read()
    p = os.path.join(d, "out.cmake")
    KG.write_cmake(k, p)
    out["cmake"] = open(p, encoding="utf-8").read()
    js = KG.get_json_values(k)
    p = os.path.join(d, "out_sdkconfig")
    k.write_config(p, header="", save_old=False)
    out["sdkconfig"] = open(p, encoding="utf-8").read()
    return out, js


def h_defines(text):
    """name -> rendered token of every '#define CONFIG_<name> <token>' line."""
    res = {}
    for line in text.split("\n"):
        m = re.match(r"#define CONFIG_(\w+) (.*)\Z", line, re.S)
        if m:
            res[m.group(1)] = m.group(2)
    return res


def h_cmake_sets(text):
    res = {}
    for m in re.finditer(r'^set\(CONFIG_(\w+) "(.*?)"\)$', text, re.M | re.S):
        res[m.group(1)] = m.group(2)
    return res


def h_strip_markers(text):
    return "\n".join(l for l in text.split("\n") if l.strip() != "# default:")


_H_PRIO = (0, 1, 2, 4, 3)
_H_ATTR = ("str_value", "visibility", "assignable", "config_string", "write_to_conf")


def h_diff(s1, s2):
    """None if equal, else (key, attribute, value in s1, value in s2) of the most significant difference."""
    best = None
    for key in s1:
        a, b = s1[key], s2.get(key)
        if a == b:
            continue
        if key.endswith("#"):
            cand = (5, key, "choice-visibility/assignable/mode", a, b)
        elif not isinstance(a, tuple) or not isinstance(b, tuple):
            cand = (3, key, "selection", a, b)
        else:
            cand = None
            for rank, i in enumerate(_H_PRIO):
                if a[i] != b[i]:
                    attr = _H_ATTR[i]
                    if i == 3 and h_strip_markers(a[i]) == h_strip_markers(b[i]):
                        attr, rank = "default-marker", 6
                    cand = (rank, key, attr, a[i], b[i])
                    break
        if cand is not None and (best is None or cand[0] < best[0]):
            best = cand
    if best is None and set(s1) != set(s2):
        return ("<keys>", "keys", sorted(s1), sorted(s2))
    return None if best is None else best[1:]


def h_full(k, reverse=False):
    s = snapshot_reversed(k) if reverse else snapshot(k)
    s.update(h_choice_extra(k))
    return s


def h_c03_history(text, rename_text, pv, ops, d, read_seed, fresh=True):
    """
    Runs the history on four twins with different read disciplines and compares, after EACH op,
      A  full forward read (gen.snapshot)              -- warm caches
      B  full reversed read (gen.snapshot_reversed)    -- warm caches, config_string read first
      C  reads of a random subset only; full read at random steps and at the end -- partly warm caches
      R  Kconfig._invalidate_all() and full forward read  -- "all cached results discarded and recomputed"
      F  a FRESH instance + gen.apply_user_state(final user state) (canonical / permuted order, forward / reversed read)
    Returns (evaluations, nontrivial steps, failures, exception info or None, executed ops).
    """
    rng = random.Random(read_seed)
    A, B, C, R = (h_load(text, rename_text, d, pv) for _ in range(4))
    evals = nontrivial = 0
    fails = []
    done = []
    tainted = not fresh
    SR = h_full(R)
    for name, tw, rev in (("incremental-vs-recompute", A, False), ("reversed-read-vs-recompute", B, True)):
        evals += 1
        df = h_diff(h_full(tw, rev), SR)
        if df:
            fails.append({"cmp": name, "step": -1, "opkind": "initial", "diff": df})
    h_partial_reads(C, rng)
    prev = SR
    SA = None
    for i, op in enumerate(ops):
        if op[0] == "load" and op[2] is None:
            p = os.path.join(d, "own_sdkconfig")
            A.write_config(p, header="", save_old=False)
            op = ("load", op[1], open(p, encoding="utf-8").read(), op[3])
        if op[0] == "load" and op[1] == "marked":
            tainted = True
        done.append(op)
        opkind = "load-" + op[1] if op[0] == "load" else op[0]
        for tw in (A, B, C, R):
            h_apply_op(tw, op, d)
        st, md = user_state(A), h_modes(A)
        evals += 1
        for nm, tw in (("B", B), ("C", C), ("R", R)):
            if (user_state(tw), h_modes(tw)) != (st, md):
                fails.append({"cmp": "user-state-depends-on-reads", "step": i, "opkind": opkind,
                              "diff": ("<user state>", "user_state", (st, md), (user_state(tw), h_modes(tw)))})
        R._invalidate_all()
        SR = h_full(R)
        SA = h_full(A)
        SB = h_full(B, True)
        checks = [("incremental-vs-recompute", SA), ("reversed-read-vs-recompute", SB)]
        h_partial_reads(C, rng)
        if i == len(ops) - 1 or rng.random() < 0.35:
            checks.append(("partial-reads-vs-recompute", h_full(C, rng.random() < 0.5)))
        if not tainted:
            F = h_load(text, rename_text, d, pv)
            h_apply_state(F, st, md, None if i % 2 == 0 else read_seed + i)
            if (user_state(F), h_modes(F)) == (st, md):
                checks.append(("fresh-instance-vs-recompute", h_full(F, i % 3 == 0)))
            else:
                checks.append(None)
        for c in checks:
            if c is None:
                continue
            evals += 1
            df = h_diff(c[1], SR)
            if df:
                fails.append({"cmp": c[0], "step": i, "opkind": opkind, "diff": df})
        changed = [key for key in SR if SR[key] != prev.get(key)]
        if len(changed) >= 2 or (len(changed) == 1 and op[0] in ("set", "unset", "reset", "pick") and changed[0] != op[1]):
            nontrivial += 1
        prev = SR
        if fails:
            break
    if SA is not None and not fails:
        evals += 1
        A._invalidate_all()
        df = h_diff(SA, h_full(A))
        if df:
            fails.append({"cmp": "self-recompute", "step": len(ops) - 1, "opkind": "end", "diff": df})
    return evals, nontrivial, fails, done


def h_leaves(expr, out, rhs=False):
    """(item, is right-hand operand of a relation) for every Symbol / Choice occurring in a library expression."""
    if isinstance(expr, tuple):
        is_rel = expr[0] not in (K.AND, K.OR, K.NOT)
        for j, el in enumerate(expr[1:]):
            h_leaves(el, out, rhs or (is_rel and j == 1))
    elif hasattr(expr, "is_constant") or isinstance(expr, K.Choice):
        out.append((expr, rhs))
    return out


def h_edges(k):
    """
    Edge completeness of Kconfig._build_dep() + _add_choice_deps(): (pairs checked, {edge kind: count}, missing edges).
    For every defined option X and every non-constant symbol / choice L that X's evaluation can read, X must be in
    L._dependents.
    """
    pairs = 0
    kinds = {}
    missing = []

    def need(x, expr, kind):
        nonlocal pairs
        for leaf, rhs in h_leaves(expr, []):
            if isinstance(leaf, K.Symbol) and leaf.is_constant:
                continue
            kk = kind + ("/rhs" if rhs else "")
            pairs += 1
            if isinstance(leaf, K.Choice) or leaf.nodes:
                kinds[kk] = kinds.get(kk, 0) + 1
            if x not in leaf._dependents:
                missing.append((getattr(x, "name", None) or "<choice>", getattr(leaf, "name", None) or "<choice>", kk))

    for x in k.unique_defined_syms:
        for node in x.nodes:
            if node.prompt:
                need(x, node.prompt[1], "prompt-condition")
        for v, c in x.defaults:
            need(x, v, "default-value")
            need(x, c, "default-condition")
        for lo, hi, c in x.ranges:
            need(x, lo, "range-low")
            need(x, hi, "range-high")
            need(x, c, "range-condition")
        need(x, x.rev_dep, "select")
        need(x, x.weak_rev_dep, "imply")
        need(x, x.direct_dep, "direct-dep")
        for label, lst in (("set", x.rev_values), ("set-default", x.weak_rev_values)):
            for v, c, src in lst:
                need(x, v, label + "-value")
                need(x, c, label + "-condition")
                need(x, src, label + "-source")
        if x.choice is not None:
            need(x, x.choice, "member-reads-choice")
    for ch in k.unique_choices:
        for node in ch.nodes:
            if node.prompt:
                need(ch, node.prompt[1], "choice-prompt-condition")
        for m, c in ch.defaults:
            need(ch, c, "choice-default-condition")
        for m in ch.syms:
            need(ch, m, "choice-reads-member" + ("(conditional prompt)" if any(
                n.prompt and n.prompt[1] is not ch and n.prompt[1] is not k.y for n in m.nodes) else ""))
    return pairs, kinds, missing


def h_silence():
    try:
        os.dup2(os.open(os.devnull, os.O_WRONLY), 2)
    except OSError:
        pass
    try:
        from esp_pylib.logger import Verbosity, log
        log.set_verbosity(Verbosity.SILENT)
    except Exception:
        pass
'''

_HELPERS_GEN = "\n\n".join(inspect.getsource(f) for f in (
    G.choice_key, G.find_choice, G._read_sym, G.snapshot, G.snapshot_reversed, G.user_state, G.apply_user_state))

exec(compile(_HELPERS_OWN, "<drv_eval helpers>", "exec"), globals())
find_choice = G.find_choice
choice_key = G.choice_key
apply_user_state = G.apply_user_state
snapshot = G.snapshot
snapshot_reversed = G.snapshot_reversed
user_state = G.user_state

_SCRIPT_HEAD = (
    "#!/usr/bin/env python\n"
    "# replay script generated by rtc.drv_eval -- exit 1 if the violation shows on $PYVC_REPO (default /repo), else 0\n"
    "import os, sys\n"
    "sys.path.insert(0, os.environ.get('PYVC_REPO', '/repo'))\n"
    "import esp_kconfiglib.core as K\n"
    + _HELPERS_OWN + "\n\n" + _HELPERS_GEN + "\n\nh_silence()\n"
)


def _mk_script(body, **consts):
    """Self-contained replay program: helpers + constants + body; body sets the exit code via sys.exit()."""
    lines = [_SCRIPT_HEAD]
    for name in sorted(consts):
        lines.append("%s = %r" % (name, consts[name]))
    lines.append("d = tempfile.mkdtemp(prefix='drv_eval_replay')")
    lines.append("try:\n" + "\n".join("    " + l for l in body.strip("\n").split("\n")))
    lines.append("finally:\n    import shutil\n    shutil.rmtree(d, ignore_errors=True)")
    return "\n".join(lines) + "\n"


# ----------------------------------------------------------------------------------------------
# Independent parse of the Kconfig text (the "tree structure" the spec functions are evaluated on)
# ----------------------------------------------------------------------------------------------

_TOK = re.compile(r'\s*(?:(#.*)|("(?:[^"\\]|\\.)*")|(&&|\|\||!=|<=|>=|=|<|>|!|\(|\))|([A-Za-z0-9_.+\-]+))')
_RELOPS = ("=", "!=", "<", "<=", ">", ">=")
_TYPES = ("bool", "int", "hex", "string", "float")


def _tokens(s):
    out = []
    i = 0
    s = s.rstrip()
    while i < len(s):
        m = _TOK.match(s, i)
        if not m or m.end() == i:
            raise ValueError("cannot tokenize %r at %d" % (s, i))
        i = m.end()
        if m.group(1) is not None:
            break
        if m.group(2) is not None:
            out.append(("S", m.group(2)))
        elif m.group(3) is not None:
            out.append(("O", m.group(3)))
        else:
            out.append(("W", m.group(4)))
    return out


def _unq(tok_text):
    return re.sub(r"\\(.)", r"\1", tok_text[1:-1])


class _ExprParser:
    def __init__(self, toks):
        self.t = toks
        self.i = 0

    def peek(self):
        return self.t[self.i] if self.i < len(self.t) else (None, None)

    def take(self):
        tok = self.peek()
        self.i += 1
        return tok

    def parse(self):
        e = self.or_()
        if self.i != len(self.t):
            raise ValueError("trailing tokens in expression %r" % (self.t,))
        return e

    def or_(self):
        a = self.and_()
        while self.peek() == ("O", "||"):
            self.take()
            a = ("or", a, self.and_())
        return a

    def and_(self):
        a = self.not_()
        while self.peek() == ("O", "&&"):
            self.take()
            a = ("and", a, self.not_())
        return a

    def not_(self):
        if self.peek() == ("O", "!"):
            self.take()
            return ("not", self.not_())
        if self.peek() == ("O", "("):
            self.take()
            e = self.or_()
            if self.take() != ("O", ")"):
                raise ValueError("missing )")
            return e
        a = self.take()
        if a[0] not in ("W", "S"):
            raise ValueError("operand expected in %r" % (self.t,))
        nxt = self.peek()
        if nxt[0] == "O" and nxt[1] in _RELOPS:
            self.take()
            b = self.take()
            if b[0] not in ("W", "S"):
                raise ValueError("operand expected in %r" % (self.t,))
            return ("rel", "%s %s %s" % (a[1], nxt[1], b[1]), a, nxt[1], b)
        return ("sym", a[0], a[1])


def _expr(toks):
    return _ExprParser(toks).parse() if toks else None


def _split_if(toks):
    for i, t in enumerate(toks):
        if t == ("W", "if"):
            return toks[:i], _expr(toks[i + 1:])
    return toks, None


def _expr_names(e, acc):
    """Names (W tokens) mentioned in an expression AST."""
    if e is None:
        return acc
    if e[0] in ("or", "and"):
        _expr_names(e[1], acc)
        _expr_names(e[2], acc)
    elif e[0] == "not":
        _expr_names(e[1], acc)
    elif e[0] == "rel":
        for tok in (e[2], e[4]):
            if tok[0] == "W":
                acc.append(tok[1])
    elif e[1] == "W":
        acc.append(e[2])
    return acc


class Model:
    """
    opts:    name -> {"name","type","defs":[def...],"choice": choice dict or None,"index"}
    order:   option names in order of first definition
    choices: [{"name","defs":[cdef...],"members":[names],"index"}] in order of first definition
    A def has: prompt (bool), prompt_cond, depends [ast], frames [("if",ast)|("menu",menu)|("choice",choice)],
    defaults [(operand tokens, cond)], ranges [(lo tok, hi tok, cond)], selects/implies [(target, cond)],
    sets/weak_sets [(target, value tok, cond)].
    """

    def __init__(self, text):
        self.text = text
        self.opts = {}
        self.order = []
        self.choices = []
        self.lits = {"int": [], "hex": [], "float": [], "string": []}
        self._parse(text)
        self._index_reverse()
        self._collect_literals()

    def _parse(self, text):
        named = {}
        frames = []
        cur = None
        help_indent = None
        nseq = 0
        for raw in text.split("\n"):
            if help_indent is not None:
                if not raw.strip():
                    continue
                if len(raw) - len(raw.lstrip()) > help_indent:
                    continue
                help_indent = None
            s = raw.strip()
            if not s or s.startswith("#"):
                continue
            toks = _tokens(s)
            if not toks:
                continue
            kw = toks[0][1]
            if kw == "mainmenu":
                continue
            if kw in ("config", "menuconfig"):
                name = toks[1][1]
                d = {"prompt": False, "prompt_cond": None, "depends": [], "frames": list(frames), "defaults": [], "ranges": [],
                     "selects": [], "implies": [], "sets": [], "weak_sets": [], "seq": nseq}
                nseq += 1
                o = self.opts.get(name)
                if o is None:
                    o = {"name": name, "type": None, "defs": [], "choice": None, "index": len(self.order)}
                    self.opts[name] = o
                    self.order.append(name)
                o["defs"].append(d)
                outer = [f for f in frames if f[0] != "if"]
                if outer and outer[-1][0] == "choice":
                    ch = outer[-1][1]
                    o["choice"] = ch
                    if name not in ch["members"]:
                        ch["members"].append(name)
                cur = ("opt", o, d)
            elif kw == "choice":
                name = toks[1][1] if len(toks) > 1 else None
                ch = named.get(name) if name else None
                if ch is None:
                    ch = {"name": name, "defs": [], "members": [], "index": len(self.choices)}
                    self.choices.append(ch)
                    if name:
                        named[name] = ch
                cd = {"prompt": False, "prompt_cond": None, "depends": [], "frames": list(frames), "defaults": []}
                ch["defs"].append(cd)
                frames.append(("choice", ch))
                cur = ("choice", ch, cd)
            elif kw == "endchoice":
                assert frames.pop()[0] == "choice"
                cur = None
            elif kw == "menu":
                m = {"dep": [], "vis": [], "title": toks[1][1] if len(toks) > 1 else ""}
                frames.append(("menu", m))
                cur = ("menu", m)
            elif kw == "endmenu":
                assert frames.pop()[0] == "menu"
                cur = None
            elif kw == "if":
                frames.append(("if", _expr(toks[1:])))
                cur = None
            elif kw == "endif":
                assert frames.pop()[0] == "if"
                cur = None
            elif kw == "comment":
                cur = ("comment",)
            elif cur is None:
                raise ValueError("option line outside an entry: %r" % s)
            elif kw in _TYPES or kw == "prompt":
                if kw in _TYPES and cur[0] == "opt":
                    cur[1]["type"] = kw
                if cur[0] in ("opt", "choice") and len(toks) > 1 and toks[1][0] == "S":
                    cur[2]["prompt"] = True
                    rest = toks[2:]
                    if rest:
                        if rest[0] != ("W", "if"):
                            raise ValueError("unexpected tokens after prompt: %r" % s)
                        cur[2]["prompt_cond"] = _expr(rest[1:])
            elif kw == "depends":
                e = _expr(toks[2:])
                if cur[0] in ("opt", "choice"):
                    cur[2]["depends"].append(e)
                elif cur[0] == "menu":
                    cur[1]["dep"].append(e)
            elif kw == "visible":
                cur[1]["vis"].append(_expr(toks[2:]))
            elif kw == "default":
                operand, cond = _split_if(toks[1:])
                if cur[0] == "choice":
                    cur[2]["defaults"].append((operand[0][1], cond))
                else:
                    cur[2]["defaults"].append((operand, cond))
            elif kw == "range":
                rest, cond = _split_if(toks[1:])
                cur[2]["ranges"].append((rest[0], rest[1], cond))
            elif kw in ("select", "imply"):
                rest, cond = _split_if(toks[1:])
                cur[2]["selects" if kw == "select" else "implies"].append((rest[0][1], cond))
            elif kw == "set":
                rest = toks[1:]
                key = "sets"
                if rest[0] == ("W", "default"):
                    key = "weak_sets"
                    rest = rest[1:]
                rest, cond = _split_if(rest)
                if len(rest) != 3 or rest[1] != ("O", "="):
                    raise ValueError("cannot parse set line %r" % s)
                cur[2][key].append((rest[0][1], rest[2], cond))
            elif kw == "help":
                help_indent = len(raw) - len(raw.lstrip())
            elif kw in ("warning", "option"):
                pass
            else:
                raise ValueError("unknown Kconfig line %r" % s)
        if frames:
            raise ValueError("unclosed block")

    def _index_reverse(self):
        """Per target option: selects / implies / sets / weak sets aimed at it, in file order of the source definitions."""
        for o in self.opts.values():
            o["rev_sel"], o["rev_imp"], o["rev_set"], o["rev_wset"] = [], [], [], []
        for name in self.order:
            src = self.opts[name]
            for d in src["defs"]:
                for t, c in d["selects"]:
                    if t in self.opts:
                        self.opts[t]["rev_sel"].append((src, d, c))
                for t, c in d["implies"]:
                    if t in self.opts:
                        self.opts[t]["rev_imp"].append((src, d, c))
        # rev_values are appended when the SOURCE node is finalized, i.e. in order of the source definitions in the file
        seq = []
        for name in self.order:
            for d in self.opts[name]["defs"]:
                seq.append((self.opts[name], d))
        seq.sort(key=lambda od: od[1]["seq"])
        for src, d in seq:
            for t, v, c in d["sets"]:
                if t in self.opts:
                    self.opts[t]["rev_set"].append((src, d, v, c))
            for t, v, c in d["weak_sets"]:
                if t in self.opts:
                    self.opts[t]["rev_wset"].append((src, d, v, c))

    def _collect_literals(self):
        """Literal texts per type that occur as operands anywhere (used to pick interesting user values)."""
        def add(typ, tok):
            if typ in self.lits and tok is not None:
                if tok[0] == "S":
                    if typ == "string":
                        self.lits[typ].append(_unq(tok[1]))
                elif tok[1] not in self.opts and tok[1] not in ("y", "n"):
                    self.lits[typ].append(tok[1])

        def rels(e):
            if e is None:
                return
            if e[0] in ("or", "and"):
                rels(e[1])
                rels(e[2])
            elif e[0] == "not":
                rels(e[1])
            elif e[0] == "rel":
                for a, b in ((e[2], e[4]), (e[4], e[2])):
                    if a[0] == "W" and a[1] in self.opts:
                        add(self.opts[a[1]]["type"], b)

        for o in self.opts.values():
            for d in o["defs"]:
                for operand, c in d["defaults"]:
                    if len(operand) == 1:
                        add(o["type"], operand[0])
                    rels(c)
                for lo, hi, c in d["ranges"]:
                    add(o["type"], lo)
                    add(o["type"], hi)
                    rels(c)
                for key in ("sets", "weak_sets"):
                    for t, v, c in d[key]:
                        if t in self.opts:
                            add(self.opts[t]["type"], v)
                        rels(c)
                for key in ("selects", "implies"):
                    for t, c in d[key]:
                        rels(c)
                rels(d["prompt_cond"])
                for e in d["depends"]:
                    rels(e)
                for f in d["frames"]:
                    if f[0] == "if":
                        rels(f[1])
                    elif f[0] == "menu":
                        for e in f[1]["dep"] + f[1]["vis"]:
                            rels(e)
        for ch in self.choices:
            for cd in ch["defs"]:
                rels(cd["prompt_cond"])
                for e in cd["depends"]:
                    rels(e)
                for m, c in cd["defaults"]:
                    rels(c)
        for t in self.lits:
            seen = []
            for x in self.lits[t]:
                if x not in seen:
                    seen.append(x)
            self.lits[t] = seen


# ----------------------------------------------------------------------------------------------
# Spec functions (written from the property statements)
# ----------------------------------------------------------------------------------------------

_NUM_TYPES = ("int", "hex", "float")


def _num(typ, text):
    """Numeric reading of a value text for a numeric type, or None."""
    try:
        if typ == "int":
            return int(text, 10)
        if typ == "hex":
            return int(text, 16)
        v = float(text)
        return v if math.isfinite(v) else None
    except (ValueError, TypeError):
        return None


def _same(typ, a, b):
    if typ in _NUM_TYPES:
        if a == "" or b == "":
            return a == b
        na, nb = _num(typ, a), _num(typ, b)
        if na is None or nb is None:
            return a == b
        return na == nb
    return a == b


class Spec:
    """
    Evaluates the documented rules for ONE configuration of a loaded instance.  The user state
    (Symbol._user_value, Choice._user_selection) and the values of the options an option REFERS to are
    read from the instance; structure comes from the Model (independent parse of the text).
    """

    def __init__(self, kconf, model):
        self.k = kconf
        self.m = model
        self.memo = {}

    # -- expressions -------------------------------------------------------------------------
    def ev(self, e):
        if e is None:
            return True
        t = e[0]
        if t == "and":
            return self.ev(e[1]) and self.ev(e[2])
        if t == "or":
            return self.ev(e[1]) or self.ev(e[2])
        if t == "not":
            return not self.ev(e[1])
        if t == "rel":
            key = ("rel", e[1])
            if key not in self.memo:
                self.memo[key] = self.k.eval_string(e[1]) == 2
            return self.memo[key]
        if e[1] == "S":
            return False
        name = e[2]
        if name == "y":
            return True
        if name == "n":
            return False
        sym = self.k.syms.get(name)
        if sym is None or sym.orig_type != K.BOOL:
            return False
        return sym.bool_value == 2

    def all(self, lst):
        for e in lst:
            if not self.ev(e):
                return False
        return True

    # -- structure ---------------------------------------------------------------------------
    def dep(self, d):
        """own `depends on` && enclosing if / menu `depends on` / choice (a member needs its choice to be visible)."""
        key = ("dep", id(d))
        if key not in self.memo:
            r = self.all(d["depends"])
            if r:
                for f in d["frames"]:
                    if f[0] == "if":
                        r = self.ev(f[1])
                    elif f[0] == "menu":
                        r = self.all(f[1]["dep"])
                    else:
                        r = self.choice_vis(f[1])
                    if not r:
                        break
            self.memo[key] = r
        return self.memo[key]

    def visifs(self, d):
        for f in d["frames"]:
            if f[0] == "menu" and not self.all(f[1]["vis"]):
                return False
        return True

    def pcond(self, d):
        return d["prompt"] and self.ev(d["prompt_cond"]) and self.dep(d) and self.visifs(d)

    def opt_vis(self, name):
        key = ("vis", name)
        if key not in self.memo:
            self.memo[key] = any(self.pcond(d) for d in self.m.opts[name]["defs"])
        return self.memo[key]

    def choice_vis(self, ch):
        key = ("cvis", ch["index"])
        if key not in self.memo:
            self.memo[key] = any(self.pcond(cd) for cd in ch["defs"])
        return self.memo[key]

    def direct_dep(self, o):
        return any(self.dep(d) for d in o["defs"])

    # -- choices (C05) -----------------------------------------------------------------------
    def selection(self, ch):
        """(selected member name or None, reason)"""
        key = ("sel", ch["index"])
        if key in self.memo:
            return self.memo[key]
        res = (None, "choice-invisible")
        if self.choice_vis(ch):
            lib = self.k.unique_choices[ch["index"]]
            pick = lib._user_selection.name if lib._user_selection is not None else None
            if pick is not None and pick in ch["members"] and self.opt_vis(pick):
                res = (pick, "user-pick")
            else:
                res = None
                passed_invisible = False
                for cd in ch["defs"]:
                    for m, c in cd["defaults"]:
                        if self.ev(c) and self.dep(cd):
                            if m in ch["members"] and self.opt_vis(m):
                                res = (m, "default-after-invisible" if passed_invisible else "default")
                                break
                            passed_invisible = True
                    if res:
                        break
                if res is None:
                    for m in ch["members"]:
                        if self.opt_vis(m):
                            res = (m, "first-visible" + ("-pick-invisible" if pick else ""))
                            break
                if res is None:
                    res = (None, "no-visible-member")
        self.memo[key] = res
        return res

    # -- values (C01) ------------------------------------------------------------------------
    def opval(self, tok):
        """value denoted by a non-bool operand token: quoted literal, option (its current value) or bare literal"""
        if tok[0] == "S":
            return _unq(tok[1]), "lit"
        if tok[1] in self.m.opts:
            return self.k.syms[tok[1]].str_value, "sym"
        return tok[1], "lit"

    def active_range(self, o):
        """(low, high, def, tokens) of the first range whose condition holds, bounds as numbers (None if not numeric)."""
        for d in o["defs"]:
            for lo, hi, c in d["ranges"]:
                if self.ev(c) and self.dep(d):
                    return (_num(o["type"], self.opval(lo)[0]), _num(o["type"], self.opval(hi)[0]),
                            lo[1] in self.m.opts, hi[1] in self.m.opts)
        return None

    def value(self, name):
        """
        (expected value, branch tag, skip reason or None).  For numeric types the expected value is a number
        (compare numerically) or "" ; for bool "y"/"n"; for string the string.
        """
        o = self.m.opts[name]
        typ = o["type"]
        sym = self.k.syms[name]
        vis = self.opt_vis(name)
        user = sym._user_value
        if typ == "bool":
            if o["choice"] is not None:
                sel, why = self.selection(o["choice"])
                return ("y" if sel == name else "n"), "choice:" + why, None
            if vis and user is not None:
                val, tag = (user == 2), "user"
            else:
                val, tag = False, "none"
                for d in o["defs"]:
                    hit = False
                    for operand, c in d["defaults"]:
                        if self.ev(c) and self.dep(d):
                            val, tag, hit = self.ev(_expr(list(operand))), "default", True
                            break
                    if hit:
                        break
                if not val and self.direct_dep(o):
                    for src, d, c in o["rev_imp"]:
                        if self._src_y(src) and self.ev(c) and self.dep(d):
                            val, tag = True, "imply"
                            break
                if user is not None and not vis:
                    tag += "+hidden-user"
            if not val:
                for src, d, c in o["rev_sel"]:
                    if self._src_y(src) and self.ev(c) and self.dep(d):
                        val, tag = True, "select-over-" + tag
                        break
            return ("y" if val else "n"), tag, None

        rng = self.active_range(o) if typ in _NUM_TYPES else None
        val, tag, skip = None, None, None
        for src, d, v, c in o["rev_set"]:
            if self._src_y(src) and self.ev(c) and self.dep(d):
                val, kind = self.opval(v)
                tag = "set-" + kind
                break
        if val is None and vis and user is not None:
            if typ in _NUM_TYPES and rng is not None:
                u = _num(typ, user)
                if rng[0] is None or rng[1] is None or u is None:
                    return None, "user", "range bound or user value not numeric"
                if rng[0] <= u <= rng[1]:
                    val, tag = user, "user-in-range"
                else:
                    tag = "user-out-of-range>"
            else:
                val, tag = user, "user"
        if val is None:
            pre = tag or ""
            if user is not None and not vis:
                pre = "hidden-user>"
            if self.direct_dep(o):
                for src, d, v, c in o["rev_wset"]:
                    if self._src_y(src) and self.ev(c) and self.dep(d):
                        val, kind = self.opval(v)
                        tag = pre + "setdefault-" + kind
                        break
            if val is None:
                for d in o["defs"]:
                    for operand, c in d["defaults"]:
                        if self.ev(c) and self.dep(d):
                            val, kind = self.opval(operand[0])
                            tag = pre + "default-" + kind
                            break
                    if val is not None:
                        break
            if val is None:
                val, tag = "", pre + "none"
        if typ in _NUM_TYPES:
            if val == "":
                if rng is not None:
                    skip = "numeric option without a fallback default under an active range"
                return "", tag, skip
            n = _num(typ, val)
            if n is None:
                return None, tag, "the providing operand %r is not a well-formed %s" % (val, typ)
            if rng is not None:
                if rng[0] is None or rng[1] is None:
                    return None, tag, "range bound not numeric"
                if rng[0] > rng[1]:
                    return None, tag, "empty range (low > high)"
                if n < rng[0]:
                    n, tag = rng[0], tag + "+clamped"
                elif n > rng[1]:
                    n, tag = rng[1], tag + "+clamped"
            return n, tag, None
        return val, tag, None

    def _src_y(self, src):
        s = self.k.syms.get(src["name"])
        return s is not None and s.orig_type == K.BOOL and s.bool_value == 2


def _val_matches(typ, expected, observed):
    if typ in _NUM_TYPES:
        if expected == "":
            return observed == ""
        n = _num(typ, observed)
        return n is not None and n == expected
    return expected == observed


# ----------------------------------------------------------------------------------------------
# Scope: hand-written trees (shapes the random grammar rarely or never produces), gen.small_trees(3),
# random trees gen_tree(Random(seed*1000003+i), n)  (== gen.corpus(seed, count)[len(small_trees(2)) + i])
# ----------------------------------------------------------------------------------------------

_HAND = []


def _hand(name, body):
    _HAND.append((name, 'mainmenu "T"\n\n' + body.strip("\n") + "\n"))


_hand("range-sym-bounds-int", '''
config FLOOR
    int "floor"
    default 0

config LIMIT
    int "limit"
    default 10

config VAL
    int "val"
    range FLOOR LIMIT
    default 8

config BIG
    bool
    default y if VAL > 6

config LOWISH
    bool
    default y if 3 >= VAL
''')

_hand("range-sym-bounds-hex-float", '''
config HLO
    hex "hlo"
    default 0x0

config HHI
    hex "hhi"
    default 0x80

config HVAL
    hex "hval"
    range HLO HHI
    default 0x50

config FLO
    float "flo"
    default 0.0

config FHI
    float "fhi"
    default 80.0

config FVAL
    float "fval"
    range FLO FHI
    default 50.0

config HBIG
    bool
    default y if HVAL > 0x40

config FBIG
    bool
    default y if FVAL > 40.0
''')

_hand("range-sym-conditional", '''
config NARROW
    bool "narrow"
    default n

config TOP
    int "top"
    default 100

config BOT
    int "bot"
    default -10

config WIDTH
    int "width"
    range 0 TOP if NARROW
    range BOT 1000
    default 500

config USES
    int
    default WIDTH
''')

_hand("rhs-comparison", '''
config MINL
    int "minl"
    default 1

config MAXL
    int "maxl"
    default 100

config RANGE_OK
    bool
    default y if MINL <= MAXL

config FEATURE
    bool "feature"
    depends on RANGE_OK
    default y

config NAME1
    string "name1"
    default "abc"

config NAME2
    string "name2"
    default "abc"

config SAME
    bool
    default y if NAME1 = NAME2

config TUNE
    int "tune" if 50 < MAXL
    range 0 9 if 5 > MINL
    default 7
''')

_hand("set-string-from-symbol", '''
config SRC
    string "src"
    default "alpha"

config ALT
    string "alt"
    default "beta"

config EN
    bool "en"
    default y
    set TGT=SRC

config ENW
    bool "enw"
    default n
    set default WTGT=ALT

config TGT
    string "tgt"
    default "x"

config WTGT
    string "wtgt"
    default "w"

config SEES
    bool
    default y if TGT = "alpha"
''')

_hand("set-number-with-range", '''
config TURBO
    bool "turbo"
    set CLOCK=240
    set HCLK=0x50

config ECO
    bool "eco"
    set default CLOCK=40
    set default HCLK=0x8

config CLOCK
    int "clock"
    range 0 200
    default 80

config HCLK
    hex "hclk"
    range 0x0 0x10
    default 0x4

config LABEL
    string "label"
    default "std"

config FAST
    bool
    default y if CLOCK > 100
''')

_hand("set-float-and-symbolic-bound", '''
config BOOST
    bool "boost"
    set GAIN=9.5
    set LEVEL=70

config CAP
    int "cap"
    default 50

config GAIN
    float "gain"
    range 0.0 5.0
    default 1.0

config LEVEL
    int "level"
    range 0 CAP
    default 20
''')

_hand("choice-conditional-members", '''
config P
    bool "p"
    default y

config Q
    bool "q"
    default y

config GATE
    bool "gate"
    default y

choice CH
    prompt "ch" if GATE
    default MB if Q
    default MC

    config MA
        bool "ma"

    config MB
        bool "mb" if P

    config MC
        bool "mc"

endchoice

config AFTER
    int "after"
    default 1 if MA
    default 2 if MB
    default 3 if MC
    default 0
''')

_hand("choice-defaults-chain", '''
config P1
    bool "p1"
    default n

config P2
    bool "p2"
    default n

config K1
    bool "k1"
    default y

choice
    prompt "mode"
    default M2 if K1
    default M3 if K1
    default M4

    config M1
        bool "m1"

    config M2
        bool "m2" if P1

    config M3
        bool "m3"
        depends on P2

    config M4
        bool "m4"

endchoice
''')

_hand("choice-in-visible-if-menu-and-if", '''
config SHOW
    bool "show"
    default y

config EXTRA
    bool "extra"
    default n

menu "outer"
    visible if SHOW

    choice INNER
        prompt "inner"
        default N2

        config N1
            bool "n1"

        if EXTRA

            config N2
                bool "n2"

        endif

        config N3
            bool "n3"
            depends on !EXTRA

    endchoice

endmenu

config TAIL
    string "tail"
    default "one" if N1
    default "two" if N2
    default "three"
''')

_hand("choice-defined-twice", '''
config W
    bool "w"
    default n

choice TWICE
    prompt "twice"
    default T2

    config T1
        bool "t1"

    config T2
        bool "t2" if W

endchoice

config MID
    bool "mid"
    default y

choice TWICE
    default T3 if MID

    config T3
        bool "t3"

endchoice
''')

_hand("nested-visible-if", '''
config EXPERT
    bool "expert"
    default n

config TUNING
    bool "tuning"
    default y

config COND
    bool "cond"
    default y

menu "Advanced"
    visible if EXPERT

    config ADV_DIRECT
        int "adv direct"
        default 3

    menu "Tuning"
        visible if TUNING

        config TUNE_LEVEL
            int "tune level"
            default 5

        config TUNE_ON
            bool "tune on"
            default n

        config TUNE_NAME
            string "tune name"
            default "std"

        if COND

            config TUNE_MASK
                hex "tune mask"
                default 0x1

        endif

        menu "Deep"

            config DEEPEST
                bool "deepest"
                default n

        endmenu

    endmenu

    menu "Plain nested menu"

        config PLAIN_FLAG
            bool "plain flag"
            default n

    endmenu

endmenu

config DERIVED
    int
    default 1000 if TUNE_LEVEL > 50
    default 100 if TUNE_ON
    default 10 if PLAIN_FLAG || DEEPEST
    default 1
''')

_hand("string-empty-user-value", '''
config NET
    bool "net"
    default y

config HOSTNAME
    string "hostname"
    depends on NET
    default "espressif"

config BANNER
    string "banner"
    default "hello"

config BRANDING
    bool "branding"
    default n
    set default HOSTNAME="vendor-host"
    set default BANNER="vendor"

config LOCKDOWN
    bool "lockdown"
    default n
    set BANNER="locked"

config HAS_HOSTNAME
    bool
    default y if HOSTNAME != ""

config NO_BANNER
    bool
    default y if BANNER = ""
''')

_hand("two-choices", '''
choice TRANSPORT
    prompt "transport"

    config TRANSPORT_UART
        bool "uart"

    config TRANSPORT_USB
        bool "usb"

endchoice

config SILENT
    bool "silent"
    default n

choice CONSOLE
    prompt "console"

    config CONSOLE_UART
        bool "console uart"
        depends on TRANSPORT_UART

    config CONSOLE_NONE
        bool "console none"

endchoice

config QUIET
    bool
    default y if CONSOLE_NONE && !SILENT
''')

_hand("select-imply-deps", '''
config HW
    bool "hw"
    default y

config DRV
    bool "drv"
    default n
    select CORE
    imply EXTRAS
    imply LOGGING

config CORE
    bool "core"
    depends on HW

config EXTRAS
    bool "extras"
    depends on HW

config LOGGING
    bool "logging"
    default n

config HIDDENSEL
    bool
    select CORE if LOGGING
''')

_hand("multi-def-prompts", '''
config MODE
    bool "mode"
    default n

config SIZE
    int "size" if MODE
    range 1 8
    default 4

config OTHER
    bool "other"
    default y

menu "dup SIZE"
    depends on OTHER

    config SIZE
        int "size again" if !MODE
        range 1 64 if OTHER
        default 32

endmenu

config TOTAL
    int
    default SIZE
''')

_hand("default-from-choice-member", '''
choice FLAVOR
    prompt "flavor"
    default FL_B

    config FL_A
        bool "fl a"

    config FL_B
        bool "fl b"
        set SPEED=7
        set default NOTE="bee"

endchoice

config SPEED
    int "speed"
    range 0 9
    default 3 if FL_A
    default 5

config NOTE
    string "note"
    default "ay" if FL_A
    default "none"

config FAST_NOTE
    bool
    default y if NOTE = "bee" && SPEED >= 7
''')

_hand("set-chain-and-cond", '''
config LVL
    int "lvl"
    default 2

config STEP1
    bool "step1"
    default y
    set MIDS="m1" if LVL > 1
    set default ENDV=11

config MIDS
    string "mids"
    default "m0"

config STEP2
    bool "step2"
    default y if MIDS = "m1"
    set ENDV=99 if MIDS = "m1" && LVL < 5

config ENDV
    int "endv"
    range 0 50 if LVL > 3
    default 1
''')

_hand("float-and-hex-forms", '''
config RATIO
    float "ratio"
    range -1.5 1e2
    default 2.50

config OFFSET
    hex "offset"
    range 0x10 0xFF
    default ab

config COUNT
    int "count"
    range -5 5
    default 0

config HALF
    bool
    default y if RATIO >= 0.5

config MASKED
    bool
    default y if OFFSET > 0x7f
''')


def _hand_trees():
    return [G.TreeSpec(text, origin="hand:" + name) for name, text in _HAND]


_SIZES = {
    # tier: (random trees, n_syms, histories per (tree, parser), history length, configurations per tree for C01)
    "quick": {"rand": 400, "n_syms": 6, "hist": 3, "hlen": 8, "hand_hist": 8, "hand_hlen": 10, "cfgs": 24, "hand_cfgs": 90},
    "thorough": {"rand": 4000, "n_syms": 7, "hist": 5, "hlen": 10, "hand_hist": 40, "hand_hlen": 12, "cfgs": 70, "hand_cfgs": 600},
}


def _tasks(tier, seed):
    """[(kind, index)] : hand / small / rand.  The random part is the only one that depends on the seed."""
    sz = _SIZES[tier]
    n_small = sum(1 for _ in G.small_trees(3))
    return [("hand", i) for i in range(len(_HAND))] + [("small", i) for i in range(n_small)] + [("rand", i) for i in range(sz["rand"])]


_small_cache = []


def _tree_of(task, tier, seed):
    kind, i = task
    if kind == "hand":
        return _hand_trees()[i]
    if kind == "small":
        if not _small_cache:
            _small_cache.extend(G.small_trees(3))
        return _small_cache[i]
    spec = G.gen_tree(random.Random(seed * 1000003 + i), _SIZES[tier]["n_syms"])
    spec.origin = "random:%d:%d" % (seed, i)
    return spec


def _pvs(task):
    """hand trees run under both parser versions, the others alternate (index parity)"""
    kind, i = task
    return (1, 2) if kind == "hand" else ((1,) if i % 2 == 0 else (2,))


def _task_rng(prop, task, seed, salt=0):
    h = hashlib.sha256(("%s|%s|%d|%d|%d" % (prop, task[0], task[1], seed if task[0] == "rand" else 0, salt)).encode()).hexdigest()
    return random.Random(int(h[:16], 16))


# ----------------------------------------------------------------------------------------------
# user values and histories
# ----------------------------------------------------------------------------------------------

# lexically unusual numbers (C06 quantifier: "differently formatted numbers ... arriving via set_value, sdkconfig files")
_ODD = {
    "int": ("010", "+5", "1_0", " 7", "7 ", "-0", "١٢"),
    "hex": ("0X1f", "1_f", "+0x5", " ff", "-0", "0x00ff"),
    "float": ("5", "1e3", "1_0.5", " 7", "+2.5", "-0", "1E+30", ".5", "5."),
    "string": (),
    "bool": (),
}


def _near(typ, text):
    n = _num(typ, text)
    if n is None:
        return []
    if typ == "int":
        return [str(n - 1), str(n), str(n + 1)]
    if typ == "hex":
        return [hex(c) for c in (n - 1, n, n + 1) if c >= 0]
    return [repr(c) for c in (n - 0.5, n, n + 0.5)]


def _candidates(model, name, odd=False):
    """(valid values, malformed values) worth assigning to option 'name' (deterministic)."""
    o = model.opts[name]
    typ = o["type"]
    valid, bad = G.VALUES[typ]
    valid = list(valid)
    if typ in _NUM_TYPES:
        for lit in model.lits[typ]:
            for v in _near(typ, lit):
                if v not in valid:
                    valid.append(v)
        if odd:
            valid += [v for v in _ODD[typ] if v not in valid]
    elif typ == "string":
        for lit in model.lits["string"]:
            if lit not in valid:
                valid.append(lit)
    return valid, list(bad)


def _sdk_line(model, name, value):
    typ = model.opts[name]["type"]
    if typ == "bool":
        return "CONFIG_%s=y" % name if value in (2, "y") else "# CONFIG_%s is not set" % name
    if typ == "string":
        return 'CONFIG_%s="%s"' % (name, value.replace("\\", "\\\\").replace('"', '\\"'))
    return "CONFIG_%s=%s" % (name, value)


def _gen_load_text(rng, model, marked, odd):
    names = [n for n in model.order if rng.random() < 0.55]
    rng.shuffle(names)
    lines = []
    for n in names:
        valid, bad = _candidates(model, n, odd)
        pool = bad if (bad and rng.random() < 0.1) else valid
        v = rng.choice(pool)
        if model.opts[n]["type"] == "bool" and v not in (2, 0, "y", "n"):
            v = "y"
        if "\n" in str(v):
            continue
        if marked and rng.random() < 0.5:
            lines.append("# default:")
        lines.append(_sdk_line(model, n, v))
    return "\n".join(lines) + "\n"


def _gen_history(rng, model, length, loads=("plain",), odd=False):
    """
    History of 'length' mutator calls over the options / choices of the model (see h_apply_op for the kinds).
    load ops carry their text: ("load", kind, text, replace); kind 'own' gets its text at run time (the
    instance's own write_config output).
    """
    names = list(model.order)
    members = [n for n in names if model.opts[n]["choice"] is not None]
    ckeys = [G.choice_key(c["index"], c["name"]) for c in model.choices]
    ops = []
    for _ in range(length):
        r = rng.random()
        if members and r < 0.12:
            ops.append(("pick", rng.choice(members)))
        elif ckeys and r < 0.15:
            ops.append(("choice_unset", rng.choice(ckeys)))
        elif ckeys and r < 0.17:
            ops.append(("choice_set", rng.choice(ckeys), rng.choice((2, 0, "y", "n"))))
        elif ckeys and r < 0.19:
            ops.append(("reset_choice", rng.choice(ckeys)))
        elif r < 0.28:
            ops.append(("unset", rng.choice(names)))
        elif r < 0.36:
            ops.append(("reset", rng.choice(names)))
        elif loads and r < 0.46:
            kind = rng.choice(loads)
            if kind == "own":
                ops.append(("load", "own", None, rng.random() < 0.7))
            else:
                ops.append(("load", kind, _gen_load_text(rng, model, kind == "marked", odd), rng.random() < 0.6))
        else:
            name = rng.choice(names)
            valid, bad = _candidates(model, name, odd)
            pool = bad if (bad and rng.random() < 0.15) else valid
            ops.append(("set", name, rng.choice(pool)))
    return ops


def _opkind(op):
    return "load-" + op[1] if op[0] == "load" else op[0]


def _op_for_script(op):
    return op


def _configs(rng, model, count, odd=False):
    """Assignments (lists of ("set"/"pick", name, value)) : empty, every single value, then random combinations."""
    names = list(model.order)
    cands = {}
    for n in names:
        valid, bad = _candidates(model, n, odd)
        if model.opts[n]["type"] == "bool":
            valid = [2, 0]
        cands[n] = valid
    out = [[]]
    singles = [[("set", n, v)] for n in names for v in cands[n]]
    rng.shuffle(singles)
    out += singles[:max(0, count // 2)]
    while len(out) < count:
        k = rng.randint(2, max(2, len(names)))
        chosen = [n for n in names if rng.random() < k / max(1, len(names))]
        out.append([("set", n, rng.choice(cands[n])) for n in chosen])
    return out[:count]


# ----------------------------------------------------------------------------------------------
# result accumulation
# ----------------------------------------------------------------------------------------------

class Acc:
    def __init__(self):
        self.evals = 0
        self.nontrivial = 0
        self.viol = {}      # case_class -> first witness dict (+ "count")
        self.samples = []
        self.branches = {}

    def violation(self, case_class, contract, detail, script_fn):
        v = self.viol.get(case_class)
        if v is None:
            try:
                script = script_fn()
            except Exception as e:  # noqa: BLE001
                script = "# script generation failed: %r" % (e,)
            self.viol[case_class] = {"case_class": case_class, "contract": contract, "detail": detail, "script": script, "count": 1}
        else:
            v["count"] += 1

    def branch(self, tag):
        self.branches[tag] = self.branches.get(tag, 0) + 1

    def sample(self, s):
        if len(self.samples) < 2:
            self.samples.append(s)

    def dump(self):
        return {"evals": self.evals, "nontrivial": self.nontrivial, "viol": self.viol, "samples": self.samples, "branches": self.branches}


def _short(text, n=300):
    text = str(text)
    return text if len(text) <= n else text[:n] + "..."


def _exc_where(e):
    tb = traceback.extract_tb(e.__traceback__)
    for fr in reversed(tb):
        if "/esp_kconfiglib/" in fr.filename or "/kconfgen/" in fr.filename:
            return "%s:%s" % (os.path.basename(os.path.dirname(fr.filename)) + "/" + os.path.basename(fr.filename), fr.name)
    return tb[-1].name if tb else "?"


_BODY_EXC = '''
try:
    k = h_load(TEXT, RENAME, d, PV)
    for op in OPS:
        h_apply_op(k, op, d)
    snapshot(k)
    snapshot_reversed(k)
    h_choice_extra(k)
    h_outputs(k, d)
except BaseException as e:
    if isinstance(e, SystemExit):
        raise
    print("exception:", type(e).__name__, e)
    sys.exit(1)
print("no exception")
sys.exit(0)
'''


def _report_exception(acc, e, spec, pv, ops, phase):
    where = _exc_where(e)
    acc.violation(
        "exception:%s:%s" % (type(e).__name__, where),
        "every mutator / every read / every generator: returns without raising on an accepted tree",
        "%s raised in %s (%s) on tree %s parser %d after ops %s" % (type(e).__name__, where, _short(e, 200), spec.origin, pv, _short(ops, 400)),
        lambda: _mk_script(_BODY_EXC, TEXT=spec.text, RENAME=spec.rename_text, PV=pv, OPS=[o for o in ops if o is not None]),
    )


# ----------------------------------------------------------------------------------------------
# C03
# ----------------------------------------------------------------------------------------------

_BODY_C03 = '''
ev, nt, fails, done = h_c03_history(TEXT, RENAME, PV, OPS, d, READ_SEED, FRESH)
for f in fails:
    print("C03 violated:", f["cmp"], "after step", f["step"], f["opkind"], "->", f["diff"])
    if EXPECT_CMP is None or (f["cmp"], f["diff"][1]) == EXPECT_CMP:
        sys.exit(1)
print("no difference" if not fails else "other difference only")
sys.exit(0)
'''

_BODY_EDGES = '''
k = h_load(TEXT, RENAME, d, PV)
pairs, kinds, missing = h_edges(k)
for m in missing:
    print("missing invalidation edge: %s is not in %s._dependents (%s)" % m)
sys.exit(1 if any(m[2] == KIND for m in missing) else 0)
'''


def _c03_run_history(text, rename, pv, ops, d, read_seed, fresh=True):
    try:
        ev, nt, fails, done = h_c03_history(text, rename, pv, ops, d, read_seed, fresh)
        return ev, nt, fails, done, None
    except Exception as e:  # noqa: BLE001
        return 0, 0, [], list(ops), e


def _minimize_ops(ops, still_fails, budget=40):
    """greedy one-at-a-time removal of ops while still_fails(ops) holds"""
    ops = list(ops)
    i = 0
    while i < len(ops) and budget > 0:
        cand = ops[:i] + ops[i + 1:]
        budget -= 1
        if still_fails(cand):
            ops = cand
        else:
            i += 1
    return ops


def _c03_task(acc, task, tier, seed, d, state):
    spec = _tree_of(task, tier, seed)
    model = Model(spec.text)
    sz = _SIZES[tier]
    hand = task[0] == "hand"
    n_hist = sz["hand_hist"] if hand else (sz["hist"] if task[0] == "rand" else 2)
    hlen = sz["hand_hlen"] if hand else (sz["hlen"] if task[0] == "rand" else 6)
    for pv in _pvs(task):
        # --- edge completeness, right after construction
        try:
            k = h_load(spec.text, spec.rename_text, d, pv)
            pairs, kinds, missing = h_edges(k)
        except Exception as e:  # noqa: BLE001
            _report_exception(acc, e, spec, pv, [], "construction")
            continue
        acc.evals += pairs
        for kk, n in kinds.items():
            if kk.startswith(("range-", "set-value", "set-default-value", "choice-reads-member(", "member-reads")) or kk.endswith("/rhs"):
                acc.nontrivial += n
            acc.branch("edge:" + kk)
        for x, leaf, kk in missing:
            acc.violation(
                "missing-edge:" + kk, "Kconfig._build_dep/_add_choice_deps: every item an option's evaluation reads has the option in _dependents",
                "tree %s parser %d: %s reads %s (%s) but is not in %s._dependents" % (spec.origin, pv, x, leaf, kk, leaf),
                lambda kk=kk: _mk_script(_BODY_EDGES, TEXT=spec.text, RENAME=spec.rename_text, PV=pv, KIND=kk))
        # --- histories
        for h in range(n_hist):
            rng = _task_rng("C03", task, seed, pv * 1000 + h)
            ops = _gen_history(rng, model, hlen, loads=("plain", "plain", "own", "marked"))
            read_seed = rng.randrange(1 << 30)
            ev, nt, fails, done, exc = _c03_run_history(spec.text, spec.rename_text, pv, ops, d, read_seed)
            acc.evals += ev
            acc.nontrivial += nt
            if exc is not None:
                _report_exception(acc, exc, spec, pv, done, "history")
                continue
            if h == 0 and pv == 1:
                acc.sample({"tree": spec.origin, "parser": pv, "ops": _short(done, 300)})
            for f in fails:
                cls = "%s:%s:%s" % (f["cmp"], f["diff"][1], f["opkind"])
                # one known root cause gets its own class: the differing option is an int / hex / float target of a
                # `set` / `set default` whose operand is a symbol.  The numeric branches of str_value test the operand's
                # name, treat it as a malformed literal and then leave _has_active_indirect_set as the previous
                # evaluation left it (KNOWN_FINDINGS: precedence:<type>:set-sym), so the result depends on history.
                tsym = k.syms.get(f["diff"][0]) if isinstance(f["diff"][0], str) else None
                if tsym is not None and tsym.orig_type in (K.INT, K.HEX, K.FLOAT) and any(
                        not (K.is_float(v.name) if tsym.orig_type == K.FLOAT else K._is_base_n(v.name, 16 if tsym.orig_type == K.HEX else 10))
                        for v, _c, _s in list(tsym.rev_values) + list(tsym.weak_rev_values)):
                    cls += ":numeric-target-of-set-with-symbol-operand"
                if cls in acc.viol:
                    acc.viol[cls]["count"] += 1
                    continue
                prefix = done[:f["step"] + 1]
                want = (f["cmp"], f["diff"][1])

                def still(cand, want=want):
                    r = _c03_run_history(spec.text, spec.rename_text, pv, cand, d, read_seed)
                    return r[4] is None and any((x["cmp"], x["diff"][1]) == want for x in r[2])
                if state["minimized"] < 8:
                    state["minimized"] += 1
                    small = _minimize_ops(prefix, still)
                    if not still(small):
                        small = prefix
                else:
                    small = prefix
                key, attr, lhs, rhs = f["diff"]
                acc.violation(
                    cls, "mutators (%s): every cached result equals its recomputation / a fresh instance / any read order" % f["opkind"],
                    "tree %s parser %d, history %s (minimised: %s): %s of %s is %s under '%s' but %s after recomputation" % (
                        spec.origin, pv, _short(prefix, 300), _short(small, 300), attr, key, _short(repr(lhs), 120), f["cmp"], _short(repr(rhs), 120)),
                    lambda small=small, want=want: _mk_script(_BODY_C03, TEXT=spec.text, RENAME=spec.rename_text, PV=pv, OPS=small,
                                                              READ_SEED=read_seed, FRESH=True, EXPECT_CMP=want))


# ----------------------------------------------------------------------------------------------
# C01
# ----------------------------------------------------------------------------------------------

_BODY_VALUE = '''
k = h_load(TEXT, RENAME, d, PV)
for op in OPS:
    h_apply_op(k, op, d)
obs = WHAT(k)
print(DESCR)
print("observed:", repr(obs), " expected:", repr(EXPECT))
sys.exit(0 if SAME(obs, EXPECT) else 1)
'''


def _value_script(spec, pv, ops, what_src, expect, same_src, descr):
    body = _BODY_VALUE.replace("WHAT(k)", "(%s)" % what_src).replace("SAME(obs, EXPECT)", "(%s)" % same_src)
    return _mk_script(body, TEXT=spec.text, RENAME=spec.rename_text, PV=pv, OPS=list(ops), EXPECT=expect, DESCR=descr)


_SAME_SRC = {
    "int": "obs != '' and EXPECT != '' and int(obs, 10) == EXPECT if EXPECT != '' else obs == ''",
    "hex": "obs != '' and int(obs, 16) == EXPECT if EXPECT != '' else obs == ''",
    "float": "obs != '' and float(obs) == EXPECT if EXPECT != '' else obs == ''",
    "string": "obs == EXPECT",
    "bool": "obs == EXPECT",
}

_BODY_NOEFFECT = '''
def outs(ops):
    k = h_load(TEXT, RENAME, d, PV)
    for op in ops:
        h_apply_op(k, op, d)
    vals = dict((s.name, (s.str_value, s.visibility, tuple(s.assignable))) for s in k.unique_defined_syms)
    for i, c in enumerate(k.unique_choices):
        vals["choice %d" % i] = c.selection.name if c.selection else None
    o, js = h_outputs(k, d)
    o["sdkconfig"] = h_strip_markers(o["sdkconfig"])
    return vals, o, js
with_value = outs(OPS)
without = outs([op for op in OPS if op[1] != HIDDEN])
print("user value on %s, whose prompt condition is false" % HIDDEN)
bad = False
for a, b, label in zip(with_value, without, ("values", "generated files", "json")):
    if a != b:
        bad = True
        for key in a:
            if a[key] != b.get(key):
                print(label, key, ": with", repr(a[key])[:300], "| without", repr(b.get(key))[:300])
sys.exit(1 if bad else 0)
'''


def _core_tag(tag):
    t = tag.split(">")[-1]
    return t.replace("+clamped", "").replace("+hidden-user", "")


def _check_values(acc, spec, model, pv, ops, k, sp, prop="C01"):
    """spec value / visibility / selection against the library for every option and choice of one configuration"""
    for name in model.order:
        o = model.opts[name]
        sym = k.syms[name]
        typ = o["type"]
        acc.evals += 1
        v = 2 if sp.opt_vis(name) else 0
        if v != sym.visibility:
            acc.violation(
                "visibility:%s%s" % (typ, ":choice-member" if o["choice"] else ""),
                "Symbol.visibility / _visibility: y iff some prompt's condition && inherited depends on / if / menu && every enclosing visible if holds",
                "tree %s parser %d after %s: visibility of %s is %d, the tree structure prescribes %d" % (spec.origin, pv, _short(ops), name, sym.visibility, v),
                lambda name=name, v=v: _value_script(spec, pv, ops, "k.syms[%r].visibility" % name, v, "obs == EXPECT", "visibility of %s" % name))
        exp, tag, skip = sp.value(name)
        if skip:
            acc.branch("skip:" + skip[:40])
            continue
        acc.branch("%s:%s" % (typ, _core_tag(tag)))
        if _core_tag(tag) not in ("default-lit", "none", "default", "choice:default", "choice:first-visible") or ">" in tag or "+" in tag:
            acc.nontrivial += 1
        obs = sym.str_value
        if not _val_matches(typ, exp, obs):
            cls = "precedence:%s:%s%s" % (typ, _core_tag(tag), ":empty" if exp == "" and typ == "string" else "")
            acc.violation(
                cls, "Symbol.str_value: set > visible user value (in range) > set default under direct deps > first true default > n/empty; select / imply for bool",
                "tree %s parser %d after %s: %s (%s) is %r, the documented precedence (deciding step: %s) prescribes %r" % (
                    spec.origin, pv, _short(ops), name, typ, obs, tag, exp),
                lambda name=name, exp=exp, typ=typ, tag=tag: _value_script(
                    spec, pv, ops, "k.syms[%r].str_value" % name, exp, _SAME_SRC[typ], "str_value of %s (%s), deciding step %s" % (name, typ, tag)))
    for ch in model.choices:
        lib = k.unique_choices[ch["index"]]
        acc.evals += 1
        cv = 2 if sp.choice_vis(ch) else 0
        if cv != lib.visibility:
            acc.violation(
                "visibility:choice", "Choice.visibility: prompt condition && inherited conditions && enclosing visible if",
                "tree %s parser %d after %s: visibility of choice %s is %d, the tree structure prescribes %d" % (spec.origin, pv, _short(ops), ch["name"], lib.visibility, cv),
                lambda ch=ch, cv=cv: _value_script(spec, pv, ops, "k.unique_choices[%d].visibility" % ch["index"], cv, "obs == EXPECT", "visibility of choice"))


def _apply_cfg(spec, pv, cfg, d):
    k = h_load(spec.text, spec.rename_text, d, pv)
    for op in cfg:
        h_apply_op(k, op, d)
    return k


def _observe_all(k, d):
    vals = dict((s.name, (s.str_value, s.visibility, tuple(s.assignable))) for s in k.unique_defined_syms)
    for i, c in enumerate(k.unique_choices):
        vals["choice %d" % i] = c.selection.name if c.selection else None
    o, js = h_outputs(k, d)
    o["sdkconfig"] = h_strip_markers(o["sdkconfig"])
    return vals, o, js


def _c01_task(acc, task, tier, seed, d, state):
    spec = _tree_of(task, tier, seed)
    model = Model(spec.text)
    sz = _SIZES[tier]
    count = sz["hand_cfgs"] if task[0] == "hand" else (sz["cfgs"] if task[0] == "rand" else min(sz["cfgs"], 24))
    for pv in _pvs(task):
        rng = _task_rng("C01", task, seed, pv)
        cfgs = _configs(rng, model, count)
        for ci, cfg in enumerate(cfgs):
            try:
                k = _apply_cfg(spec, pv, cfg, d)
                sp = Spec(k, model)
                _check_values(acc, spec, model, pv, cfg, k, sp)
                hidden = [n for n in model.order if k.syms[n]._user_value is not None and not sp.opt_vis(n)]
            except Exception as e:  # noqa: BLE001
                _report_exception(acc, e, spec, pv, cfg, "configuration")
                continue
            if ci == 1 and pv == 1:
                acc.sample({"tree": spec.origin, "parser": pv, "assignment": _short(cfg, 200)})
            if not hidden:
                continue
            rng.shuffle(hidden)
            for hname in hidden[:2]:
                acc.evals += 1
                acc.nontrivial += 1
                try:
                    a = _observe_all(_apply_cfg(spec, pv, cfg, d), d)
                    b = _observe_all(_apply_cfg(spec, pv, [op for op in cfg if op[1] != hname], d), d)
                except Exception as e:  # noqa: BLE001
                    _report_exception(acc, e, spec, pv, cfg, "outputs")
                    continue
                if a != b:
                    where = "values" if a[0] != b[0] else "generated-files"
                    first = next((key for key in a[0] if a[0][key] != b[0].get(key)), None)
                    reason = _hidden_reason(model, sp, hname)
                    # one specific shape gets its own class: the hidden option is a choice member that was picked (y)
                    # after another member had been picked -- the pick is remembered as the choice's user selection
                    picked = [op for op in cfg if op[1] == hname and (op[0] == "pick" or (op[0] == "set" and op[2] in (2, "y")))]
                    other_picks = [op for op in cfg if op[1] != hname and (op[0] == "pick" or (op[0] == "set" and len(op) > 2 and op[2] in (2, "y")))
                                   and op[1] in k.syms and k.syms[op[1]].choice is not None
                                   and k.syms[op[1]].choice is k.syms[hname].choice]
                    if k.syms[hname].choice is not None and picked and other_picks:
                        reason += ":pick-of-hidden-member-displaces-earlier-pick"
                    acc.violation(
                        "hidden-user-value-has-effect:%s:%s" % (reason, where),
                        "Symbol.set_value on an option whose prompt condition is false: every output identical to the same configuration without it",
                        "tree %s parser %d, assignment %s: the user value on %s (hidden: %s) changes %s, e.g. %s: %r with vs %r without" % (
                            spec.origin, pv, _short(cfg), hname, reason, where, first, a[0].get(first), b[0].get(first)),
                        lambda hname=hname: _mk_script(_BODY_NOEFFECT, TEXT=spec.text, RENAME=spec.rename_text, PV=pv, OPS=list(cfg), HIDDEN=hname))


def _hidden_reason(model, sp, name):
    """why the spec says the prompt of 'name' is hidden (first failing ingredient of the first definition with a prompt)"""
    o = model.opts[name]
    defs = [d for d in o["defs"] if d["prompt"]]
    if not defs:
        return "promptless"
    d = defs[0]
    if not sp.ev(d["prompt_cond"]):
        return "prompt-if"
    if not sp.all(d["depends"]):
        return "depends-on"
    menus = [f for f in d["frames"] if f[0] == "menu"]
    for f in d["frames"]:
        if f[0] == "if" and not sp.ev(f[1]):
            return "enclosing-if"
        if f[0] == "menu" and not sp.all(f[1]["dep"]):
            return "menu-depends-on"
        if f[0] == "choice" and not sp.choice_vis(f[1]):
            return "choice-invisible"
    for i, f in enumerate(menus):
        if not sp.all(f[1]["vis"]):
            return "visible-if" + ("-of-outer-menu" if i < len(menus) - 1 else "")
    return "other"


# ----------------------------------------------------------------------------------------------
# C05
# ----------------------------------------------------------------------------------------------

def _check_choices(acc, spec, model, pv, ops, k, sp, outs):
    defines = h_defines(outs[0]["autoconf"])
    defines2 = h_defines(outs[0]["header"])
    cm = h_cmake_sets(outs[0]["cmake"])
    js = outs[1]
    for ch in model.choices:
        lib = k.unique_choices[ch["index"]]
        acc.evals += 1
        sel, why = sp.selection(ch)
        acc.branch("choice:" + why)
        if why not in ("default", "first-visible"):
            acc.nontrivial += 1
        ys = [m for m in ch["members"] if k.syms[m].str_value == "y"]
        vis_members = [m for m in ch["members"] if sp.opt_vis(m)]
        label = ch["name"] or "<unnamed %d>" % ch["index"]
        ctx = "tree %s parser %d after %s: choice %s" % (spec.origin, pv, _short(ops), label)
        if sp.choice_vis(ch) and vis_members:
            if len(ys) != 1:
                acc.violation(
                    "choice-not-exactly-one:%d-at-y" % min(len(ys), 2), "Choice._selection / Symbol.bool_value: a visible choice with a visible member has exactly one member at y",
                    "%s is visible, visible members %s, members at y: %s" % (ctx, vis_members, ys),
                    lambda ch=ch: _value_script(spec, pv, ops, "[m.name for m in k.unique_choices[%d].syms if m.str_value == 'y']" % ch["index"], 1,
                                                "len(obs) == EXPECT", "members at y of the visible choice (exactly one expected)"))
        elif not sp.choice_vis(ch) and ys:
            acc.violation(
                "invisible-choice-has-member-at-y", "Symbol.bool_value (choice member): an invisible choice has no member at y",
                "%s is invisible but members at y: %s" % (ctx, ys),
                lambda ch=ch: _value_script(spec, pv, ops, "[m.name for m in k.unique_choices[%d].syms if m.str_value == 'y']" % ch["index"], [],
                                            "obs == EXPECT", "members at y of the invisible choice"))
        libsel = lib.selection.name if lib.selection is not None else None
        if libsel != sel or ys != ([sel] if sel else []):
            acc.violation(
                "selection-rule:%s" % why, "Choice.selection: user pick if visible, else first default whose condition holds and whose member is visible, else first visible member",
                "%s: selection is %s (members at y %s), the rule (%s) prescribes %s" % (ctx, libsel, ys, why, sel),
                lambda ch=ch, sel=sel, why=why: _value_script(
                    spec, pv, ops, "(lambda c: (c.selection.name if c.selection else None, [m.name for m in c.syms if m.str_value == 'y']))(k.unique_choices[%d])" % ch["index"],
                    (sel, [sel] if sel else []), "tuple(obs) == tuple(EXPECT)", "selection of the choice and its members at y (rule: %s)" % why))
        for fmt, got in (("autoconf-header", [m for m in ch["members"] if m in defines]),
                         ("kconfgen-header", [m for m in ch["members"] if m in defines2]),
                         ("cmake", [m for m in ch["members"] if cm.get(m)]),
                         ("json", [m for m in ch["members"] if js.get(m)])):
            acc.evals += 1
            if got != ys:
                acc.violation(
                    "output-members:%s" % fmt, "write_autoconf / kconfgen.write_header / write_cmake / get_json_values: the selected member is the only member defined",
                    "%s: members at y %s but %s defines %s" % (ctx, ys, fmt, got),
                    lambda ch=ch, fmt=fmt: _mk_script(_BODY_OUTMEMBERS, TEXT=spec.text, RENAME=spec.rename_text, PV=pv, OPS=list(ops), CH=ch["index"], FMT=fmt))


_BODY_OUTMEMBERS = '''
k = h_load(TEXT, RENAME, d, PV)
for op in OPS:
    h_apply_op(k, op, d)
ch = k.unique_choices[CH]
ys = [m.name for m in ch.syms if m.str_value == "y"]
o, js = h_outputs(k, d)
got = {"autoconf-header": [m.name for m in ch.syms if m.name in h_defines(o["autoconf"])],
       "kconfgen-header": [m.name for m in ch.syms if m.name in h_defines(o["header"])],
       "cmake": [m.name for m in ch.syms if h_cmake_sets(o["cmake"]).get(m.name)],
       "json": [m.name for m in ch.syms if js.get(m.name)]}[FMT]
print("members at y:", ys, FMT, "defines:", got)
sys.exit(0 if got == ys else 1)
'''


def _load_pick_contract(acc, spec, model, pv, ops, k, op):
    """load_config: of several members assigned y in one (non default-marked) file, the last one becomes the user pick"""
    last = {}
    for line in op[2].split("\n"):
        m = re.match(r"CONFIG_(\w+)=y\Z", line)
        if m and m.group(1) in model.opts and model.opts[m.group(1)]["choice"] is not None:
            last[model.opts[m.group(1)]["choice"]["index"]] = m.group(1)
    for ci, member in last.items():
        acc.evals += 1
        lib = k.unique_choices[ci]
        got = lib._user_selection.name if lib._user_selection is not None else None
        n_y = len(re.findall(r"^CONFIG_(?:%s)=y$" % "|".join(model.choices[ci]["members"]), op[2], re.M))
        if n_y > 1:
            acc.nontrivial += 1
        if got != member:
            acc.violation(
                "load-last-y-wins", "Kconfig.load_config: of the members of a choice assigned y in the file, the last one is the user's pick",
                "tree %s parser %d after %s: user selection of choice %d is %s, last y-assigned member in the file is %s" % (spec.origin, pv, _short(ops), ci, got, member),
                lambda ci=ci, member=member: _value_script(spec, pv, ops, "getattr(k.unique_choices[%d]._user_selection, 'name', None)" % ci, member, "obs == EXPECT",
                                                           "user selection after loading a file assigning several members"))


def _hist_task(prop, acc, task, tier, seed, d, state):
    """C05 / C06 / C09(accepted trees): histories on ONE long-lived instance, everything read after every op (warm caches)"""
    spec = _tree_of(task, tier, seed)
    model = Model(spec.text)
    if prop == "C05" and not model.choices:
        return
    sz = _SIZES[tier]
    hand = task[0] == "hand"
    n_hist = sz["hand_hist"] if hand else (sz["hist"] + 1 if task[0] == "rand" else 2)
    hlen = sz["hand_hlen"] if hand else (sz["hlen"] if task[0] == "rand" else 6)
    loads = ("plain",) if prop != "C09" else ("plain", "own", "marked")
    for pv in _pvs(task):
        for h in range(n_hist):
            rng = _task_rng(prop, task, seed, pv * 1000 + h)
            ops = _gen_history(rng, model, hlen, loads=loads, odd=prop in ("C06", "C09"))
            done = []
            try:
                k = h_load(spec.text, spec.rename_text, d, pv)
                for i in range(-1, len(ops)):
                    if i >= 0:
                        op = ops[i]
                        if op[0] == "load" and op[2] is None:
                            p = os.path.join(d, "own_sdkconfig")
                            k.write_config(p, header="", save_old=False)
                            op = ("load", op[1], open(p, encoding="utf-8").read(), op[3])
                        done.append(op)
                        h_apply_op(k, op, d)
                    if prop == "C09":
                        acc.evals += 1
                        snapshot(k) if i % 2 else snapshot_reversed(k)
                        h_choice_extra(k)
                        h_outputs(k, d)
                        if i >= 0 and done[-1][0] == "load":
                            acc.nontrivial += 1
                        continue
                    sp = Spec(k, model)
                    outs = h_outputs(k, d)
                    if prop == "C05":
                        _check_choices(acc, spec, model, pv, list(done), k, sp, outs)
                        if i >= 0 and done[-1][0] == "load" and done[-1][1] == "plain":
                            _load_pick_contract(acc, spec, model, pv, list(done), k, done[-1])
                    else:
                        _check_wellformed(acc, spec, model, pv, list(done), k, sp, outs)
            except Exception as e:  # noqa: BLE001
                _report_exception(acc, e, spec, pv, done, "history")
                continue
            if h == 0 and pv == 1:
                acc.sample({"tree": spec.origin, "parser": pv, "ops": _short(done, 300)})


# ----------------------------------------------------------------------------------------------
# C06
# ----------------------------------------------------------------------------------------------

_FMT = {
    "int": re.compile(r"[+-]?[0-9]+\Z"),
    "hex": re.compile(r"(0[xX])?[0-9a-fA-F]+\Z"),
    "float": re.compile(r"[+-]?([0-9]+\.?[0-9]*|\.[0-9]+)([eE][+-]?[0-9]+)?\Z"),
}


def _malformed_feature(typ, v):
    if v != v.strip() or re.search(r"\s", v):
        return "whitespace"
    if "_" in v:
        return "underscore"
    if not v.isascii():
        return "non-ascii-digits"
    if typ == "hex" and v[:1] in "+-":
        return "sign"
    return "other"


def _c_int(token):
    """value of a C integer literal token (decimal / octal / hex), or None if it is not one"""
    m = re.match(r"([+-]?)(0[xX][0-9a-fA-F]+|0[0-7]*|[1-9][0-9]*)\Z", token)
    if not m:
        return None
    body = m.group(2)
    n = int(body, 16) if body[:2] in ("0x", "0X") else (int(body, 8) if body.startswith("0") and len(body) > 1 else int(body, 10))
    return -n if m.group(1) == "-" else n


def _check_wellformed(acc, spec, model, pv, ops, k, sp, outs):
    defines = h_defines(outs[0]["autoconf"])
    defines2 = h_defines(outs[0]["header"])
    cm = h_cmake_sets(outs[0]["cmake"])
    js = outs[1]
    ctx = "tree %s parser %d after %s" % (spec.origin, pv, _short(ops))
    for name in model.order:
        o = model.opts[name]
        typ = o["type"]
        sym = k.syms[name]
        v = sym.str_value
        acc.evals += 1
        if typ == "bool":
            if v not in ("y", "n"):
                acc.violation("malformed:bool", "Symbol.str_value: y or n for bool", "%s: %s is %r" % (ctx, name, v),
                              lambda name=name: _value_script(spec, pv, ops, "k.syms[%r].str_value" % name, ("y", "n"), "obs in EXPECT", "bool value"))
            continue
        if typ == "string":
            continue
        exp, tag, skip = sp.value(name)
        if v == "":
            if not skip and exp != "":
                acc.violation(
                    "empty-although-provided:%s:%s" % (typ, _core_tag(tag)), "Symbol.str_value: empty only when nothing provides a value",
                    "%s: %s (%s) is empty although %s provides %r" % (ctx, name, typ, tag, exp),
                    lambda name=name: _value_script(spec, pv, ops, "k.syms[%r].str_value" % name, "", "obs != EXPECT", "numeric value must not be empty"))
            continue
        wf = bool(_FMT[typ].match(v)) and v.isascii() and _num(typ, v) is not None
        if not wf:
            feat = _malformed_feature(typ, v)
            acc.nontrivial += 1
            acc.violation(
                "malformed:%s:%s" % (typ, feat),
                "Symbol.str_value (after set_value / load_config): base-10 integer for int, non-negative base-16 integer for hex, finite float for float",
                "%s: %s (%s) is exposed as %r" % (ctx, name, typ, v),
                lambda name=name, typ=typ: _value_script(spec, pv, ops, "k.syms[%r].str_value" % name, _FMT[typ].pattern,
                                                         "re.match(EXPECT, obs) is not None and obs.isascii()", "lexical form of the %s value" % typ))
        n = _num(typ, v)
        rng = sp.active_range(o)
        if rng is not None and n is not None and rng[0] is not None and rng[1] is not None and rng[0] <= rng[1]:
            acc.evals += 1
            core = _core_tag(tag) if tag else "?"
            if core not in ("default-lit", "user-in-range") or rng[2] or rng[3] or (tag and "+clamped" in tag):
                acc.nontrivial += 1
            if not rng[0] <= n <= rng[1]:
                acc.violation(
                    "out-of-range:%s:%s%s" % (typ, core, ":symbolic-bound" if rng[2] or rng[3] else ""),
                    "Symbol.str_value: whenever a range with a true condition applies the value lies within its bounds (also for set / set default / after histories)",
                    "%s: %s (%s) is %r = %r, outside its active range [%r, %r] (value provided by: %s)" % (ctx, name, typ, v, n, rng[0], rng[1], tag),
                    lambda name=name, typ=typ, rng=rng: _value_script(
                        spec, pv, ops, "k.syms[%r].str_value" % name, (rng[0], rng[1]),
                        "EXPECT[0] <= (%s) <= EXPECT[1]" % {"int": "int(obs, 10)", "hex": "int(obs, 16)", "float": "float(obs)"}[typ], "value within the active range"))
        if not wf or n is None:
            continue
        # generators agree with the exposed value
        written = bool(sym.config_string)
        for fmt, table in (("autoconf-header", defines), ("kconfgen-header", defines2)):
            if not sym._write_to_conf:
                continue
            acc.evals += 1
            tok = table.get(name)
            ok = tok is not None
            why = "missing"
            if ok and typ == "hex":
                ok = re.match(r"0[xX][0-9a-fA-F]+\Z", tok) is not None and int(tok, 16) == n
                why = "hex without 0x prefix or other value"
            elif ok and typ == "int":
                ok = _c_int(tok) == n
                why = "C literal denotes %r" % (_c_int(tok),)
            elif ok:
                ok = _num("float", tok) == n
                why = "other value"
            if not ok:
                feat = "leading-zero-octal" if typ == "int" and re.match(r"[+-]?0[0-9]+\Z", v) else "value"
                acc.violation(
                    "header:%s:%s" % (typ, feat), "Kconfig.write_autoconf / kconfgen.write_header: render the exposed value (hex with 0x prefix)",
                    "%s: %s (%s) is %r but the %s has %r (%s)" % (ctx, name, typ, v, fmt, tok, why),
                    lambda name=name: _mk_script(_BODY_RENDER, TEXT=spec.text, RENAME=spec.rename_text, PV=pv, OPS=list(ops), NAME=name))
        if written:
            acc.evals += 2
            tok = cm.get(name)
            if typ == "hex":
                ok = tok is not None and re.match(r"0x[0-9a-f]+\Z", tok) is not None and int(tok, 16) == n
            else:
                ok = tok is not None and _num(typ, tok) == n
            if not ok:
                acc.violation(
                    "cmake:%s" % typ, "kconfgen.write_cmake: render the exposed value (hex with 0x prefix)",
                    "%s: %s (%s) is %r but CMake has %r" % (ctx, name, typ, v, tok),
                    lambda name=name: _mk_script(_BODY_RENDER, TEXT=spec.text, RENAME=spec.rename_text, PV=pv, OPS=list(ops), NAME=name))
            j = js.get(name, "<absent>")
            want_type = float if typ == "float" else int
            if type(j) is not want_type or j != n:
                acc.violation(
                    "json:%s" % typ, "kconfgen.get_json_values: typed number equal to the exposed value",
                    "%s: %s (%s) is %r but JSON has %r" % (ctx, name, typ, v, j),
                    lambda name=name: _mk_script(_BODY_RENDER, TEXT=spec.text, RENAME=spec.rename_text, PV=pv, OPS=list(ops), NAME=name))


_BODY_RENDER = '''
k = h_load(TEXT, RENAME, d, PV)
for op in OPS:
    h_apply_op(k, op, d)
s = k.syms[NAME]
v = s.str_value
typ = K.TYPE_TO_STR[s.orig_type]
o, js = h_outputs(k, d)
n = int(v, 10) if typ == "int" else int(v, 16) if typ == "hex" else float(v)
bad = False
for fmt in ("autoconf", "header"):
    tok = h_defines(o[fmt]).get(NAME)
    print(fmt, repr(tok), "for value", repr(v))
    if s._write_to_conf:
        if typ == "hex":
            bad |= tok is None or re.match(r"0[xX][0-9a-fA-F]+\\Z", tok) is None or int(tok, 16) != n
        elif typ == "int":
            m = re.match(r"([+-]?)(0[xX][0-9a-fA-F]+|0[0-7]*|[1-9][0-9]*)\\Z", tok or "?")
            c = None
            if m:
                b = m.group(2)
                c = int(b, 16) if b[:2] in ("0x", "0X") else int(b, 8) if b.startswith("0") and len(b) > 1 else int(b)
                c = -c if m.group(1) == "-" else c
            bad |= c != n
        else:
            bad |= tok is None or float(tok) != n
if s.config_string:
    tok = h_cmake_sets(o["cmake"]).get(NAME)
    print("cmake", repr(tok), "json", repr(js.get(NAME)))
    if typ == "hex":
        bad |= tok is None or re.match(r"0x[0-9a-f]+\\Z", tok) is None or int(tok, 16) != n
    else:
        bad |= tok is None or float(tok) != float(n)
    bad |= type(js.get(NAME)) is not (float if typ == "float" else int) or js.get(NAME) != n
sys.exit(1 if bad else 0)
'''


# ----------------------------------------------------------------------------------------------
# C09: trees that are cyclic by construction
# ----------------------------------------------------------------------------------------------

class _TB:
    """tiny tree builder for the cyclic trees: options N0, N1, ... plus independent helper options"""

    LIT = {"bool": "y", "int": "5", "string": '"s"'}

    def __init__(self):
        self.opts = {}
        self.order = []
        self.helpers = {}

    def opt(self, name, typ):
        self.opts[name] = {"type": typ, "prompt_if": [], "depends": [], "pre": [], "lines": [], "wrap": []}
        self.order.append(name)

    def helper(self, name):
        if name not in self.helpers:
            typ, default = {"KB": ("bool", "y"), "KI": ("int", "3"), "KS": ("string", '"a"'), "HS": ("bool", "y")}[name]
            self.helpers[name] = {"type": typ, "default": default, "lines": []}
        return name

    def mention(self, src, form):
        typ = self.opts[src]["type"]
        if typ == "bool":
            return {"plain": src, "neg": "!" + src, "lhs": src + " = y", "rhs": None, "rhs-ne": None}.get(form) or (
                "%s = %s" % (self.helper("KB"), src) if form == "rhs" else "%s != %s" % (self.helper("KB"), src))
        if typ == "int":
            return {"plain": src + " > 3", "neg": "!(%s > 3)" % src, "lhs": src + " = 5", "rhs-ne": "3 != " + src}.get(form) or "%s <= %s" % (self.helper("KI"), src)
        return {"plain": src + ' = "a"', "neg": '!(%s = "a")' % src, "lhs": src + ' != "a"', "rhs-ne": '"a" != ' + src}.get(form) or "%s = %s" % (self.helper("KS"), src)

    def edge(self, kind, form, dep, src):
        """make option 'dep' depend on option 'src' through a property of the given kind"""
        o = self.opts[dep]
        lit = self.LIT[o["type"]]
        cond = self.mention(src, form) if form else None
        if kind == "prompt_if":
            o["prompt_if"].append(cond)
        elif kind == "depends_on":
            o["depends"].append(cond)
        elif kind == "default_cond":
            o["pre"].append("default %s if %s" % (lit, cond))
        elif kind == "if_block":
            o["wrap"].append(("if", cond))
        elif kind == "menu_dep":
            o["wrap"].append(("menu", cond, None))
        elif kind == "menu_vis":
            o["wrap"].append(("menu", None, cond))
        elif kind == "default_val":
            o["pre"].append("default " + src)
        elif kind == "default_notval":
            o["pre"].append("default !" + src)
        elif kind in ("select", "imply"):
            self.opts[src]["lines"].append("%s %s" % (kind, dep))
        elif kind == "select_cond":
            self.helpers[self.helper("HS")]["lines"].append("select %s if %s" % (dep, cond))
        elif kind == "range_lo":
            o["lines"].append("range %s 100" % src)
        elif kind == "range_hi":
            o["lines"].append("range 0 %s" % src)
        elif kind == "range_cond":
            o["lines"].append("range 0 9 if %s" % cond)
        elif kind in ("set_val", "setdef_val"):
            self.helpers[self.helper("HS")]["lines"].append("%s %s=%s" % ("set" if kind == "set_val" else "set default", dep, src))
        elif kind in ("set_cond", "setdef_cond"):
            self.helpers[self.helper("HS")]["lines"].append("%s %s=%s if %s" % ("set" if kind == "set_cond" else "set default", dep, lit, cond))
        elif kind in ("set_src", "setdef_src"):
            self.opts[src]["lines"].append("%s %s=%s" % ("set" if kind == "set_src" else "set default", dep, lit))
        else:
            raise ValueError(kind)

    def render(self):
        out = ['mainmenu "T"', ""]
        for name in ("KB", "KI", "KS", "HS"):
            h = self.helpers.get(name)
            if h:
                out += ["config " + name, '    %s "%s"' % (h["type"], name.lower()), "    default " + h["default"]] + ["    " + l for l in h["lines"]] + [""]
        for name in self.order:
            o = self.opts[name]
            ind = ""
            closers = []
            for w in o["wrap"]:
                if w[0] == "if":
                    out += [ind + "if " + w[1], ""]
                    closers.append(ind + "endif")
                else:
                    out.append(ind + 'menu "m %s"' % name)
                    if w[1]:
                        out.append(ind + "    depends on " + w[1])
                    if w[2]:
                        out.append(ind + "    visible if " + w[2])
                    out.append("")
                    closers.append(ind + "endmenu")
                ind += "    "
            out.append(ind + "config " + name)
            pif = " if " + " && ".join("(%s)" % c if ("||" in c) else c for c in o["prompt_if"]) if o["prompt_if"] else ""
            out.append(ind + '    %s "%s"%s' % (o["type"], name.lower(), pif))
            for c in o["depends"]:
                out.append(ind + "    depends on " + c)
            for l in o["lines"] + o["pre"]:
                out.append(ind + "    " + l)
            out.append(ind + "    default " + self.LIT[o["type"]])
            out.append("")
            for c in reversed(closers):
                out += [c, ""]
        return "\n".join(out).rstrip("\n") + "\n"


_COND_KINDS = ("prompt_if", "depends_on", "default_cond", "if_block", "menu_dep", "menu_vis")
_FORMS = ("plain", "neg", "lhs", "rhs", "rhs-ne")


def _edge_variants(dep_t, src_t):
    """[(kind, form)] through which an option of type dep_t can depend on an option of type src_t"""
    out = [(k, f) for k in _COND_KINDS for f in _FORMS]
    if dep_t == "bool" and src_t == "bool":
        out += [("default_val", None), ("default_notval", None), ("select", None), ("imply", None)]
    if dep_t == "bool":
        out += [("select_cond", f) for f in ("plain", "rhs")]
    if dep_t == "int":
        out += [("range_cond", f) for f in _FORMS] + [("set_cond", f) for f in ("plain", "rhs")] + [("setdef_cond", f) for f in ("plain", "rhs")]
        if src_t == "int":
            out += [("range_lo", None), ("range_hi", None), ("default_val", None), ("set_val", None), ("setdef_val", None)]
        if src_t == "bool":
            out += [("set_src", None), ("setdef_src", None)]
    if dep_t == "string":
        out += [("set_cond", "plain"), ("setdef_cond", "rhs")]
        if src_t == "string":
            out += [("default_val", None), ("set_val", None), ("setdef_val", None)]
        if src_t == "bool":
            out += [("set_src", None), ("setdef_src", None)]
    return out


def _vname(v):
    return v[0] + ("/" + v[1] if v[1] else "")


_CHOICE_CYCLES = [
    ("choice:member-depends-on-option-that-reads-sibling", ["M1", "M2", "Z"], '''
choice CH
    prompt "ch"

    config M1
        bool "m1"
        depends on Z

    config M2
        bool "m2"

endchoice

config Z
    bool "z"
    default y if M2
'''),
    ("choice:member-prompt-if-option-that-reads-itself", ["M1", "Z"], '''
choice CH
    prompt "ch"

    config M1
        bool "m1" if Z

    config M2
        bool "m2"

endchoice

config Z
    bool
    default y if KB = M1

config KB
    bool "kb"
'''),
    ("choice:prompt-condition-reads-member", ["M1", "Z"], '''
config Z
    bool "z"
    default y if !M1

choice CH
    prompt "ch" if Z

    config M1
        bool "m1"

    config M2
        bool "m2"

endchoice
'''),
    ("choice:default-condition-reads-member", ["M2", "Z"], '''
config Z
    bool "z"
    depends on M2

choice CH
    prompt "ch"
    default M1 if Z

    config M1
        bool "m1"

    config M2
        bool "m2"

endchoice
'''),
    ("choice:member-in-if-block", ["M1", "M2", "Z"], '''
config Z
    int "z"
    default 7 if M2
    default 1

choice CH
    prompt "ch"

    if 3 < Z

        config M1
            bool "m1"

    endif

    config M2
        bool "m2"

endchoice
'''),
    ("choice:member-selects-option-read-by-sibling", ["M1", "M2", "Z"], '''
choice CH
    prompt "ch"

    config M1
        bool "m1"
        select Z

    config M2
        bool "m2"
        depends on !Z

endchoice

config Z
    bool "z"
'''),
    ("choice:member-sets-option-read-by-sibling", ["M1", "M2", "V"], '''
choice CH
    prompt "ch"

    config M1
        bool "m1"
        set V=5

    config M2
        bool "m2" if 3 >= V

endchoice

config V
    int "v"
    default 1
'''),
]

_TWO_CHOICE = '''
choice TRANSPORT
    prompt "transport"

    config TRANSPORT_UART
        bool "uart"%(uart)s

    config TRANSPORT_USB
        bool "usb"%(usb)s

endchoice

config SILENT
    bool "silent"%(silent)s

choice CONSOLE
    prompt "console"

    config CONSOLE_UART
        bool "console uart"%(cuart)s

    config CONSOLE_NONE
        bool "console none"%(cnone)s

endchoice
'''


def _two_choice_cycles():
    out = []

    def mk(ident, names, **kw):
        d = {"uart": "", "usb": "", "silent": "", "cuart": "", "cnone": ""}
        d.update(kw)
        out.append((ident, names, _TWO_CHOICE % d))
    dep = "\n        depends on %s"
    mk("two-choices:depends-on/depends-on", ["TRANSPORT_USB", "CONSOLE_NONE", "CONSOLE_UART", "TRANSPORT_UART"],
       cuart=dep % "TRANSPORT_UART", usb=dep % "CONSOLE_NONE")
    mk("two-choices:via-plain-option", ["TRANSPORT_USB", "SILENT", "CONSOLE_UART", "TRANSPORT_UART"],
       cuart=dep % "TRANSPORT_UART", usb=dep % "SILENT", silent="\n    default y if CONSOLE_NONE")
    mk("two-choices:prompt-if/rhs", ["TRANSPORT_UART", "CONSOLE_UART", "CONSOLE_NONE", "TRANSPORT_USB"],
       cnone=" if SILENT != TRANSPORT_USB", uart=" if CONSOLE_UART")
    mk("two-choices:first-members", ["TRANSPORT_UART", "CONSOLE_UART", "CONSOLE_NONE", "TRANSPORT_USB"],
       cuart=dep % "!TRANSPORT_USB", uart=dep % "!CONSOLE_NONE")
    return out


def _cyclic_trees(tier):
    """[(id, option names that must be named in the error, text, base id)]: every tree contains a dependency cycle by construction"""
    out = []
    bases = []
    pairs = (("bool", "bool"), ("int", "int"), ("int", "bool"), ("string", "string"), ("string", "bool"))
    for t0, t1 in pairs:
        v01 = _edge_variants(t0, t1)   # N0 depends on N1
        v10 = _edge_variants(t1, t0)   # N1 depends on N0
        for a in v01:
            tb = _TB()
            tb.opt("N0", t0)
            tb.opt("N1", t1)
            tb.edge(a[0], a[1], "N0", "N1")
            bases.append(("base:%s<-%s:%s" % (t0, t1, _vname(a)), tb.render()))
            for b in v10:
                minor = ("neg", "lhs", "rhs-ne")
                if tier == "quick" and ((a[1] in minor and b[1] in minor) or ((t0, t1) != ("bool", "bool") and (a[1] in minor or b[1] in minor))):
                    continue
                tb = _TB()
                tb.opt("N0", t0)
                tb.opt("N1", t1)
                tb.edge(a[0], a[1], "N0", "N1")
                tb.edge(b[0], b[1], "N1", "N0")
                out.append(("2-cycle:%s<-%s:%s|%s" % (t0, t1, _vname(a), _vname(b)), ["N0", "N1"], tb.render()))
    # 3-cycles through a plain option in the middle: N0 <- N1 <- N2 <- N0
    for t0, t2 in (("bool", "bool"), ("int", "bool"), ("bool", "int")):
        for a in _edge_variants(t0, "bool"):
            if a[1] not in (None, "plain", "rhs"):
                continue
            for b in _edge_variants(t2, t0):
                if b[1] not in (None, "plain", "rhs"):
                    continue
                tb = _TB()
                tb.opt("N0", t0)
                tb.opt("N1", "bool")
                tb.opt("N2", t2)
                tb.edge(a[0], a[1], "N0", "N1")
                tb.edge("default_cond", "plain", "N1", "N2")
                tb.edge(b[0], b[1], "N2", "N0")
                out.append(("3-cycle:%s,bool,%s:%s|%s" % (t0, t2, _vname(a), _vname(b)), ["N0", "N1", "N2"], tb.render()))
    for ident, names, body in _CHOICE_CYCLES + _two_choice_cycles():
        out.append((ident, names, 'mainmenu "T"\n\n' + body.strip("\n") + "\n"))
    return out, bases


_BODY_CYCLE = '''
try:
    k = h_load(TEXT, "", d, PV)
except K.KconfigError as e:
    msg = str(e)
    m = re.search(r"\\.\\.\\.depends again on (?:the choice symbol )?(\\S+)", msg)
    ok = "Dependency loop" in msg and m is not None and (m.group(1) in NAMES or m.group(1).startswith("<choice"))
    print("rejected:", msg.strip().splitlines()[0] if msg.strip() else msg, "| names the loop:", ok)
    sys.exit(0 if ok else 1)
except BaseException as e:
    print("wrong kind of error:", type(e).__name__, e)
    sys.exit(1)
print("cyclic tree ACCEPTED")
try:
    snapshot(k)
    print("evaluation happened to finish")
except BaseException as e:
    print("evaluation fails with", type(e).__name__)
sys.exit(1)
'''

_BODY_BASE = '''
try:
    k = h_load(TEXT, "", d, PV)
    snapshot(k)
    h_outputs(k, d)
except BaseException as e:
    print("acyclic tree rejected / not evaluable:", type(e).__name__, str(e)[:300])
    sys.exit(1)
sys.exit(0)
'''


def _names_loop(msg, names):
    """the error shows a loop that closes on one of the options (or the choice) of the constructed cycle"""
    m = re.search(r"\.\.\.depends again on (?:the choice symbol )?(\S+)", msg)
    return "Dependency loop" in msg and m is not None and (m.group(1) in names or m.group(1).startswith("<choice"))


def _c09_cycle_chunk(acc, items, d):
    for kind, ident, names, text in items:
        for pv in (1, 2):
            for rep in range(2 if kind == "cyc" and pv == 1 else 1):
                acc.evals += 1
                spec = G.TreeSpec(text, origin="cyclic:" + ident)
                if kind == "base":
                    try:
                        k = h_load(text, "", d, pv)
                        snapshot(k)
                        h_outputs(k, d)
                    except Exception as e:  # noqa: BLE001
                        acc.violation(
                            "acyclic-base-rejected:%s:%s" % (type(e).__name__, ident.split(":")[2] if ident.count(":") >= 2 else ident),
                            "Kconfig.__init__: a well-formed acyclic tree loads and evaluates",
                            "acyclic tree %s parser %d: %s: %s" % (ident, pv, type(e).__name__, _short(e, 300)),
                            lambda: _mk_script(_BODY_BASE, TEXT=text, PV=pv))
                    continue
                acc.nontrivial += 1
                cls_kind = re.sub(r"/(plain|neg|lhs)", "", ident)
                try:
                    k = h_load(text, "", d, pv)
                except K.KconfigError as e:
                    msg = str(e)
                    if not _names_loop(msg, names):
                        acc.violation(
                            "cycle-error-does-not-name-loop:" + cls_kind, "_check_dep_loop_sym/_found_dep_loop: the KconfigError names the loop",
                            "cyclic tree %s parser %d rejected with %s, loop members %s not all named" % (ident, pv, _short(msg.strip(), 200), names),
                            lambda: _mk_script(_BODY_CYCLE, TEXT=text, PV=pv, NAMES=names))
                    continue
                except Exception as e:  # noqa: BLE001
                    acc.violation(
                        "cycle-wrong-error:%s:%s" % (type(e).__name__, cls_kind), "Kconfig.__init__: a cyclic tree is rejected with a KconfigError naming the loop",
                        "cyclic tree %s parser %d: %s: %s" % (ident, pv, type(e).__name__, _short(e, 200)),
                        lambda: _mk_script(_BODY_CYCLE, TEXT=text, PV=pv, NAMES=names))
                    continue
                after = "evaluation happens to finish"
                try:
                    snapshot(k)
                except BaseException as e:  # noqa: BLE001
                    after = "evaluation then fails with " + type(e).__name__
                acc.violation(
                    "cycle-accepted:" + cls_kind, "_check_dep_loop_sym/_check_dep_loop_choice (called from Kconfig.__init__): a tree with a dependency cycle is rejected",
                    "cyclic tree %s (loop through %s) parser %d was ACCEPTED at load; %s\n%s" % (ident, names, pv, after, text),
                    lambda: _mk_script(_BODY_CYCLE, TEXT=text, PV=pv, NAMES=names))


# ----------------------------------------------------------------------------------------------
# run
# ----------------------------------------------------------------------------------------------

_TASK_FN = {
    "C01": _c01_task,
    "C03": _c03_task,
    "C05": lambda *a: _hist_task("C05", *a),
    "C06": lambda *a: _hist_task("C06", *a),
    "C09": lambda *a: _hist_task("C09", *a),
}


def _tmp_root():
    """memory-backed scratch space when there is one (many small files are written and read back)"""
    return "/dev/shm" if os.path.isdir("/dev/shm") and os.access("/dev/shm", os.W_OK) else None


def _worker(args):
    prop, tier, seed, chunk, cyc = args
    h_silence()
    G.scrub_env()
    sys.setrecursionlimit(3000)
    if _tmp_root():
        tempfile.tempdir = _tmp_root()   # rtc.gen validates its random trees in tempfile directories as well
    acc = Acc()
    state = {"minimized": 0}
    err = None
    with tempfile.TemporaryDirectory(prefix="drv_eval", dir=_tmp_root()) as d:
        try:
            for task in chunk:
                _TASK_FN[prop](acc, task, tier, seed, d, state)
            if cyc:
                _c09_cycle_chunk(acc, cyc, d)
        except BaseException as e:  # noqa: BLE001 - an exception of the DRIVER (library exceptions are caught per case)
            err = "%s: %s\n%s" % (type(e).__name__, e, traceback.format_exc())
    res = acc.dump()
    res["error"] = err
    return res


_CONTRACTS = {
    "C01": [
        "Symbol.str_value / bool_value (every option, every configuration): equals the documented precedence -- enabled `set` > user value if the prompt is "
        "visible (numbers: inside the active range) > enabled `set default` under the target's direct dependencies > first `default` whose condition holds > "
        "n / empty; bool raised to y by an enabled `select`, and by an enabled `imply` when its own dependencies hold and no effective user value; numbers "
        "clamped into the active range -- evaluated on an independent parse of the Kconfig text",
        "Symbol.visibility / Choice.visibility / _visibility: y iff some definition has a prompt whose `if` && own and inherited `depends on` && enclosing `if` / "
        "`menu` && the `visible if` of EVERY enclosing menu && (member) visible choice holds",
        "Symbol.set_value on an option whose prompt condition is false (or that has no prompt): every str_value / visibility / assignable / selection and the "
        "header, kconfgen header, CMake, JSON and sdkconfig outputs (modulo the `# default:` marker line) are identical to the configuration without that user value",
    ],
    "C03": [
        "Symbol.set_value / unset_value, Choice.set_value / unset_value, _restore_default, Kconfig.load_config (after EACH op of a history, reads of a varying subset "
        "in between): the complete snapshot (str_value, visibility, assignable, config_string, _write_to_conf of every option, selection / visibility / assignable of "
        "every choice) equals the snapshot of a twin after Kconfig._invalidate_all(), and of the instance itself after _invalidate_all() at the end",
        "same mutators: the snapshot equals that of a FRESH instance to which gen.user_state() (+ choice modes) of the final state was applied with "
        "gen.apply_user_state (canonical order) or in a permuted order (histories without stale default-marked loads)",
        "every read (Symbol.str_value / visibility / assignable / config_string, Choice.selection): gen.snapshot == gen.snapshot_reversed; reading a subset first "
        "changes nothing; the user state after an op does not depend on earlier reads",
        "Kconfig._build_dep + _add_choice_deps (right after construction): for every option X and every non-constant symbol / choice L among the leaves of X's prompt "
        "conditions, default values and conditions, range low / high / condition, rev_dep, weak_rev_dep, direct_dep, value / condition / source of every rev_values "
        "and weak_rev_values element, its choice (member), and for a choice its prompt conditions, default conditions and members: X in L._dependents",
    ],
    "C05": [
        "Choice.selection / Symbol.bool_value of members (after every op): a visible choice with a visible member has exactly one member at y, an invisible choice none",
        "Choice._selection / _selection_from_defaults: selected member == user pick if visible, else first default whose condition holds AND whose member is visible "
        "(continuing past defaults that name invisible members), else first visible member -- rule evaluated on an independent parse of the Kconfig text",
        "Kconfig.write_autoconf, kconfgen.core.write_header / write_cmake / get_json_values: the selected member is the only member defined / non-empty / true",
        "Kconfig.load_config: of several members assigned y in one file the last one becomes the user pick",
    ],
    "C06": [
        "Symbol.str_value (after every op, also for values forced by `set` / `set default`, user values in odd spellings via set_value and load_config): y|n; "
        "[+-]?[0-9]+ for int; (0x)?[0-9a-fA-F]+ for hex (no sign); finite float for float; empty only when nothing provides a value",
        "Symbol.str_value: inside the first range whose condition holds (bounds literal or the current value of the bound option), whenever low <= high",
        "Kconfig.write_autoconf, kconfgen.core.write_header / write_cmake / get_json_values, Kconfig.write_config: return without raising; header and CMake render "
        "hex with 0x prefix and the same number (header token read as a C literal); JSON has int for int / hex, float for float, equal to the value",
    ],
    "C09": [
        "Kconfig.__init__ -> _check_dep_loop_sym / _check_dep_loop_choice / _found_dep_loop: a tree that is cyclic by construction (one back edge of every kind, "
        "through left and RIGHT operands of comparisons, through choice membership, across two choices) raises KconfigError containing 'Dependency loop' and the "
        "names of the options on the loop; the same tree without the back edge loads and evaluates",
        "every accepted tree of the corpus: every mutator, Symbol.str_value / visibility / assignable / config_string, Choice.selection, write_config / write_autoconf / "
        "kconfgen header / CMake / JSON return without an exception (incl. RecursionError) after every op of the histories",
    ],
}


def _bound_text(prop, tier, seed, n_small, n_cyc=0, n_base=0):
    sz = _SIZES[tier]
    trees = ("%d hand-written trees (symbol-valued range low/high for int/hex/float, comparisons with an option on the right-hand side, `set T=OTHER_STRING`, "
             "set / set default with ranges, choices with conditional member prompts and several defaults, choice inside `visible if` menu with `if` inside the choice, "
             "choice defined twice, nested menus with `visible if`, two coupled choices, select / imply with dependencies, option defined twice with two prompts; both "
             "parser versions) + gen.small_trees(3) (%d trees, 1..3 options) + %d random trees gen_tree(Random(%d*1000003+i), %d) (<= %d options, all DEFAULT_FEATURES "
             "of rtc.gen); small / random trees alternate between parser version 1 and 2 by index") % (len(_HAND), n_small, sz["rand"], seed, sz["n_syms"], sz["n_syms"])
    if prop == "C01":
        return trees + ("; per tree and parser %d configurations (hand trees %d): the empty one, single assignments of every candidate value (type table of rtc.gen "
                        "VALUES + every literal of the tree +-1), random multi-assignments; each configuration on a fresh instance" % (sz["cfgs"], sz["hand_cfgs"]))
    hist = "per tree and parser %d histories of %d ops (hand trees: %d of %d; small trees: 2 of 6)" % (
        sz["hist"] + (0 if prop == "C03" else 1), sz["hlen"], sz["hand_hist"], sz["hand_hlen"])
    ops = " from set (valid, malformed%s values) / unset / _restore_default / pick / Choice.unset_value / Choice.set_value / _restore_default(choice) / load_config(%s)" % (
        ", oddly spelled" if prop in ("C06", "C09") else "",
        "plain files with replace and merge; the instance's own write_config output; files with stale `# default:` entries" if prop in ("C03", "C09") else "plain files, replace and merge")
    if prop == "C09":
        return trees + "; " + hist + ops + "; plus %d cyclic trees (2- and 3-cycles over every pair of edge kinds x operand position, 11 choice shapes) and %d acyclic base trees, parsers 1 and 2, cyclic ones loaded twice under parser 1 (set iteration order varies between instances)" % (n_cyc, n_base)
    return trees + "; " + hist + ops


def run(prop, tier="quick", seed=0, jobs=16):
    t0 = time.time()
    res = {"name": NAME, "property": prop, "kind": "bounded", "status": "ok", "bound": "", "rule": "", "contracts": _CONTRACTS.get(prop, []),
           "evaluations": 0, "distinct_nontrivial": 0, "samples": [], "violations": [], "seconds": 0.0}
    try:
        if prop not in PROPERTIES:
            raise ValueError("property %s is not served by %s" % (prop, NAME))
        if tier not in _SIZES:
            raise ValueError("unknown tier %r" % (tier,))
        if not os.path.abspath(K.__file__).startswith(os.path.abspath(_REPO) + os.sep):
            raise RuntimeError("esp_kconfiglib imported from %s, not from %s" % (K.__file__, _REPO))
        jobs = max(1, int(jobs))
        tasks = _tasks(tier, seed)
        n_small = sum(1 for t in tasks if t[0] == "small")
        cyc_items = []
        n_cyc = n_base = 0
        if prop == "C09":
            cyc, bases = _cyclic_trees(tier)
            n_cyc, n_base = len(cyc), len(bases)
            cyc_items = [("cyc", i, n, t) for i, n, t in cyc] + [("base", i, [], t) for i, t in bases]
        n_chunks = jobs * 4
        chunks = [tasks[i::n_chunks] for i in range(n_chunks)]
        cchunks = [cyc_items[i::n_chunks] for i in range(n_chunks)]
        args = [(prop, tier, seed, chunks[i], cchunks[i]) for i in range(n_chunks) if chunks[i] or cchunks[i]]
        if jobs == 1:
            parts = [_worker(a) for a in args]
        else:
            with multiprocessing.get_context("fork").Pool(jobs) as pool:
                parts = pool.map(_worker, args, chunksize=1)
        viol = {}
        branches = {}
        for p in parts:
            if p["error"]:
                raise RuntimeError("driver error in a worker: " + p["error"])
            res["evaluations"] += p["evals"]
            res["distinct_nontrivial"] += p["nontrivial"]
            for s in p["samples"]:
                if len(res["samples"]) < 5:
                    res["samples"].append(s)
            for b, n in p["branches"].items():
                branches[b] = branches.get(b, 0) + n
            for cls, v in p["viol"].items():
                if cls in viol:
                    viol[cls]["count"] += v["count"]
                    if len(v["script"]) < len(viol[cls]["script"]):
                        v["count"] = viol[cls]["count"]
                        viol[cls] = v
                else:
                    viol[cls] = v
        res["violations"] = [viol[c] for c in sorted(viol)]
        res["branches"] = dict(sorted(branches.items()))
        res["bound"] = _bound_text(prop, tier, seed, n_small, n_cyc, n_base)
        res["rule"] = ("hand-written, small and cyclic trees are a fixed enumeration; the seed only selects the random trees (gen_tree(Random(seed*1000003+i))); histories, "
                       "assignments and read subsets are drawn from Random(sha256(property, tree kind, tree index, seed for random trees, parser, history index)); "
                       "work is split over %d chunks by index stride and merged in chunk order" % n_chunks)
    except BaseException as e:  # noqa: BLE001
        res["status"] = "checker_error"
        res["reason"] = "%s: %s\n%s" % (type(e).__name__, e, traceback.format_exc())
    res["seconds"] = round(time.time() - t0, 2)
    return res


def main(argv=None):
    argv = list(sys.argv[1:] if argv is None else argv)
    if not argv:
        print("usage: python -m rtc.drv_eval <%s> [quick|thorough] [seed] [jobs]" % "|".join(PROPERTIES))
        return 2
    prop = argv[0]
    tier = argv[1] if len(argv) > 1 else "quick"
    seed = int(argv[2]) if len(argv) > 2 else 0
    jobs = int(argv[3]) if len(argv) > 3 else min(16, os.cpu_count() or 1)
    G.scrub_env()
    out = run(prop, tier, seed, jobs)
    sys.stdout.write(json.dumps(out, indent=1, default=str) + "\n")
    return 0 if out["status"] == "ok" else 1


if __name__ == "__main__":
    sys.exit(main())
