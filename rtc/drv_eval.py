"""
rtc.drv_eval -- run-time contracts on the evaluation core of esp_kconfiglib/core.py
(properties C01, C03, C05, C06, C09), checked on real executions over a stated,
deterministic small scope.  Results are `bounded`, never `proved`.

    cd /verif && .venv/bin/python -m rtc.drv_eval <prop> [quick|thorough] [seed] [jobs]

Oracles (all taken from the property statements, none from the code under test):

* C03  "discard all caches and recompute" (Kconfig._invalidate_all() on a twin that saw the same
       mutator calls and on the instance itself), "fresh instance + same final user state"
       (gen.user_state / gen.apply_user_state, canonical and permuted order), "other read order"
       (gen.snapshot vs gen.snapshot_reversed, partial reads in between), and completeness of the
       invalidation edges for everything an option's evaluation can read.
* C01  a spec function of the documented precedence rule, evaluated over an INDEPENDENT parse of
       the Kconfig text (enclosing if / menu / visible if / choice are taken from the text, not from
       the library's propagated conditions); the values of the OTHER options an option refers to
       are taken from the library (assume/guarantee: every option is checked, so the induction
       over the acyclic reference order closes), relations between two operands are evaluated
       with Kconfig.eval_string().  Plus: "a user value on an option whose prompt condition is
       false has no effect on any output" = outputs with and without that user value identical.
* C05  the selection rule of the statement evaluated on the same independent parse.
* C06  lexical well-formedness per type, membership in the active range (range taken from the
       text, bounds from the library's values of the bound options), agreement of header / CMake /
       JSON with str_value.
* C09  trees that are cyclic BY CONSTRUCTION must be rejected with a KconfigError naming the loop;
       accepted trees must evaluate everywhere without an exception.
"""

import hashlib
import inspect
import json
import math
import multiprocessing
import os
import random
import re
import sys
import tempfile
import time
import traceback

_REPO = os.environ.get("PYVC_REPO", "/repo")
if sys.path[0] != _REPO:
    sys.path.insert(0, _REPO)

import esp_kconfiglib.core as K  # noqa: E402
import kconfgen.core as KG  # noqa: E402  (imports everything it needs from _REPO now)

import rtc.gen as G  # noqa: E402  (finds esp_kconfiglib already imported from _REPO)

NAME = "drv_eval"
PROPERTIES = ["C01", "C03", "C05", "C06", "C09"]

# ----------------------------------------------------------------------------------------------
# Helpers shared by the driver and by the replay scripts (the source text below is pasted into
# every "script" so that the scripts are self-contained).
# ----------------------------------------------------------------------------------------------

_HELPERS_OWN = r'''
import os, re, sys, json, tempfile, random
_ENV_VARS = ("KCONFIG_PARSER_VERSION", "srctree", "KCONFIG_WARN_UNDEF_ASSIGN", "CONFIG_", "KCONFIG_DEFAULTS_POLICY",
             "KCONFIG_PROMPTLESS_NO_WARN", "KCONFIG_CONFIG_HEADER", "KCONFIG_AUTOHEADER_HEADER", "KCONFIG_FUNCTIONS",
             "KCONFIG_WARN_UNDEF", "KCONFIG_STRICT", "KCONFIG_AUTOHEADER", "KCONFIG_CONFIG", "KCONFIG_REPORT_VERBOSITY",
             "COMPONENT_SDKCONFIG_RENAMES", "IDF_VERSION")


def h_load(text, rename_text, d, pv):
    """Fresh Kconfig instance of the tree 'text' (+ optional sdkconfig.rename) under parser version pv."""
    for n in _ENV_VARS:
        os.environ.pop(n, None)
    path = os.path.join(d, "Kconfig")
    with open(path, "w", encoding="utf-8", newline="\n") as f:
        f.write(text)
    inst = getattr(K.KconfigReport, "_instance", None)
    if inst is not None and getattr(inst, "_initialized", False):
        inst.reset()
    k = K.Kconfig(path, parser_version=pv)
    if rename_text:
        rp = os.path.join(d, "sdkconfig.rename")
        with open(rp, "w", encoding="utf-8", newline="\n") as f:
            f.write(rename_text)
        k.load_rename_files([rp])
    return k


_h_counter = [0]


def h_apply_op(k, op, d):
    """One mutator call.  op kinds: set / unset / reset / pick / choice_unset / choice_set / reset_choice / load."""
    kind = op[0]
    if kind == "set":
        return k.syms[op[1]].set_value(op[2])
    if kind == "unset":
        return k.syms[op[1]].unset_value()
    if kind == "reset":
        return K._restore_default(k.syms[op[1]].nodes[0])
    if kind == "pick":
        return k.syms[op[1]].set_value(2)
    if kind == "choice_unset":
        return find_choice(k, op[1]).unset_value()
    if kind == "choice_set":
        return find_choice(k, op[1]).set_value(op[2])
    if kind == "reset_choice":
        return K._restore_default(find_choice(k, op[1]).nodes[0])
    if kind == "load":
        _h_counter[0] += 1
        p = os.path.join(d, "sdkconfig_%d" % _h_counter[0])
        with open(p, "w", encoding="utf-8", newline="\n") as f:
            f.write(op[2])
        try:
            return k.load_config(p, replace=op[3])
        finally:
            os.unlink(p)
    raise ValueError("unknown op %r" % (op,))


def h_modes(k):
    """user modes of the choices (Choice._user_value), part of the user state besides gen.user_state()."""
    return dict((choice_key(i, c.name), c._user_value) for i, c in enumerate(k.unique_choices) if c._user_value is not None)


def h_apply_state(k, state, modes, permute_seed=None):
    """gen.apply_user_state (canonical order) or the same assignments in a permuted order, then the choice modes."""
    if permute_seed is None:
        apply_user_state(k, state)
    else:
        rng = random.Random(permute_seed)
        selected = {}
        for idx, ch in enumerate(k.unique_choices):
            key = choice_key(idx, ch.name)
            if key in state:
                selected[state[key]] = ch
        names = [s.name for s in k.unique_defined_syms if s.name in state and s.name not in selected]
        rng.shuffle(names)
        chs = list(enumerate(k.unique_choices))
        rng.shuffle(chs)
        half = len(names) // 2

        def do_choices():
            for idx, ch in chs:
                key = choice_key(idx, ch.name)
                if key in state:
                    member = k.syms[state[key]]
                    member.set_value(2)
                    want = state.get(member.name)
                    if want is None:
                        member.unset_value()
                    elif want != 2:
                        member.set_value(want)
        for n in names[:half]:
            k.syms[n].set_value(state[n])
        do_choices()
        for n in names[half:]:
            k.syms[n].set_value(state[n])
        # members whose y was overwritten by a later pick of a sibling keep their own user value
        for idx, ch in chs:
            key = choice_key(idx, ch.name)
            if key not in state and any(state.get(m.name) == 2 for m in ch.syms):
                ch.unset_value()
    for idx, ch in enumerate(k.unique_choices):
        m = modes.get(choice_key(idx, ch.name))
        if m is not None:
            ch.set_value(m)


def h_choice_extra(k):
    """(visibility, assignable, mode) of every choice, keyed like gen.snapshot()'s choice entries."""
    return dict((choice_key(i, c.name) + "#", (c.visibility, tuple(c.assignable), c.str_value)) for i, c in enumerate(k.unique_choices))


def h_partial_reads(k, rng, frac=0.5):
    """Read a random subset of the observables in a random attribute order (warms some caches only)."""
    attrs = ("str_value", "visibility", "assignable", "config_string", "bool_value")
    for s in k.unique_defined_syms:
        if rng.random() < frac:
            order = list(attrs)
            rng.shuffle(order)
            for a in order[:rng.randint(1, len(order))]:
                getattr(s, a)
    for c in k.unique_choices:
        if rng.random() < frac:
            if rng.random() < 0.5:
                c.selection
            else:
                c.visibility


def h_outputs(k, d):
    """header (write_autoconf), kconfgen header, CMake, JSON values, sdkconfig text -- as (dict of texts, json dict)."""
    import kconfgen.core as KG
    out = {}
    p = os.path.join(d, "out_autoconf.h")
    k.write_autoconf(p, header="")
    out["autoconf"] = open(p, encoding="utf-8").read()
    p = os.path.join(d, "out_header.h")
    KG.write_header(k, p)
    out["header"] = open(p, encoding="utf-8").read()
    p = os.path.join(d, "out.cmake")
    KG.write_cmake(k, p)
    out["cmake"] = open(p, encoding="utf-8").read()
    js = KG.get_json_values(k)
    p = os.path.join(d, "out_sdkconfig")
    k.write_config(p, header="", save_old=False)
    out["sdkconfig"] = open(p, encoding="utf-8").read()
    return out, js


def h_defines(text):
    """name -> rendered token of every '#define CONFIG_<name> <token>' line."""
    res = {}
    for line in text.split("\n"):
        m = re.match(r"#define CONFIG_(\w+) (.*)\Z", line, re.S)
        if m:
            res[m.group(1)] = m.group(2)
    return res


def h_cmake_sets(text):
    res = {}
    for m in re.finditer(r'^set\(CONFIG_(\w+) "(.*?)"\)$', text, re.M | re.S):
        res[m.group(1)] = m.group(2)
    return res


def h_strip_markers(text):
    return "\n".join(l for l in text.split("\n") if l.strip() != "# default:")


_H_PRIO = (0, 1, 2, 4, 3)
_H_ATTR = ("str_value", "visibility", "assignable", "config_string", "write_to_conf")


def h_diff(s1, s2):
    """None if equal, else (key, attribute, value in s1, value in s2) of the most significant difference."""
    best = None
    for key in s1:
        a, b = s1[key], s2.get(key)
        if a == b:
            continue
        if key.endswith("#"):
            cand = (5, key, "choice-visibility/assignable/mode", a, b)
        elif not isinstance(a, tuple) or not isinstance(b, tuple):
            cand = (3, key, "selection", a, b)
        else:
            cand = None
            for rank, i in enumerate(_H_PRIO):
                if a[i] != b[i]:
                    attr = _H_ATTR[i]
                    if i == 3 and h_strip_markers(a[i]) == h_strip_markers(b[i]):
                        attr, rank = "default-marker", 6
                    cand = (rank, key, attr, a[i], b[i])
                    break
        if cand is not None and (best is None or cand[0] < best[0]):
            best = cand
    if best is None and set(s1) != set(s2):
        return ("<keys>", "keys", sorted(s1), sorted(s2))
    return None if best is None else best[1:]


def h_full(k, reverse=False):
    s = snapshot_reversed(k) if reverse else snapshot(k)
    s.update(h_choice_extra(k))
    return s


def h_c03_history(text, rename_text, pv, ops, d, read_seed, fresh=True):
    """
    Runs the history on four twins with different read disciplines and compares, after EACH op,
      A  full forward read (gen.snapshot)              -- warm caches
      B  full reversed read (gen.snapshot_reversed)    -- warm caches, config_string read first
      C  reads of a random subset only; full read at random steps and at the end -- partly warm caches
      R  Kconfig._invalidate_all() and full forward read  -- "all cached results discarded and recomputed"
      F  a FRESH instance + gen.apply_user_state(final user state) (canonical / permuted order, forward / reversed read)
    Returns (evaluations, nontrivial steps, failures, exception info or None, executed ops).
    """
    rng = random.Random(read_seed)
    A, B, C, R = (h_load(text, rename_text, d, pv) for _ in range(4))
    evals = nontrivial = 0
    fails = []
    done = []
    tainted = not fresh
    SR = h_full(R)
    for name, tw, rev in (("incremental-vs-recompute", A, False), ("reversed-read-vs-recompute", B, True)):
        evals += 1
        df = h_diff(h_full(tw, rev), SR)
        if df:
            fails.append({"cmp": name, "step": -1, "opkind": "initial", "diff": df})
    h_partial_reads(C, rng)
    prev = SR
    SA = None
    for i, op in enumerate(ops):
        if op[0] == "load" and op[2] is None:
            p = os.path.join(d, "own_sdkconfig")
            A.write_config(p, header="", save_old=False)
            op = ("load", op[1], open(p, encoding="utf-8").read(), op[3])
        if op[0] == "load" and op[1] == "marked":
            tainted = True
        done.append(op)
        opkind = "load-" + op[1] if op[0] == "load" else op[0]
        for tw in (A, B, C, R):
            h_apply_op(tw, op, d)
        st, md = user_state(A), h_modes(A)
        evals += 1
        for nm, tw in (("B", B), ("C", C), ("R", R)):
            if (user_state(tw), h_modes(tw)) != (st, md):
                fails.append({"cmp": "user-state-depends-on-reads", "step": i, "opkind": opkind,
                              "diff": ("<user state>", "user_state", (st, md), (user_state(tw), h_modes(tw)))})
        R._invalidate_all()
        SR = h_full(R)
        SA = h_full(A)
        SB = h_full(B, True)
        checks = [("incremental-vs-recompute", SA), ("reversed-read-vs-recompute", SB)]
        h_partial_reads(C, rng)
        if i == len(ops) - 1 or rng.random() < 0.35:
            checks.append(("partial-reads-vs-recompute", h_full(C, rng.random() < 0.5)))
        if not tainted:
            F = h_load(text, rename_text, d, pv)
            h_apply_state(F, st, md, None if i % 2 == 0 else read_seed + i)
            if (user_state(F), h_modes(F)) == (st, md):
                checks.append(("fresh-instance-vs-recompute", h_full(F, i % 3 == 0)))
            else:
                checks.append(None)
        for c in checks:
            if c is None:
                continue
            evals += 1
            df = h_diff(c[1], SR)
            if df:
                fails.append({"cmp": c[0], "step": i, "opkind": opkind, "diff": df})
        changed = [key for key in SR if SR[key] != prev.get(key)]
        if len(changed) >= 2 or (len(changed) == 1 and op[0] in ("set", "unset", "reset", "pick") and changed[0] != op[1]):
            nontrivial += 1
        prev = SR
        if fails:
            break
    if SA is not None and not fails:
        evals += 1
        A._invalidate_all()
        df = h_diff(SA, h_full(A))
        if df:
            fails.append({"cmp": "self-recompute", "step": len(ops) - 1, "opkind": "end", "diff": df})
    return evals, nontrivial, fails, done


def h_leaves(expr, out, rhs=False):
    """(item, is right-hand operand of a relation) for every Symbol / Choice occurring in a library expression."""
    if isinstance(expr, tuple):
        is_rel = expr[0] not in (K.AND, K.OR, K.NOT)
        for j, el in enumerate(expr[1:]):
            h_leaves(el, out, rhs or (is_rel and j == 1))
    elif hasattr(expr, "is_constant") or isinstance(expr, K.Choice):
        out.append((expr, rhs))
    return out


def h_edges(k):
    """
    Edge completeness of Kconfig._build_dep() + _add_choice_deps(): (pairs checked, {edge kind: count}, missing edges).
    For every defined option X and every non-constant symbol / choice L that X's evaluation can read, X must be in
    L._dependents.
    """
    pairs = 0
    kinds = {}
    missing = []

    def need(x, expr, kind):
        nonlocal pairs
        for leaf, rhs in h_leaves(expr, []):
            if isinstance(leaf, K.Symbol) and leaf.is_constant:
                continue
            kk = kind + ("/rhs" if rhs else "")
            pairs += 1
            kinds[kk] = kinds.get(kk, 0) + 1
            if x not in leaf._dependents:
                missing.append((getattr(x, "name", None) or "<choice>", getattr(leaf, "name", None) or "<choice>", kk))

    for x in k.unique_defined_syms:
        for node in x.nodes:
            if node.prompt:
                need(x, node.prompt[1], "prompt-condition")
        for v, c in x.defaults:
            need(x, v, "default-value")
            need(x, c, "default-condition")
        for lo, hi, c in x.ranges:
            need(x, lo, "range-low")
            need(x, hi, "range-high")
            need(x, c, "range-condition")
        need(x, x.rev_dep, "select")
        need(x, x.weak_rev_dep, "imply")
        need(x, x.direct_dep, "direct-dep")
        for label, lst in (("set", x.rev_values), ("set-default", x.weak_rev_values)):
            for v, c, src in lst:
                need(x, v, label + "-value")
                need(x, c, label + "-condition")
                need(x, src, label + "-source")
        if x.choice is not None:
            need(x, x.choice, "member-reads-choice")
    for ch in k.unique_choices:
        for node in ch.nodes:
            if node.prompt:
                need(ch, node.prompt[1], "choice-prompt-condition")
        for m, c in ch.defaults:
            need(ch, c, "choice-default-condition")
        for m in ch.syms:
            need(ch, m, "choice-reads-member" + ("(conditional prompt)" if any(
                n.prompt and n.prompt[1] is not ch and n.prompt[1] is not k.y for n in m.nodes) else ""))
    return pairs, kinds, missing


def h_silence():
    try:
        os.dup2(os.open(os.devnull, os.O_WRONLY), 2)
    except OSError:
        pass
    try:
        from esp_pylib.logger import Verbosity, log
        log.set_verbosity(Verbosity.SILENT)
    except Exception:
        pass
'''

_HELPERS_GEN = "\n\n".join(inspect.getsource(f) for f in (
    G.choice_key, G.find_choice, G._read_sym, G.snapshot, G.snapshot_reversed, G.user_state, G.apply_user_state))

exec(compile(_HELPERS_OWN, "<drv_eval helpers>", "exec"), globals())
find_choice = G.find_choice
choice_key = G.choice_key
apply_user_state = G.apply_user_state
snapshot = G.snapshot
snapshot_reversed = G.snapshot_reversed
user_state = G.user_state

_SCRIPT_HEAD = (
    "#!/usr/bin/env python\n"
    "# replay script generated by rtc.drv_eval -- exit 1 if the violation shows on $PYVC_REPO (default /repo), else 0\n"
    "import os, sys\n"
    "sys.path.insert(0, os.environ.get('PYVC_REPO', '/repo'))\n"
    "import esp_kconfiglib.core as K\n"
    + _HELPERS_OWN + "\n\n" + _HELPERS_GEN + "\n\nh_silence()\n"
)


def _mk_script(body, **consts):
    """Self-contained replay program: helpers + constants + body; body sets the exit code via sys.exit()."""
    lines = [_SCRIPT_HEAD]
    for name in sorted(consts):
        lines.append("%s = %r" % (name, consts[name]))
    lines.append("d = tempfile.mkdtemp(prefix='drv_eval_replay')")
    lines.append("try:\n" + "\n".join("    " + l for l in body.strip("\n").split("\n")))
    lines.append("finally:\n    import shutil\n    shutil.rmtree(d, ignore_errors=True)")
    return "\n".join(lines) + "\n"


# ----------------------------------------------------------------------------------------------
# Independent parse of the Kconfig text (the "tree structure" the spec functions are evaluated on)
# ----------------------------------------------------------------------------------------------

_TOK = re.compile(r'\s*(?:(#.*)|("(?:[^"\\]|\\.)*")|(&&|\|\||!=|<=|>=|=|<|>|!|\(|\))|([A-Za-z0-9_.+\-]+))')
_RELOPS = ("=", "!=", "<", "<=", ">", ">=")
_TYPES = ("bool", "int", "hex", "string", "float")


def _tokens(s):
    out = []
    i = 0
    s = s.rstrip()
    while i < len(s):
        m = _TOK.match(s, i)
        if not m or m.end() == i:
            raise ValueError("cannot tokenize %r at %d" % (s, i))
        i = m.end()
        if m.group(1) is not None:
            break
        if m.group(2) is not None:
            out.append(("S", m.group(2)))
        elif m.group(3) is not None:
            out.append(("O", m.group(3)))
        else:
            out.append(("W", m.group(4)))
    return out


def _unq(tok_text):
    return re.sub(r"\\(.)", r"\1", tok_text[1:-1])


class _ExprParser:
    def __init__(self, toks):
        self.t = toks
        self.i = 0

    def peek(self):
        return self.t[self.i] if self.i < len(self.t) else (None, None)

    def take(self):
        tok = self.peek()
        self.i += 1
        return tok

    def parse(self):
        e = self.or_()
        if self.i != len(self.t):
            raise ValueError("trailing tokens in expression %r" % (self.t,))
        return e

    def or_(self):
        a = self.and_()
        while self.peek() == ("O", "||"):
            self.take()
            a = ("or", a, self.and_())
        return a

    def and_(self):
        a = self.not_()
        while self.peek() == ("O", "&&"):
            self.take()
            a = ("and", a, self.not_())
        return a

    def not_(self):
        if self.peek() == ("O", "!"):
            self.take()
            return ("not", self.not_())
        if self.peek() == ("O", "("):
            self.take()
            e = self.or_()
            if self.take() != ("O", ")"):
                raise ValueError("missing )")
            return e
        a = self.take()
        if a[0] not in ("W", "S"):
            raise ValueError("operand expected in %r" % (self.t,))
        nxt = self.peek()
        if nxt[0] == "O" and nxt[1] in _RELOPS:
            self.take()
            b = self.take()
            if b[0] not in ("W", "S"):
                raise ValueError("operand expected in %r" % (self.t,))
            return ("rel", "%s %s %s" % (a[1], nxt[1], b[1]), a, nxt[1], b)
        return ("sym", a[0], a[1])


def _expr(toks):
    return _ExprParser(toks).parse() if toks else None


def _split_if(toks):
    for i, t in enumerate(toks):
        if t == ("W", "if"):
            return toks[:i], _expr(toks[i + 1:])
    return toks, None


def _expr_names(e, acc):
    """Names (W tokens) mentioned in an expression AST."""
    if e is None:
        return acc
    if e[0] in ("or", "and"):
        _expr_names(e[1], acc)
        _expr_names(e[2], acc)
    elif e[0] == "not":
        _expr_names(e[1], acc)
    elif e[0] == "rel":
        for tok in (e[2], e[4]):
            if tok[0] == "W":
                acc.append(tok[1])
    elif e[1] == "W":
        acc.append(e[2])
    return acc


class Model:
    """
    opts:    name -> {"name","type","defs":[def...],"choice": choice dict or None,"index"}
    order:   option names in order of first definition
    choices: [{"name","defs":[cdef...],"members":[names],"index"}] in order of first definition
    A def has: prompt (bool), prompt_cond, depends [ast], frames [("if",ast)|("menu",menu)|("choice",choice)],
    defaults [(operand tokens, cond)], ranges [(lo tok, hi tok, cond)], selects/implies [(target, cond)],
    sets/weak_sets [(target, value tok, cond)].
    """

    def __init__(self, text):
        self.text = text
        self.opts = {}
        self.order = []
        self.choices = []
        self.lits = {"int": [], "hex": [], "float": [], "string": []}
        self._parse(text)
        self._index_reverse()
        self._collect_literals()

    def _parse(self, text):
        named = {}
        frames = []
        cur = None
        help_indent = None
        nseq = 0
        for raw in text.split("\n"):
            if help_indent is not None:
                if not raw.strip():
                    continue
                if len(raw) - len(raw.lstrip()) > help_indent:
                    continue
                help_indent = None
            s = raw.strip()
            if not s or s.startswith("#"):
                continue
            toks = _tokens(s)
            if not toks:
                continue
            kw = toks[0][1]
            if kw == "mainmenu":
                continue
            if kw in ("config", "menuconfig"):
                name = toks[1][1]
                d = {"prompt": False, "prompt_cond": None, "depends": [], "frames": list(frames), "defaults": [], "ranges": [],
                     "selects": [], "implies": [], "sets": [], "weak_sets": [], "seq": nseq}
                nseq += 1
                o = self.opts.get(name)
                if o is None:
                    o = {"name": name, "type": None, "defs": [], "choice": None, "index": len(self.order)}
                    self.opts[name] = o
                    self.order.append(name)
                o["defs"].append(d)
                outer = [f for f in frames if f[0] != "if"]
                if outer and outer[-1][0] == "choice":
                    ch = outer[-1][1]
                    o["choice"] = ch
                    if name not in ch["members"]:
                        ch["members"].append(name)
                cur = ("opt", o, d)
            elif kw == "choice":
                name = toks[1][1] if len(toks) > 1 else None
                ch = named.get(name) if name else None
                if ch is None:
                    ch = {"name": name, "defs": [], "members": [], "index": len(self.choices)}
                    self.choices.append(ch)
                    if name:
                        named[name] = ch
                cd = {"prompt": False, "prompt_cond": None, "depends": [], "frames": list(frames), "defaults": []}
                ch["defs"].append(cd)
                frames.append(("choice", ch))
                cur = ("choice", ch, cd)
            elif kw == "endchoice":
                assert frames.pop()[0] == "choice"
                cur = None
            elif kw == "menu":
                m = {"dep": [], "vis": [], "title": toks[1][1] if len(toks) > 1 else ""}
                frames.append(("menu", m))
                cur = ("menu", m)
            elif kw == "endmenu":
                assert frames.pop()[0] == "menu"
                cur = None
            elif kw == "if":
                frames.append(("if", _expr(toks[1:])))
                cur = None
            elif kw == "endif":
                assert frames.pop()[0] == "if"
                cur = None
            elif kw == "comment":
                cur = ("comment",)
            elif cur is None:
                raise ValueError("option line outside an entry: %r" % s)
            elif kw in _TYPES or kw == "prompt":
                if kw in _TYPES and cur[0] == "opt":
                    cur[1]["type"] = kw
                if cur[0] in ("opt", "choice") and len(toks) > 1 and toks[1][0] == "S":
                    cur[2]["prompt"] = True
                    rest = toks[2:]
                    if rest:
                        if rest[0] != ("W", "if"):
                            raise ValueError("unexpected tokens after prompt: %r" % s)
                        cur[2]["prompt_cond"] = _expr(rest[1:])
            elif kw == "depends":
                e = _expr(toks[2:])
                if cur[0] in ("opt", "choice"):
                    cur[2]["depends"].append(e)
                elif cur[0] == "menu":
                    cur[1]["dep"].append(e)
            elif kw == "visible":
                cur[1]["vis"].append(_expr(toks[2:]))
            elif kw == "default":
                operand, cond = _split_if(toks[1:])
                if cur[0] == "choice":
                    cur[2]["defaults"].append((operand[0][1], cond))
                else:
                    cur[2]["defaults"].append((operand, cond))
            elif kw == "range":
                rest, cond = _split_if(toks[1:])
                cur[2]["ranges"].append((rest[0], rest[1], cond))
            elif kw in ("select", "imply"):
                rest, cond = _split_if(toks[1:])
                cur[2]["selects" if kw == "select" else "implies"].append((rest[0][1], cond))
            elif kw == "set":
                rest = toks[1:]
                key = "sets"
                if rest[0] == ("W", "default"):
                    key = "weak_sets"
                    rest = rest[1:]
                rest, cond = _split_if(rest)
                if len(rest) != 3 or rest[1] != ("O", "="):
                    raise ValueError("cannot parse set line %r" % s)
                cur[2][key].append((rest[0][1], rest[2], cond))
            elif kw == "help":
                help_indent = len(raw) - len(raw.lstrip())
            elif kw in ("warning", "option"):
                pass
            else:
                raise ValueError("unknown Kconfig line %r" % s)
        if frames:
            raise ValueError("unclosed block")

    def _index_reverse(self):
        """Per target option: selects / implies / sets / weak sets aimed at it, in file order of the source definitions."""
        for o in self.opts.values():
            o["rev_sel"], o["rev_imp"], o["rev_set"], o["rev_wset"] = [], [], [], []
        for name in self.order:
            src = self.opts[name]
            for d in src["defs"]:
                for t, c in d["selects"]:
                    if t in self.opts:
                        self.opts[t]["rev_sel"].append((src, d, c))
                for t, c in d["implies"]:
                    if t in self.opts:
                        self.opts[t]["rev_imp"].append((src, d, c))
        # rev_values are appended when the SOURCE node is finalized, i.e. in order of the source definitions in the file
        seq = []
        for name in self.order:
            for d in self.opts[name]["defs"]:
                seq.append((self.opts[name], d))
        seq.sort(key=lambda od: od[1]["seq"])
        for src, d in seq:
            for t, v, c in d["sets"]:
                if t in self.opts:
                    self.opts[t]["rev_set"].append((src, d, v, c))
            for t, v, c in d["weak_sets"]:
                if t in self.opts:
                    self.opts[t]["rev_wset"].append((src, d, v, c))

    def _collect_literals(self):
        """Literal texts per type that occur as operands anywhere (used to pick interesting user values)."""
        def add(typ, tok):
            if typ in self.lits and tok is not None:
                if tok[0] == "S":
                    if typ == "string":
                        self.lits[typ].append(_unq(tok[1]))
                elif tok[1] not in self.opts and tok[1] not in ("y", "n"):
                    self.lits[typ].append(tok[1])

        def rels(e):
            if e is None:
                return
            if e[0] in ("or", "and"):
                rels(e[1])
                rels(e[2])
            elif e[0] == "not":
                rels(e[1])
            elif e[0] == "rel":
                for a, b in ((e[2], e[4]), (e[4], e[2])):
                    if a[0] == "W" and a[1] in self.opts:
                        add(self.opts[a[1]]["type"], b)

        for o in self.opts.values():
            for d in o["defs"]:
                for operand, c in d["defaults"]:
                    if len(operand) == 1:
                        add(o["type"], operand[0])
                    rels(c)
                for lo, hi, c in d["ranges"]:
                    add(o["type"], lo)
                    add(o["type"], hi)
                    rels(c)
                for key in ("sets", "weak_sets"):
                    for t, v, c in d[key]:
                        if t in self.opts:
                            add(self.opts[t]["type"], v)
                        rels(c)
                for key in ("selects", "implies"):
                    for t, c in d[key]:
                        rels(c)
                rels(d["prompt_cond"])
                for e in d["depends"]:
                    rels(e)
                for f in d["frames"]:
                    if f[0] == "if":
                        rels(f[1])
                    elif f[0] == "menu":
                        for e in f[1]["dep"] + f[1]["vis"]:
                            rels(e)
        for ch in self.choices:
            for cd in ch["defs"]:
                rels(cd["prompt_cond"])
                for e in cd["depends"]:
                    rels(e)
                for m, c in cd["defaults"]:
                    rels(c)
        for t in self.lits:
            seen = []
            for x in self.lits[t]:
                if x not in seen:
                    seen.append(x)
            self.lits[t] = seen


# ----------------------------------------------------------------------------------------------
# Spec functions (written from the property statements)
# ----------------------------------------------------------------------------------------------

_NUM_TYPES = ("int", "hex", "float")


def _num(typ, text):
    """Numeric reading of a value text for a numeric type, or None."""
    try:
        if typ == "int":
            return int(text, 10)
        if typ == "hex":
            return int(text, 16)
        v = float(text)
        return v if math.isfinite(v) else None
    except (ValueError, TypeError):
        return None


def _same(typ, a, b):
    if typ in _NUM_TYPES:
        if a == "" or b == "":
            return a == b
        na, nb = _num(typ, a), _num(typ, b)
        if na is None or nb is None:
            return a == b
        return na == nb
    return a == b


class Spec:
    """
    Evaluates the documented rules for ONE configuration of a loaded instance.  The user state
    (Symbol._user_value, Choice._user_selection) and the values of the options an option REFERS to are
    read from the instance; structure comes from the Model (independent parse of the text).
    """

    def __init__(self, kconf, model):
        self.k = kconf
        self.m = model
        self.memo = {}

    # -- expressions -------------------------------------------------------------------------
    def ev(self, e):
        if e is None:
            return True
        t = e[0]
        if t == "and":
            return self.ev(e[1]) and self.ev(e[2])
        if t == "or":
            return self.ev(e[1]) or self.ev(e[2])
        if t == "not":
            return not self.ev(e[1])
        if t == "rel":
            key = ("rel", e[1])
            if key not in self.memo:
                self.memo[key] = self.k.eval_string(e[1]) == 2
            return self.memo[key]
        if e[1] == "S":
            return False
        name = e[2]
        if name == "y":
            return True
        if name == "n":
            return False
        sym = self.k.syms.get(name)
        if sym is None or sym.orig_type != K.BOOL:
            return False
        return sym.bool_value == 2

    def all(self, lst):
        for e in lst:
            if not self.ev(e):
                return False
        return True

    # -- structure ---------------------------------------------------------------------------
    def dep(self, d):
        """own `depends on` && enclosing if / menu `depends on` / choice (a member needs its choice to be visible)."""
        key = ("dep", id(d))
        if key not in self.memo:
            r = self.all(d["depends"])
            if r:
                for f in d["frames"]:
                    if f[0] == "if":
                        r = self.ev(f[1])
                    elif f[0] == "menu":
                        r = self.all(f[1]["dep"])
                    else:
                        r = self.choice_vis(f[1])
                    if not r:
                        break
            self.memo[key] = r
        return self.memo[key]

    def visifs(self, d):
        for f in d["frames"]:
            if f[0] == "menu" and not self.all(f[1]["vis"]):
                return False
        return True

    def pcond(self, d):
        return d["prompt"] and self.ev(d["prompt_cond"]) and self.dep(d) and self.visifs(d)

    def opt_vis(self, name):
        key = ("vis", name)
        if key not in self.memo:
            self.memo[key] = any(self.pcond(d) for d in self.m.opts[name]["defs"])
        return self.memo[key]

    def choice_vis(self, ch):
        key = ("cvis", ch["index"])
        if key not in self.memo:
            self.memo[key] = any(self.pcond(cd) for cd in ch["defs"])
        return self.memo[key]

    def direct_dep(self, o):
        return any(self.dep(d) for d in o["defs"])

    # -- choices (C05) -----------------------------------------------------------------------
    def selection(self, ch):
        """(selected member name or None, reason)"""
        key = ("sel", ch["index"])
        if key in self.memo:
            return self.memo[key]
        res = (None, "choice-invisible")
        if self.choice_vis(ch):
            lib = self.k.unique_choices[ch["index"]]
            pick = lib._user_selection.name if lib._user_selection is not None else None
            if pick is not None and pick in ch["members"] and self.opt_vis(pick):
                res = (pick, "user-pick")
            else:
                res = None
                passed_invisible = False
                for cd in ch["defs"]:
                    for m, c in cd["defaults"]:
                        if self.ev(c) and self.dep(cd):
                            if m in ch["members"] and self.opt_vis(m):
                                res = (m, "default-after-invisible" if passed_invisible else "default")
                                break
                            passed_invisible = True
                    if res:
                        break
                if res is None:
                    for m in ch["members"]:
                        if self.opt_vis(m):
                            res = (m, "first-visible" + ("-pick-invisible" if pick else ""))
                            break
                if res is None:
                    res = (None, "no-visible-member")
        self.memo[key] = res
        return res

    # -- values (C01) ------------------------------------------------------------------------
    def opval(self, tok):
        """value denoted by a non-bool operand token: quoted literal, option (its current value) or bare literal"""
        if tok[0] == "S":
            return _unq(tok[1]), "lit"
        if tok[1] in self.m.opts:
            return self.k.syms[tok[1]].str_value, "sym"
        return tok[1], "lit"

    def active_range(self, o):
        """(low, high, def, tokens) of the first range whose condition holds, bounds as numbers (None if not numeric)."""
        for d in o["defs"]:
            for lo, hi, c in d["ranges"]:
                if self.ev(c) and self.dep(d):
                    return (_num(o["type"], self.opval(lo)[0]), _num(o["type"], self.opval(hi)[0]),
                            lo[1] in self.m.opts, hi[1] in self.m.opts)
        return None

    def value(self, name):
        """
        (expected value, branch tag, skip reason or None).  For numeric types the expected value is a number
        (compare numerically) or "" ; for bool "y"/"n"; for string the string.
        """
        o = self.m.opts[name]
        typ = o["type"]
        sym = self.k.syms[name]
        vis = self.opt_vis(name)
        user = sym._user_value
        if typ == "bool":
            if o["choice"] is not None:
                sel, why = self.selection(o["choice"])
                return ("y" if sel == name else "n"), "choice:" + why, None
            if vis and user is not None:
                val, tag = (user == 2), "user"
            else:
                val, tag = False, "none"
                for d in o["defs"]:
                    hit = False
                    for operand, c in d["defaults"]:
                        if self.ev(c) and self.dep(d):
                            val, tag, hit = self.ev(_expr(list(operand))), "default", True
                            break
                    if hit:
                        break
                if not val and self.direct_dep(o):
                    for src, d, c in o["rev_imp"]:
                        if self._src_y(src) and self.ev(c) and self.dep(d):
                            val, tag = True, "imply"
                            break
                if user is not None and not vis:
                    tag += "+hidden-user"
            if not val:
                for src, d, c in o["rev_sel"]:
                    if self._src_y(src) and self.ev(c) and self.dep(d):
                        val, tag = True, "select-over-" + tag
                        break
            return ("y" if val else "n"), tag, None

        rng = self.active_range(o) if typ in _NUM_TYPES else None
        val, tag, skip = None, None, None
        for src, d, v, c in o["rev_set"]:
            if self._src_y(src) and self.ev(c) and self.dep(d):
                val, kind = self.opval(v)
                tag = "set-" + kind
                break
        if val is None and vis and user is not None:
            if typ in _NUM_TYPES and rng is not None:
                u = _num(typ, user)
                if rng[0] is None or rng[1] is None or u is None:
                    return None, "user", "range bound or user value not numeric"
                if rng[0] <= u <= rng[1]:
                    val, tag = user, "user-in-range"
                else:
                    tag = "user-out-of-range>"
            else:
                val, tag = user, "user"
        if val is None:
            pre = tag or ""
            if user is not None and not vis:
                pre = "hidden-user>"
            if self.direct_dep(o):
                for src, d, v, c in o["rev_wset"]:
                    if self._src_y(src) and self.ev(c) and self.dep(d):
                        val, kind = self.opval(v)
                        tag = pre + "setdefault-" + kind
                        break
            if val is None:
                for d in o["defs"]:
                    for operand, c in d["defaults"]:
                        if self.ev(c) and self.dep(d):
                            val, kind = self.opval(operand[0])
                            tag = pre + "default-" + kind
                            break
                    if val is not None:
                        break
            if val is None:
                val, tag = "", pre + "none"
        if typ in _NUM_TYPES:
            if val == "":
                if rng is not None:
                    skip = "numeric option without a fallback default under an active range"
                return "", tag, skip
            n = _num(typ, val)
            if n is None:
                return None, tag, "the providing operand %r is not a well-formed %s" % (val, typ)
            if rng is not None:
                if rng[0] is None or rng[1] is None:
                    return None, tag, "range bound not numeric"
                if rng[0] > rng[1]:
                    return None, tag, "empty range (low > high)"
                if n < rng[0]:
                    n, tag = rng[0], tag + "+clamped"
                elif n > rng[1]:
                    n, tag = rng[1], tag + "+clamped"
            return n, tag, None
        return val, tag, None

    def _src_y(self, src):
        s = self.k.syms.get(src["name"])
        return s is not None and s.orig_type == K.BOOL and s.bool_value == 2


def _val_matches(typ, expected, observed):
    if typ in _NUM_TYPES:
        if expected == "":
            return observed == ""
        n = _num(typ, observed)
        return n is not None and n == expected
    return expected == observed


# ----------------------------------------------------------------------------------------------
# Scope: hand-written trees (shapes the random grammar rarely or never produces), gen.small_trees(3),
# random trees gen_tree(Random(seed*1000003+i), n)  (== gen.corpus(seed, count)[len(small_trees(2)) + i])
# ----------------------------------------------------------------------------------------------

_HAND = []


def _hand(name, body):
    _HAND.append((name, 'mainmenu "T"\n\n' + body.strip("\n") + "\n"))


_hand("range-sym-bounds-int", '''
config FLOOR
    int "floor"
    default 0

config LIMIT
    int "limit"
    default 10

config VAL
    int "val"
    range FLOOR LIMIT
    default 8

config BIG
    bool
    default y if VAL > 6

config LOWISH
    bool
    default y if 3 >= VAL
''')

_hand("range-sym-bounds-hex-float", '''
config HLO
    hex "hlo"
    default 0x0

config HHI
    hex "hhi"
    default 0x80

config HVAL
    hex "hval"
    range HLO HHI
    default 0x50

config FLO
    float "flo"
    default 0.0

config FHI
    float "fhi"
    default 80.0

config FVAL
    float "fval"
    range FLO FHI
    default 50.0

config HBIG
    bool
    default y if HVAL > 0x40

config FBIG
    bool
    default y if FVAL > 40.0
''')

_hand("range-sym-conditional", '''
config NARROW
    bool "narrow"
    default n

config TOP
    int "top"
    default 100

config BOT
    int "bot"
    default -10

config WIDTH
    int "width"
    range 0 TOP if NARROW
    range BOT 1000
    default 500

config USES
    int
    default WIDTH
''')

_hand("rhs-comparison", '''
config MINL
    int "minl"
    default 1

config MAXL
    int "maxl"
    default 100

config RANGE_OK
    bool
    default y if MINL <= MAXL

config FEATURE
    bool "feature"
    depends on RANGE_OK
    default y

config NAME1
    string "name1"
    default "abc"

config NAME2
    string "name2"
    default "abc"

config SAME
    bool
    default y if NAME1 = NAME2

config TUNE
    int "tune" if 50 < MAXL
    range 0 9 if 5 > MINL
    default 7
''')

_hand("set-string-from-symbol", '''
config SRC
    string "src"
    default "alpha"

config ALT
    string "alt"
    default "beta"

config EN
    bool "en"
    default y
    set TGT=SRC

config ENW
    bool "enw"
    default n
    set default WTGT=ALT

config TGT
    string "tgt"
    default "x"

config WTGT
    string "wtgt"
    default "w"

config SEES
    bool
    default y if TGT = "alpha"
''')

_hand("set-number-with-range", '''
config TURBO
    bool "turbo"
    set CLOCK=240
    set HCLK=0x50

config ECO
    bool "eco"
    set default CLOCK=40
    set default HCLK=0x8

config CLOCK
    int "clock"
    range 0 200
    default 80

config HCLK
    hex "hclk"
    range 0x0 0x10
    default 0x4

config LABEL
    string "label"
    default "std"

config FAST
    bool
    default y if CLOCK > 100
''')

_hand("set-float-and-symbolic-bound", '''
config BOOST
    bool "boost"
    set GAIN=9.5
    set LEVEL=70

config CAP
    int "cap"
    default 50

config GAIN
    float "gain"
    range 0.0 5.0
    default 1.0

config LEVEL
    int "level"
    range 0 CAP
    default 20
''')

_hand("choice-conditional-members", '''
config P
    bool "p"
    default y

config Q
    bool "q"
    default y

config GATE
    bool "gate"
    default y

choice CH
    prompt "ch" if GATE
    default MB if Q
    default MC

    config MA
        bool "ma"

    config MB
        bool "mb" if P

    config MC
        bool "mc"

endchoice

config AFTER
    int "after"
    default 1 if MA
    default 2 if MB
    default 3 if MC
    default 0
''')

_hand("choice-defaults-chain", '''
config P1
    bool "p1"
    default n

config P2
    bool "p2"
    default n

config K1
    bool "k1"
    default y

choice
    prompt "mode"
    default M2 if K1
    default M3 if K1
    default M4

    config M1
        bool "m1"

    config M2
        bool "m2" if P1

    config M3
        bool "m3"
        depends on P2

    config M4
        bool "m4"

endchoice
''')

_hand("choice-in-visible-if-menu-and-if", '''
config SHOW
    bool "show"
    default y

config EXTRA
    bool "extra"
    default n

menu "outer"
    visible if SHOW

    choice INNER
        prompt "inner"
        default N2

        config N1
            bool "n1"

        if EXTRA

            config N2
                bool "n2"

        endif

        config N3
            bool "n3"
            depends on !EXTRA

    endchoice

endmenu

config TAIL
    string "tail"
    default "one" if N1
    default "two" if N2
    default "three"
''')

_hand("choice-defined-twice", '''
config W
    bool "w"
    default n

choice TWICE
    prompt "twice"
    default T2

    config T1
        bool "t1"

    config T2
        bool "t2" if W

endchoice

config MID
    bool "mid"
    default y

choice TWICE
    default T3 if MID

    config T3
        bool "t3"

endchoice
''')

_hand("nested-visible-if", '''
config EXPERT
    bool "expert"
    default n

config TUNING
    bool "tuning"
    default y

config COND
    bool "cond"
    default y

menu "Advanced"
    visible if EXPERT

    config ADV_DIRECT
        int "adv direct"
        default 3

    menu "Tuning"
        visible if TUNING

        config TUNE_LEVEL
            int "tune level"
            default 5

        config TUNE_ON
            bool "tune on"
            default n

        config TUNE_NAME
            string "tune name"
            default "std"

        if COND

            config TUNE_MASK
                hex "tune mask"
                default 0x1

        endif

        menu "Deep"

            config DEEPEST
                bool "deepest"
                default n

        endmenu

    endmenu

    menu "Plain nested menu"

        config PLAIN_FLAG
            bool "plain flag"
            default n

    endmenu

endmenu

config DERIVED
    int
    default 1000 if TUNE_LEVEL > 50
    default 100 if TUNE_ON
    default 10 if PLAIN_FLAG || DEEPEST
    default 1
''')

_hand("string-empty-user-value", '''
config NET
    bool "net"
    default y

config HOSTNAME
    string "hostname"
    depends on NET
    default "espressif"

config BANNER
    string "banner"
    default "hello"

config BRANDING
    bool "branding"
    default n
    set default HOSTNAME="vendor-host"
    set default BANNER="vendor"

config LOCKDOWN
    bool "lockdown"
    default n
    set BANNER="locked"

config HAS_HOSTNAME
    bool
    default y if HOSTNAME != ""

config NO_BANNER
    bool
    default y if BANNER = ""
''')

_hand("two-choices", '''
choice TRANSPORT
    prompt "transport"

    config TRANSPORT_UART
        bool "uart"

    config TRANSPORT_USB
        bool "usb"

endchoice

config SILENT
    bool "silent"
    default n

choice CONSOLE
    prompt "console"

    config CONSOLE_UART
        bool "console uart"
        depends on TRANSPORT_UART

    config CONSOLE_NONE
        bool "console none"

endchoice

config QUIET
    bool
    default y if CONSOLE_NONE && !SILENT
''')

_hand("select-imply-deps", '''
config HW
    bool "hw"
    default y

config DRV
    bool "drv"
    default n
    select CORE
    imply EXTRAS
    imply LOGGING

config CORE
    bool "core"
    depends on HW

config EXTRAS
    bool "extras"
    depends on HW

config LOGGING
    bool "logging"
    default n

config HIDDENSEL
    bool
    select CORE if LOGGING
''')

_hand("multi-def-prompts", '''
config MODE
    bool "mode"
    default n

config SIZE
    int "size" if MODE
    range 1 8
    default 4

config OTHER
    bool "other"
    default y

menu "dup SIZE"
    depends on OTHER

    config SIZE
        int "size again" if !MODE
        range 1 64 if OTHER
        default 32

endmenu

config TOTAL
    int
    default SIZE
''')

_hand("default-from-choice-member", '''
choice FLAVOR
    prompt "flavor"
    default FL_B

    config FL_A
        bool "fl a"

    config FL_B
        bool "fl b"
        set SPEED=7
        set default NOTE="bee"

endchoice

config SPEED
    int "speed"
    range 0 9
    default 3 if FL_A
    default 5

config NOTE
    string "note"
    default "ay" if FL_A
    default "none"

config FAST_NOTE
    bool
    default y if NOTE = "bee" && SPEED >= 7
''')

_hand("set-chain-and-cond", '''
config LVL
    int "lvl"
    default 2

config STEP1
    bool "step1"
    default y
    set MIDS="m1" if LVL > 1
    set default ENDV=11

config MIDS
    string "mids"
    default "m0"

config STEP2
    bool "step2"
    default y if MIDS = "m1"
    set ENDV=99 if MIDS = "m1" && LVL < 5

config ENDV
    int "endv"
    range 0 50 if LVL > 3
    default 1
''')

_hand("float-and-hex-forms", '''
config RATIO
    float "ratio"
    range -1.5 1e2
    default 2.50

config OFFSET
    hex "offset"
    range 0x10 0xFF
    default ab

config COUNT
    int "count"
    range -5 5
    default 0

config HALF
    bool
    default y if RATIO >= 0.5

config MASKED
    bool
    default y if OFFSET > 0x7f
''')


def _hand_trees():
    return [G.TreeSpec(text, origin="hand:" + name) for name, text in _HAND]


_SIZES = {
    # tier: (random trees, n_syms, histories per (tree, parser), history length, configurations per tree for C01)
    "quick": {"rand": 420, "n_syms": 6, "hist": 3, "hlen": 8, "hand_hist": 10, "hand_hlen": 10, "cfgs": 40, "hand_cfgs": 160},
    "thorough": {"rand": 4000, "n_syms": 7, "hist": 5, "hlen": 10, "hand_hist": 40, "hand_hlen": 12, "cfgs": 70, "hand_cfgs": 600},
}


def _tasks(tier, seed):
    """[(kind, index)] : hand / small / rand.  The random part is the only one that depends on the seed."""
    sz = _SIZES[tier]
    n_small = sum(1 for _ in G.small_trees(3))
    return [("hand", i) for i in range(len(_HAND))] + [("small", i) for i in range(n_small)] + [("rand", i) for i in range(sz["rand"])]


_small_cache = []


def _tree_of(task, tier, seed):
    kind, i = task
    if kind == "hand":
        return _hand_trees()[i]
    if kind == "small":
        if not _small_cache:
            _small_cache.extend(G.small_trees(3))
        return _small_cache[i]
    spec = G.gen_tree(random.Random(seed * 1000003 + i), _SIZES[tier]["n_syms"])
    spec.origin = "random:%d:%d" % (seed, i)
    return spec


def _pvs(task):
    """hand trees run under both parser versions, the others alternate (index parity)"""
    kind, i = task
    return (1, 2) if kind == "hand" else ((1,) if i % 2 == 0 else (2,))


def _task_rng(prop, task, seed, salt=0):
    h = hashlib.sha256(("%s|%s|%d|%d|%d" % (prop, task[0], task[1], seed if task[0] == "rand" else 0, salt)).encode()).hexdigest()
    return random.Random(int(h[:16], 16))


# ----------------------------------------------------------------------------------------------
# user values and histories
# ----------------------------------------------------------------------------------------------

# lexically unusual numbers (C06 quantifier: "differently formatted numbers ... arriving via set_value, sdkconfig files")
_ODD = {
    "int": ("010", "+5", "1_0", " 7", "7 ", "-0", "١٢"),
    "hex": ("0X1f", "1_f", "+0x5", " ff", "-0", "0x00ff"),
    "float": ("5", "1e3", "1_0.5", " 7", "+2.5", "-0", "1E+30", ".5", "5."),
    "string": (),
    "bool": (),
}


def _near(typ, text):
    n = _num(typ, text)
    if n is None:
        return []
    if typ == "int":
        return [str(n - 1), str(n), str(n + 1)]
    if typ == "hex":
        return [hex(c) for c in (n - 1, n, n + 1) if c >= 0]
    return [repr(c) for c in (n - 0.5, n, n + 0.5)]


def _candidates(model, name, odd=False):
    """(valid values, malformed values) worth assigning to option 'name' (deterministic)."""
    o = model.opts[name]
    typ = o["type"]
    valid, bad = G.VALUES[typ]
    valid = list(valid)
    if typ in _NUM_TYPES:
        for lit in model.lits[typ]:
            for v in _near(typ, lit):
                if v not in valid:
                    valid.append(v)
        if odd:
            valid += [v for v in _ODD[typ] if v not in valid]
    elif typ == "string":
        for lit in model.lits["string"]:
            if lit not in valid:
                valid.append(lit)
    return valid, list(bad)


def _sdk_line(model, name, value):
    typ = model.opts[name]["type"]
    if typ == "bool":
        return "CONFIG_%s=y" % name if value in (2, "y") else "# CONFIG_%s is not set" % name
    if typ == "string":
        return 'CONFIG_%s="%s"' % (name, value.replace("\\", "\\\\").replace('"', '\\"'))
    return "CONFIG_%s=%s" % (name, value)


def _gen_load_text(rng, model, marked, odd):
    names = [n for n in model.order if rng.random() < 0.55]
    rng.shuffle(names)
    lines = []
    for n in names:
        valid, bad = _candidates(model, n, odd)
        pool = bad if (bad and rng.random() < 0.1) else valid
        v = rng.choice(pool)
        if model.opts[n]["type"] == "bool" and v not in (2, 0, "y", "n"):
            v = "y"
        if "\n" in str(v):
            continue
        if marked and rng.random() < 0.5:
            lines.append("# default:")
        lines.append(_sdk_line(model, n, v))
    return "\n".join(lines) + "\n"


def _gen_history(rng, model, length, loads=("plain",), odd=False):
    """
    History of 'length' mutator calls over the options / choices of the model (see h_apply_op for the kinds).
    load ops carry their text: ("load", kind, text, replace); kind 'own' gets its text at run time (the
    instance's own write_config output).
    """
    names = list(model.order)
    members = [n for n in names if model.opts[n]["choice"] is not None]
    ckeys = [G.choice_key(c["index"], c["name"]) for c in model.choices]
    ops = []
    for _ in range(length):
        r = rng.random()
        if members and r < 0.12:
            ops.append(("pick", rng.choice(members)))
        elif ckeys and r < 0.15:
            ops.append(("choice_unset", rng.choice(ckeys)))
        elif ckeys and r < 0.17:
            ops.append(("choice_set", rng.choice(ckeys), rng.choice((2, 0, "y", "n"))))
        elif ckeys and r < 0.19:
            ops.append(("reset_choice", rng.choice(ckeys)))
        elif r < 0.28:
            ops.append(("unset", rng.choice(names)))
        elif r < 0.36:
            ops.append(("reset", rng.choice(names)))
        elif loads and r < 0.46:
            kind = rng.choice(loads)
            if kind == "own":
                ops.append(("load", "own", None, rng.random() < 0.7))
            else:
                ops.append(("load", kind, _gen_load_text(rng, model, kind == "marked", odd), rng.random() < 0.6))
        else:
            name = rng.choice(names)
            valid, bad = _candidates(model, name, odd)
            pool = bad if (bad and rng.random() < 0.15) else valid
            ops.append(("set", name, rng.choice(pool)))
    return ops


def _opkind(op):
    return "load-" + op[1] if op[0] == "load" else op[0]


def _op_for_script(op):
    return op


def _configs(rng, model, count, odd=False):
    """Assignments (lists of ("set"/"pick", name, value)) : empty, every single value, then random combinations."""
    names = list(model.order)
    cands = {}
    for n in names:
        valid, bad = _candidates(model, n, odd)
        if model.opts[n]["type"] == "bool":
            valid = [2, 0]
        cands[n] = valid
    out = [[]]
    singles = [[("set", n, v)] for n in names for v in cands[n]]
    rng.shuffle(singles)
    out += singles[:max(0, count // 2)]
    while len(out) < count:
        k = rng.randint(2, max(2, len(names)))
        chosen = [n for n in names if rng.random() < k / max(1, len(names))]
        out.append([("set", n, rng.choice(cands[n])) for n in chosen])
    return out[:count]


# ----------------------------------------------------------------------------------------------
# result accumulation
# ----------------------------------------------------------------------------------------------

class Acc:
    def __init__(self):
        self.evals = 0
        self.nontrivial = 0
        self.viol = {}      # case_class -> first witness dict (+ "count")
        self.samples = []
        self.branches = {}

    def violation(self, case_class, contract, detail, script_fn):
        v = self.viol.get(case_class)
        if v is None:
            try:
                script = script_fn()
            except Exception as e:  # noqa: BLE001
                script = "# script generation failed: %r" % (e,)
            self.viol[case_class] = {"case_class": case_class, "contract": contract, "detail": detail, "script": script, "count": 1}
        else:
            v["count"] += 1

    def branch(self, tag):
        self.branches[tag] = self.branches.get(tag, 0) + 1

    def sample(self, s):
        if len(self.samples) < 2:
            self.samples.append(s)

    def dump(self):
        return {"evals": self.evals, "nontrivial": self.nontrivial, "viol": self.viol, "samples": self.samples, "branches": self.branches}


def _short(text, n=300):
    text = str(text)
    return text if len(text) <= n else text[:n] + "..."


def _exc_where(e):
    tb = traceback.extract_tb(e.__traceback__)
    for fr in reversed(tb):
        if "/esp_kconfiglib/" in fr.filename or "/kconfgen/" in fr.filename:
            return "%s:%s" % (os.path.basename(os.path.dirname(fr.filename)) + "/" + os.path.basename(fr.filename), fr.name)
    return tb[-1].name if tb else "?"


_BODY_EXC = '''
try:
    k = h_load(TEXT, RENAME, d, PV)
    for op in OPS:
        h_apply_op(k, op, d)
    snapshot(k)
    snapshot_reversed(k)
    h_choice_extra(k)
    h_outputs(k, d)
except BaseException as e:
    if isinstance(e, SystemExit):
        raise
    print("exception:", type(e).__name__, e)
    sys.exit(1)
print("no exception")
sys.exit(0)
'''


def _report_exception(acc, e, spec, pv, ops, phase):
    where = _exc_where(e)
    acc.violation(
        "exception:%s:%s" % (type(e).__name__, where),
        "every mutator / every read / every generator: returns without raising on an accepted tree",
        "%s raised in %s (%s) on tree %s parser %d after ops %s" % (type(e).__name__, where, _short(e, 200), spec.origin, pv, _short(ops, 400)),
        lambda: _mk_script(_BODY_EXC, TEXT=spec.text, RENAME=spec.rename_text, PV=pv, OPS=[o for o in ops if o is not None]),
    )
