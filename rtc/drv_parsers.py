#!/usr/bin/env python
"""
rtc.drv_parsers -- bounded stand-in for property C04 ("both parsers accept the same language and build the
same configuration").

Contract checked (on the real ``Kconfig.__init__`` for ``parser_version`` 1 and 2, same files, same controlled
environment):

  * ACCEPTANCE   both constructions end the same way: both return, or both raise a ``KconfigError``.  Any other
                 exception (AttributeError, ValueError, RecursionError, ...) or no answer within LOAD_TIMEOUT
                 seconds in either parser is a violation on its own ("reject" means: raise a Kconfig error).
  * TREE         if both return: the two menu trees are equal node by node (pre-order, with depth): entry kind,
                 name, type, is_menuconfig, prompt text, prompt condition, help text, and -- through
                 ``expr_str`` -- dep, visibility, defaults, ranges, selects, implies, sets, weak_sets; plus the
                 ``warning`` text.
  * OUTPUTS      if both return: ``write_config`` text, ``write_autoconf`` text and ``kconfgen.core.
                 get_json_values`` are equal in the initial configuration and after every step of a history of
                 user operations applied to both instances (``rtc.gen`` op language).
  * INVALID      for deliberately invalid sources (each breaks one documented rule) the ACCEPTANCE contract must
                 hold with "both raise a KconfigError"; if both parsers accept such a source the TREE/OUTPUTS
                 contracts are still evaluated (the two parsers must not disagree), and the case is listed under
                 ``notes`` (the property statement only quantifies over the documented language).

The oracle is the other parser: nothing of the library is re-implemented here.

``python -m rtc.drv_parsers C04 [quick|thorough] [seed]`` prints the result as JSON.
"""

import os
import sys

REPO = os.environ.get("PYVC_REPO", "/repo")
while REPO in sys.path:
    sys.path.remove(REPO)
sys.path.insert(0, REPO)

import esp_kconfiglib.core as K  # noqa: E402  (must be imported BEFORE rtc.gen, which puts /repo first)
from kconfgen.core import get_json_values  # noqa: E402

import contextlib  # noqa: E402
import inspect  # noqa: E402
import json  # noqa: E402
import multiprocessing  # noqa: E402
import random  # noqa: E402
import re  # noqa: E402
import shutil  # noqa: E402
import signal  # noqa: E402
import tempfile  # noqa: E402
import time  # noqa: E402
import zlib  # noqa: E402

from rtc import gen  # noqa: E402

NAME = "drv_parsers"
PROPERTIES = ["C04"]

LOAD_TIMEOUT = 6  # seconds per Kconfig() construction; normal constructions take 2..60 ms
ENV_NAMES = tuple(gen.ENV_VARS)

# ======================================================================================================
# CORE: everything between the two markers is copied verbatim into the replay script of a violation, so
# the script evaluates exactly the contract of the driver.  Only K, get_json_values, os, sys, signal,
# tempfile, shutil, re and the constants ENV_NAMES / LOAD_TIMEOUT may be used in here.
# ======================================================================================================
# --- CORE BEGIN ---


class _Hang(BaseException):
    pass


def _on_alarm(signum, frame):
    raise _Hang()


def _quiet():
    try:
        from esp_pylib.logger import Verbosity, log

        log.set_verbosity(Verbosity.SILENT)
    except Exception:
        pass


def _reset_report():
    inst = getattr(K.KconfigReport, "_instance", None)
    if inst is not None and getattr(inst, "_initialized", False):
        inst.reset()


class _Env:
    """none of the environment variables the library reads is set, except the given overrides"""

    def __init__(self, overrides):
        self.overrides = dict(overrides or {})

    def __enter__(self):
        self.saved = {}
        for name in list(ENV_NAMES) + sorted(self.overrides):
            self.saved[name] = os.environ.pop(name, None)
        os.environ.update(self.overrides)

    def __exit__(self, *exc):
        for name, val in self.saved.items():
            os.environ.pop(name, None)
            if val is not None:
                os.environ[name] = val


def _expr(e):
    if e is None:
        return None
    try:
        return K.expr_str(e)
    except Exception as exc:  # malformed expression object left behind by a parser
        return "<expr_str raised %s on %r>" % (type(exc).__name__, e)


def dump_tree(kconf):
    """list of (depth, dict) in pre-order: the complete observable menu tree"""
    out = []

    def rec(node, depth):
        while node:
            item = node.item
            if item is None:
                kind, name, typ = "if", None, None
            elif item == K.MENU:
                kind, name, typ = "menu", None, None
            elif item == K.COMMENT:
                kind, name, typ = "comment", None, None
            else:
                kind = "choice" if isinstance(item, K.Choice) else "config"
                name, typ = item.name, K.TYPE_TO_STR.get(item.orig_type, str(item.orig_type))
            vis = getattr(node, "visibility", None)
            out.append((depth, {
                "entry": (kind, name),
                "type": typ,
                "menuconfig": bool(node.is_menuconfig),
                "prompt": node.prompt[0] if node.prompt else None,
                "prompt_cond": _expr(node.prompt[1]) if node.prompt else None,
                "help": node.help,
                "dep": _expr(node.dep),
                "visibility": _expr(vis),
                "defaults": [(_expr(v), _expr(c)) for v, c in node.defaults],
                "ranges": [(_expr(a), _expr(b), _expr(c)) for a, b, c in node.ranges],
                "selects": [(_expr(v), _expr(c)) for v, c in node.selects],
                "implies": [(_expr(v), _expr(c)) for v, c in node.implies],
                "sets": [(_expr(a), _expr(b), _expr(c)) for a, b, c in getattr(node, "sets", [])],
                "weak_sets": [(_expr(a), _expr(b), _expr(c)) for a, b, c in getattr(node, "weak_sets", [])],
                "warning": getattr(node, "warning", None) or None,
            }))
            if node.list:
                rec(node.list, depth + 1)
            node = node.next

    rec(kconf.top_node, 0)
    return out


def diff_trees(t1, t2):
    """(sorted list of differing field names, short text) -- ([], '') if equal"""
    if [(d, n["entry"]) for d, n in t1] != [(d, n["entry"]) for d, n in t2]:
        return ["entries"], "entries/order/nesting differ:\n  parser 1: %r\n  parser 2: %r" % (
            [(d,) + n["entry"] for d, n in t1], [(d,) + n["entry"] for d, n in t2])
    fields, lines = set(), []
    for (d, a), (_, b) in zip(t1, t2):
        for key in a:
            if a[key] != b[key]:
                fields.add(key)
                if len(lines) < 6:
                    lines.append("%s %s: %s: parser 1 %r / parser 2 %r" % (a["entry"][0], a["entry"][1] or a["prompt"], key, a[key], b[key]))
    return sorted(fields), "\n".join(lines)


def outputs(kconf, tmpdir, tag):
    res = {}
    for which, fn in (("sdkconfig", kconf.write_config), ("header", kconf.write_autoconf)):
        path = os.path.join(tmpdir, "out.%s.%s" % (which, tag))
        try:
            if os.path.exists(path):
                os.unlink(path)
            fn(path)
            with open(path, encoding="utf-8") as f:
                res[which] = f.read()
        except Exception as exc:
            res[which] = "<%s raised %s: %s>" % (fn.__name__, type(exc).__name__, exc)
    try:
        res["json"] = repr(sorted(get_json_values(kconf).items()))
    except Exception as exc:
        res["json"] = "<get_json_values raised %s: %s>" % (type(exc).__name__, exc)
    return res


def apply_op(kconf, op):
    kind = op[0]
    try:
        if kind == "set":
            return repr(kconf.syms[op[1]].set_value(op[2]))
        if kind == "unset":
            return repr(kconf.syms[op[1]].unset_value())
        if kind == "reset":
            return repr(K._restore_default(kconf.syms[op[1]].nodes[0]))
        if kind == "pick":
            return repr(kconf.syms[op[1]].set_value(2))
        if kind == "choice_unset":
            _, idx, name = op[1].split(":", 2)
            ch = kconf.unique_choices[int(idx)]
            if (ch.name or "") != name:
                raise KeyError(op[1])
            return repr(ch.unset_value())
    except Exception as exc:
        return "<%s raised %s: %s>" % (kind, type(exc).__name__, exc)
    raise ValueError(op)


def load(path, version, env):
    """('ok', Kconfig) | ('reject', text) | ('crash(<Type>)', text) | ('hang', text)"""
    _reset_report()
    old = signal.signal(signal.SIGALRM, _on_alarm)
    signal.alarm(LOAD_TIMEOUT)
    try:
        with _Env(env):
            kconf = K.Kconfig(path, parser_version=version)
        signal.alarm(0)
        return "ok", kconf
    except K.KconfigError as exc:
        signal.alarm(0)
        return "reject", "%s: %s" % (type(exc).__name__, exc)
    except _Hang:
        return "hang", "no answer within %d s" % LOAD_TIMEOUT
    except Exception as exc:
        signal.alarm(0)
        return "crash(%s)" % type(exc).__name__, "%s: %s" % (type(exc).__name__, exc)
    finally:
        signal.alarm(0)
        signal.signal(signal.SIGALRM, old)


_WS_RUN = re.compile(r"[ \t]+")


def _ws(x):
    if isinstance(x, str):
        return _WS_RUN.sub(" ", x)
    if isinstance(x, (list, tuple)):
        return type(x)(_ws(y) for y in x)
    if isinstance(x, dict):
        return {k: _ws(v) for k, v in x.items()}
    return x


def check_case(files, env, expect, ops_fn, root="Kconfig", relroot=False, fixture=None):
    """
    Evaluate the C04 contract on one source.  files: {relative path: text} ('@ROOT@' in a text is replaced by the
    scratch directory); fixture: path of an existing root Kconfig file (then files is ignored); ops_fn(k1) ->
    history.  Returns a dict: statuses, errors, symptoms (list of violation symptom strings, empty = contract
    holds), detail, evaluations, nontrivial, ops, both_accept_invalid.
    """
    _quiet()
    res = {"symptoms": [], "detail": [], "evaluations": 1, "nontrivial": False, "ops": [], "both_accept_invalid": False}
    td = tempfile.mkdtemp(prefix="drvparsers")
    cwd = os.getcwd()
    try:
        if fixture is not None:
            path = fixture
        else:
            for rel, text in files.items():
                p = os.path.join(td, rel)
                os.makedirs(os.path.dirname(p), exist_ok=True)
                with open(p, "w", encoding="utf-8", newline="") as f:
                    f.write(text.replace("@ROOT@", td))
            path = os.path.join(td, root)
            if relroot:
                os.chdir(td)
                path = root
        env = {k: v.replace("@ROOT@", td) for k, v in (env or {}).items()}
        s1, k1 = load(path, 1, env)
        s2, k2 = load(path, 2, env)
        res["status"] = [s1, s2]
        res["errors"] = [None if s1 == "ok" else str(k1).replace(td, "@ROOT@")[:400], None if s2 == "ok" else str(k2).replace(td, "@ROOT@")[:400]]
        bad = [s for s in (s1, s2) if s not in ("ok", "reject")]
        if bad or s1 != s2:
            res["symptoms"].append("accept:%s/%s" % (s1, s2))
            res["detail"].append("parser 1: %s%s\nparser 2: %s%s" % (s1, "" if s1 == "ok" else " -- " + res["errors"][0], s2, "" if s2 == "ok" else " -- " + res["errors"][1]))
        if expect == "invalid" and (s1 != "ok" or s2 != "ok"):
            res["nontrivial"] = True
        if s1 != "ok" or s2 != "ok":
            return res
        res["both_accept_invalid"] = expect == "invalid"
        res["nontrivial"] = res["nontrivial"] or len(k1.unique_defined_syms) > 0
        t1, t2 = dump_tree(k1), dump_tree(k2)
        res["evaluations"] += 1
        fields, text = diff_trees(t1, t2)
        ws_only = False
        if fields:
            ws_only = not diff_trees([(d, _ws(n)) for d, n in t1], [(d, _ws(n)) for d, n in t2])[0]
            res["symptoms"].append("tree~whitespace-runs" if ws_only else "tree:" + "+".join(fields))
            res["detail"].append(text)
        ops = list(ops_fn(k1)) if ops_fn else []
        res["ops"] = ops
        out_diff, first = set(), None
        for step in range(len(ops) + 1):
            if step:
                r1, r2 = apply_op(k1, ops[step - 1]), apply_op(k2, ops[step - 1])
                res["evaluations"] += 1
                if r1 != r2:
                    out_diff.add("op-result")
                    first = first or "step %d %r: parser 1 %s / parser 2 %s" % (step, ops[step - 1], r1, r2)
            o1, o2 = outputs(k1, td, "1"), outputs(k2, td, "2")
            for which in ("sdkconfig", "header", "json"):
                res["evaluations"] += 1
                a, b = (o1[which], o2[which]) if not ws_only else (_ws(o1[which]), _ws(o2[which]))
                if a != b:
                    out_diff.add(which)
                    if first is None:
                        la, lb = a.splitlines(), b.splitlines()
                        d = [(x, y) for x, y in zip(la + [None] * len(lb), lb + [None] * len(la)) if x != y][:3]
                        first = "after %d ops %r, %s: %s" % (step, ops[:step], which, "; ".join("parser 1 %r / parser 2 %r" % p for p in d))
        if out_diff:
            res["symptoms"].append("out:" + "+".join(sorted(out_diff)))
            res["detail"].append(first)
        return res
    finally:
        os.chdir(cwd)
        shutil.rmtree(td, ignore_errors=True)


# --- CORE END ---
