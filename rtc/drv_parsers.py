#!/usr/bin/env python
"""
rtc.drv_parsers -- bounded stand-in for property C04 ("both parsers accept the same language and build the
same configuration").

Contract checked (on the real ``Kconfig.__init__`` for ``parser_version`` 1 and 2, same files, same controlled
environment):

  * ACCEPTANCE   both constructions end the same way: both return, or both raise a ``KconfigError``.  Any other
                 exception (AttributeError, ValueError, RecursionError, ...) or no answer within LOAD_TIMEOUT
                 seconds of CPU time in either parser is a violation on its own ("reject" means: raise a Kconfig error).
  * TREE         if both return: the two menu trees are equal node by node (pre-order, with depth): entry kind,
                 name, type, is_menuconfig, prompt text, prompt condition, help text, and -- through
                 ``expr_str`` -- dep, visibility, defaults, ranges, selects, implies, sets, weak_sets; plus the
                 ``warning`` text.
  * OUTPUTS      if both return: ``write_config`` text, ``write_autoconf`` text and ``kconfgen.core.
                 get_json_values`` are equal in the initial configuration and after every step of a history of
                 user operations applied to both instances (``rtc.gen`` op language).
  * INVALID      deliberately invalid sources (each breaks one documented rule, or uses a literal form the docs do not
                 have) are OUTSIDE the quantifier of C04 ("every Kconfig source in the documented language"): the
                 same contracts are evaluated on them, but whatever happens is only listed under ``notes`` and never
                 reported as a violation.  The same holds for the inputs of test/kconfiglib/kconfigs/errors.

Scope (``build_cases``): gen.small_trees(3) (a superset of the small_trees(2) part of gen.corpus), the random trees of
gen.corpus(seed, count) drawn inside the workers (plus the draws the generator discarded because one parser rejected
them), every root Kconfig file under <repo>/test with the environment the test-suite sets, and the hand-written
fragments ``_FRAGS`` for constructs the generator lacks.  A violation class is ``<group>|<symptom>``: group = ``gen``,
``gen-discarded``, ``fixture:<path>`` or ``frag:<fragment id>``; symptom = ``accept:<v1>/<v2>``,
``exception:Kconfig.__init__[parser_version=N]:<Type>``, ``hang:Kconfig.__init__[parser_version=N]``,
``tree:<differing fields>``, ``tree~whitespace-runs`` (the trees differ only in runs of blanks/tabs inside strings; the
outputs are then compared modulo such runs) or ``out:<differing outputs>``.

The oracle is the other parser: nothing of the library is re-implemented here.

``python -m rtc.drv_parsers C04 [quick|thorough] [seed]`` prints the result as JSON.
"""

import os
import sys

REPO = os.environ.get("PYVC_REPO", "/repo")
while REPO in sys.path:
    sys.path.remove(REPO)
sys.path.insert(0, REPO)

import esp_kconfiglib.core as K  # noqa: E402  (must be imported BEFORE rtc.gen, which puts /repo first)
from kconfgen.core import get_json_values  # noqa: E402

import contextlib  # noqa: E402
import inspect  # noqa: E402
import json  # noqa: E402
import multiprocessing  # noqa: E402
import random  # noqa: E402
import re  # noqa: E402
import shutil  # noqa: E402
import signal  # noqa: E402
import tempfile  # noqa: E402
import time  # noqa: E402
import zlib  # noqa: E402

from rtc import gen  # noqa: E402

NAME = "drv_parsers"
PROPERTIES = ["C04"]

LOAD_TIMEOUT = 5  # CPU seconds per Kconfig() construction; normal constructions take 2..60 ms
ENV_NAMES = tuple(gen.ENV_VARS)

# ======================================================================================================
# CORE: everything between the two markers is copied verbatim into the replay script of a violation, so
# the script evaluates exactly the contract of the driver.  Only K, get_json_values, os, sys, signal,
# tempfile, shutil, re and the constants ENV_NAMES / LOAD_TIMEOUT may be used in here.
# ======================================================================================================
# --- CORE BEGIN ---


class _Hang(BaseException):
    pass


def _on_alarm(signum, frame):
    raise _Hang()


def _quiet():
    try:
        from esp_pylib.logger import Verbosity, log

        log.set_verbosity(Verbosity.SILENT)
    except Exception:
        pass


def _reset_report():
    inst = getattr(K.KconfigReport, "_instance", None)
    if inst is not None and getattr(inst, "_initialized", False):
        inst.reset()


class _Env:
    """none of the environment variables the library reads is set, except the given overrides"""

    def __init__(self, overrides):
        self.overrides = dict(overrides or {})

    def __enter__(self):
        self.saved = {}
        for name in list(ENV_NAMES) + sorted(self.overrides):
            self.saved[name] = os.environ.pop(name, None)
        os.environ.update(self.overrides)

    def __exit__(self, *exc):
        for name, val in self.saved.items():
            os.environ.pop(name, None)
            if val is not None:
                os.environ[name] = val


def _expr(e):
    if e is None:
        return None
    try:
        return K.expr_str(e)
    except Exception as exc:  # malformed expression object left behind by a parser
        return "<expr_str raised %s on %r>" % (type(exc).__name__, e)


def dump_tree(kconf):
    """list of (depth, dict) in pre-order: the complete observable menu tree"""
    out = []

    def rec(node, depth):
        while node:
            item = node.item
            if item is None:
                kind, name, typ = "if", None, None
            elif item == K.MENU:
                kind, name, typ = "menu", None, None
            elif item == K.COMMENT:
                kind, name, typ = "comment", None, None
            else:
                kind = "choice" if isinstance(item, K.Choice) else "config"
                name, typ = item.name, K.TYPE_TO_STR.get(item.orig_type, str(item.orig_type))
            vis = getattr(node, "visibility", None)
            out.append((depth, {
                "entry": (kind, name),
                "type": typ,
                "menuconfig": bool(node.is_menuconfig),
                "prompt": node.prompt[0] if node.prompt else None,
                "prompt_cond": _expr(node.prompt[1]) if node.prompt else None,
                "help": node.help,
                "dep": _expr(node.dep),
                "visibility": _expr(vis),
                "defaults": [(_expr(v), _expr(c)) for v, c in node.defaults],
                "ranges": [(_expr(a), _expr(b), _expr(c)) for a, b, c in node.ranges],
                "selects": [(_expr(v), _expr(c)) for v, c in node.selects],
                "implies": [(_expr(v), _expr(c)) for v, c in node.implies],
                "sets": [(_expr(a), _expr(b), _expr(c)) for a, b, c in getattr(node, "sets", [])],
                "weak_sets": [(_expr(a), _expr(b), _expr(c)) for a, b, c in getattr(node, "weak_sets", [])],
                "warning": getattr(node, "warning", None) or None,
            }))
            if node.list:
                rec(node.list, depth + 1)
            node = node.next

    rec(kconf.top_node, 0)
    return out


def diff_trees(t1, t2):
    """(sorted list of differing field names, short text) -- ([], '') if equal"""
    if [(d, n["entry"]) for d, n in t1] != [(d, n["entry"]) for d, n in t2]:
        return ["entries"], "entries/order/nesting differ:\n  parser 1: %r\n  parser 2: %r" % (
            [(d,) + n["entry"] for d, n in t1], [(d,) + n["entry"] for d, n in t2])
    fields, lines = set(), []
    for (d, a), (_, b) in zip(t1, t2):
        for key in a:
            if a[key] != b[key]:
                fields.add(key)
                if len(lines) < 6:
                    lines.append("%s %s: %s: parser 1 %r / parser 2 %r" % (a["entry"][0], a["entry"][1] or a["prompt"], key, a[key], b[key]))
    return sorted(fields), "\n".join(lines)


def outputs(kconf, tmpdir, tag):
    res = {}
    for which, fn in (("sdkconfig", kconf.write_config), ("header", kconf.write_autoconf)):
        path = os.path.join(tmpdir, "out.%s.%s" % (which, tag))
        try:
            if os.path.exists(path):
                os.unlink(path)
            fn(path)
            with open(path, encoding="utf-8") as f:
                res[which] = f.read()
        except Exception as exc:
            res[which] = "<%s raised %s: %s>" % (fn.__name__, type(exc).__name__, exc)
    try:
        res["json"] = repr(sorted(get_json_values(kconf).items()))
    except Exception as exc:
        res["json"] = "<get_json_values raised %s: %s>" % (type(exc).__name__, exc)
    return res


def apply_op(kconf, op):
    kind = op[0]
    try:
        if kind == "set":
            return repr(kconf.syms[op[1]].set_value(op[2]))
        if kind == "unset":
            return repr(kconf.syms[op[1]].unset_value())
        if kind == "reset":
            return repr(K._restore_default(kconf.syms[op[1]].nodes[0]))
        if kind == "pick":
            return repr(kconf.syms[op[1]].set_value(2))
        if kind == "choice_unset":
            _, idx, name = op[1].split(":", 2)
            ch = kconf.unique_choices[int(idx)]
            if (ch.name or "") != name:
                raise KeyError(op[1])
            return repr(ch.unset_value())
    except Exception as exc:
        return "<%s raised %s: %s>" % (kind, type(exc).__name__, exc)
    raise ValueError(op)


def load(path, version, env):
    """('ok', Kconfig) | ('reject', text) | ('crash(<Type>)', text) | ('hang', text)"""
    _reset_report()
    # the limit is CPU time of this process (ITIMER_PROF), not wall-clock time: a busy machine must not look like a hang
    old = signal.signal(signal.SIGPROF, _on_alarm)
    signal.setitimer(signal.ITIMER_PROF, LOAD_TIMEOUT)
    try:
        with _Env(env):
            kconf = K.Kconfig(path, parser_version=version)
        signal.setitimer(signal.ITIMER_PROF, 0)
        return "ok", kconf
    except K.KconfigError as exc:
        signal.setitimer(signal.ITIMER_PROF, 0)
        return "reject", "%s: %s" % (type(exc).__name__, exc)
    except _Hang:
        return "hang", "no answer within %d s of CPU time" % LOAD_TIMEOUT
    except Exception as exc:
        signal.setitimer(signal.ITIMER_PROF, 0)
        return "crash(%s)" % type(exc).__name__, "%s: %s" % (type(exc).__name__, exc)
    finally:
        signal.setitimer(signal.ITIMER_PROF, 0)
        signal.signal(signal.SIGPROF, old)


_WS_RUN = re.compile(r"[ \t]+")


def _ws(x):
    if isinstance(x, str):
        return _WS_RUN.sub(" ", x)
    if isinstance(x, (list, tuple)):
        return type(x)(_ws(y) for y in x)
    if isinstance(x, dict):
        return {k: _ws(v) for k, v in x.items()}
    return x


def check_case(files, env, expect, ops_fn, root="Kconfig", relroot=False, fixture=None):
    """
    Evaluate the C04 contract on one source.  files: {relative path: text} ('@ROOT@' in a text is replaced by the
    scratch directory); fixture: path of an existing root Kconfig file (then files is ignored); ops_fn(k1) ->
    history.  Returns a dict: statuses, errors, symptoms (list of violation symptom strings, empty = contract
    holds), detail, evaluations, nontrivial, ops, both_accept_invalid.
    """
    _quiet()
    res = {"symptoms": [], "detail": [], "evaluations": 1, "nontrivial": False, "ops": [], "both_accept_invalid": False}
    td = tempfile.mkdtemp(prefix="drvparsers")
    cwd = os.getcwd()
    try:
        if fixture is not None:
            path = fixture
        else:
            for rel, text in files.items():
                p = os.path.join(td, rel)
                os.makedirs(os.path.dirname(p), exist_ok=True)
                with open(p, "w", encoding="utf-8", newline="") as f:
                    f.write(text.replace("@ROOT@", td))
            path = os.path.join(td, root)
            if relroot:
                os.chdir(td)
                path = root
        env = {k: v.replace("@ROOT@", td) for k, v in (env or {}).items()}
        s1, k1 = load(path, 1, env)
        s2, k2 = load(path, 2, env)
        res["status"] = [s1, s2]
        res["errors"] = [None if s1 == "ok" else str(k1).replace(td, "@ROOT@")[:400], None if s2 == "ok" else str(k2).replace(td, "@ROOT@")[:400]]
        bad = [s for s in (s1, s2) if s not in ("ok", "reject")]
        if bad or s1 != s2:
            text = "parser 1: %s%s\nparser 2: %s%s" % (s1, "" if s1 == "ok" else " -- " + res["errors"][0], s2, "" if s2 == "ok" else " -- " + res["errors"][1])
            for version, s in ((1, s1), (2, s2)):
                if s.startswith("crash("):  # a Python exception inside the library that is not a Kconfig error
                    res["symptoms"].append("exception:Kconfig.__init__[parser_version=%d]:%s" % (version, s[6:-1]))
                    res["detail"].append(text)
                elif s == "hang":
                    res["symptoms"].append("hang:Kconfig.__init__[parser_version=%d]" % version)
                    res["detail"].append(text)
            if not bad:
                res["symptoms"].append("accept:%s/%s" % (s1, s2))
                res["detail"].append(text)
        if expect == "invalid" and (s1 != "ok" or s2 != "ok"):
            res["nontrivial"] = True
        if s1 != "ok" or s2 != "ok":
            return res
        res["both_accept_invalid"] = expect == "invalid"
        res["nontrivial"] = res["nontrivial"] or len(k1.unique_defined_syms) > 0
        t1, t2 = dump_tree(k1), dump_tree(k2)
        res["evaluations"] += 1
        fields, text = diff_trees(t1, t2)
        ws_only = False
        if fields:
            ws_only = not diff_trees([(d, _ws(n)) for d, n in t1], [(d, _ws(n)) for d, n in t2])[0]
            res["symptoms"].append("tree~whitespace-runs" if ws_only else "tree:" + "+".join(fields))
            res["detail"].append(text.replace(td, "@ROOT@"))
        ops = list(ops_fn(k1)) if ops_fn else []
        res["ops"] = ops
        out_diff, first = set(), None
        for step in range(len(ops) + 1):
            if step:
                r1, r2 = apply_op(k1, ops[step - 1]), apply_op(k2, ops[step - 1])
                res["evaluations"] += 1
                if r1 != r2:
                    out_diff.add("op-result")
                    first = first or "step %d %r: parser 1 %s / parser 2 %s" % (step, ops[step - 1], r1, r2)
            o1, o2 = outputs(k1, td, "1"), outputs(k2, td, "2")
            for which in ("sdkconfig", "header", "json"):
                res["evaluations"] += 1
                a, b = (o1[which], o2[which]) if not ws_only else (_ws(o1[which]), _ws(o2[which]))
                if a != b:
                    out_diff.add(which)
                    if first is None:
                        la, lb = a.splitlines(), b.splitlines()
                        d = [(x, y) for x, y in zip(la + [None] * len(lb), lb + [None] * len(la)) if x != y][:3]
                        first = "after %d ops %r, %s: %s" % (step, ops[:step], which, "; ".join("parser 1 %r / parser 2 %r" % p for p in d))
        if out_diff:
            res["symptoms"].append("out:" + "+".join(sorted(out_diff)))
            res["detail"].append(first)
        return res
    finally:
        os.chdir(cwd)
        shutil.rmtree(td, ignore_errors=True)


# --- CORE END ---


# ======================================================================================================
# SCOPE: generator corpus, repository fixtures, hand-written fragments, deliberately invalid sources
# ======================================================================================================

def fixture_env(rel):
    """the environment the test-suite sets before it loads the fixture <repo>/<rel> (nothing else is set)"""
    rel = rel.replace(os.sep, "/")
    if rel.startswith("test/kconfiglib/kconfigs/ok/"):  # test_kconfiglib.py, TestOKCases.set_env_vars
        return {"TEST_FILE_PREFIX": "@REPO@/test/kconfiglib/kconfigs/ok/kconfigs_for_sourcing", "TEST_ENV_SET": "y",
                "MAX_NUMBER_OF_MOTORS": "4"}
    if rel == "test/kconfiglib/kconfigs/Kconfig.dollar_expansion":  # test_kconfiglib_loading.py, TestDollarExpansion
        return {"DOLLAR_TEST_VAR": "hello"}
    if rel.startswith("test/gen_kconfig_doc/"):  # test_kconfig_out.py / test_target_visibility.py
        return {"IDF_TARGET": "chipa"}
    return {}


_P = 'mainmenu "T"\n\n'
# common prelude of the hand-written fragments (names are never valid hexadecimal numbers)
_BASE = _P + '''config OPT_A
    bool "opt a"
    default y

config OPT_B
    bool "opt b"

config OPT_C
    bool "opt c"
    default y

config NUM_N
    int "num n"
    default 5

config NUM_M
    int "num m"
    default 7

config STR_S
    string "str s"
    default "text"

config HEX_H
    hex "hex h"
    default 0x10

config FLT_F
    float "flt f"
    default 1.5

'''

_FRAGS = []


def _F(fid, body, files=None, env=None, base=True, relroot=False, expect="valid"):
    _FRAGS.append({"id": fid, "text": (_BASE if base else "") + body, "files": dict(files or {}), "env": dict(env or {}),
                   "relroot": relroot, "expect": expect})


def _tgt(kind="bool"):
    return 'config TGT\n    %s "tgt"\n' % kind


# ---- reverse dependencies with conditions ------------------------------------------------------------
_F("imply-if", 'config SRC\n    bool "src"\n    default y\n    imply TGT if OPT_A\n\n' + _tgt())
_F("imply-if-compound", 'config SRC\n    bool "src"\n    default y\n    imply TGT if OPT_A && !OPT_B || NUM_N > 3\n\n' + _tgt())
_F("imply-plain-and-depends", 'config SRC\n    bool "src"\n    default y\n    imply TGT\n\nconfig TGT\n    bool "tgt"\n    depends on !OPT_A\n')
_F("select-if", 'config SRC\n    bool "src"\n    default y\n    select TGT if OPT_A\n\n' + _tgt())
_F("select-if-compound", 'config SRC\n    bool "src"\n    default y\n    select TGT if (OPT_A || OPT_B) && NUM_N <= 5\n\n' + _tgt())
_F("select-imply-twice", 'config SRC\n    bool "src"\n    default y\n    select TGT if OPT_A\n    select TGT2\n    imply TGT3\n    imply TGT if !OPT_B\n\n'
   + _tgt() + '\nconfig TGT2\n    bool\n\nconfig TGT3\n    bool "tgt3"\n    depends on OPT_B\n')
# ---- relations -----------------------------------------------------------------------------------------
_F("rel-all-operators", 'config REL\n    int "rel"\n    default 1 if NUM_N = 5\n    default 2 if NUM_N != NUM_M\n    default 3 if NUM_N < 7\n'
   '    default 4 if NUM_N > NUM_M\n    default 5 if NUM_N <= 5\n    default 6 if NUM_M >= 8\n    default 7\n')
_F("rel-no-spaces", 'config REL\n    bool "rel"\n    default y if NUM_N=5&&NUM_M!=NUM_N||STR_S="text"\n    depends on NUM_N<=NUM_M\n')
_F("rel-string-hex-float", 'config REL\n    bool "rel"\n    default y if STR_S = "text" && HEX_H >= 0x10 && FLT_F < 2.5\n    default n if STR_S != "a b" || HEX_H = 0xAB\n')
_F("rel-bool-const", 'config REL\n    bool "rel"\n    depends on OPT_A = y && OPT_B != y\n    default y if OPT_B = n\n')
_F("not-symbol", 'config REL\n    bool "rel"\n    depends on !OPT_B\n    default !OPT_A\n')
_F("not-not", 'config REL\n    bool "rel"\n    depends on !!OPT_A\n')
_F("not-paren-relation", 'config REL\n    bool "rel"\n    depends on !(NUM_N = 5)\n    default y if !(OPT_A && OPT_B)\n')
_F("not-relation-eq", 'config REL\n    bool "rel"\n    depends on !OPT_A = OPT_B\n')
_F("not-relation-lt", 'config REL\n    bool "rel"\n    default y if !NUM_N < NUM_M\n')
_F("not-relation-in-and", 'config REL\n    bool "rel"\n    default y if OPT_C && !NUM_N != 5 || OPT_B\n')
_F("relation-chain", 'config REL\n    bool "rel"\n    depends on OPT_A = OPT_B = OPT_C\n')
_F("relation-paren-operand", 'config REL\n    bool "rel"\n    depends on (OPT_A) = OPT_B\n')
_F("relation-not-operand-right", 'config REL\n    bool "rel"\n    depends on OPT_A = !OPT_B\n')
# ---- chains, precedence, parentheses ------------------------------------------------------------------
_F("chain-and", 'config REL\n    bool "rel"\n    depends on OPT_A && OPT_B && OPT_C && NUM_N > 1\n')
_F("chain-or", 'config REL\n    bool "rel"\n    default y if OPT_A || OPT_B || OPT_C || NUM_N > 1\n')
_F("chain-mixed-precedence", 'config REL\n    bool "rel"\n    default y if OPT_A || OPT_B && OPT_C\n    default n if OPT_A && OPT_B || OPT_C && !OPT_A || OPT_B\n')
_F("chain-parens", 'config REL\n    bool "rel"\n    depends on (OPT_A || OPT_B) && (OPT_C) || (OPT_A && (OPT_B || !OPT_C))\n    default y if ((OPT_A))\n')
_F("depends-on-multiple-lines", 'config REL\n    bool "rel"\n    depends on OPT_A\n    depends on OPT_B || OPT_C\n    depends on NUM_N != 0\n')
_F("default-expression-value", 'config REL\n    bool "rel"\n    default OPT_A && !OPT_B if OPT_C\n    default OPT_A || OPT_B\n')
_F("undefined-symbol-operand", 'config REL\n    bool "rel"\n    depends on NOT_DEFINED || OPT_A\n    default y if ALSO_UNDEFINED = 3\n')
# ---- source family --------------------------------------------------------------------------------------
_INC = 'config INC_%s\n    bool "inc %s"\n    default y\n'
_F("source-abs-env-macro", 'source "$(INC_DIR)/Kconfig.inc"\nosource "$(INC_DIR)/Kconfig.missing"\nosource "$(INC_DIR)/Kconfig.opt"\n',
   files={"inc/Kconfig.inc": _INC % ("ONE", "one"), "inc/Kconfig.opt": _INC % ("OPT", "opt")}, env={"INC_DIR": "@ROOT@/inc"})
_F("source-abs-env-dollar", 'source "$INC_DIR/Kconfig.inc"\nsource "${INC_DIR}/Kconfig.two"\n',
   files={"inc/Kconfig.inc": _INC % ("ONE", "one"), "inc/Kconfig.two": _INC % ("TWO", "two")}, env={"INC_DIR": "@ROOT@/inc"})
_F("rsource-same-dir", 'rsource "Kconfig.inc"\norsource "Kconfig.missing"\norsource "./Kconfig.opt"\n',
   files={"Kconfig.inc": _INC % ("ONE", "one"), "Kconfig.opt": _INC % ("OPT", "opt")})
_F("rsource-nested-dirs", 'menu "drivers"\n    depends on OPT_A\n    rsource "drivers/Kconfig.drivers"\nendmenu\n\nconfig LAST\n    bool "last"\n    default y if SPI_SPEED >= 10\n',
   files={"drivers/Kconfig.drivers": 'config DRV_COMMON\n    bool\n    default y\n\nrsource "Kconfig.bus"\nrsource "spi/Kconfig.spi"\n',
          "drivers/Kconfig.bus": 'config BUS_DMA\n    bool "dma"\n    default y\n',
          "drivers/spi/Kconfig.spi": 'menu "SPI"\n    config SPI_SPEED\n        int "speed"\n        range 1 80\n        default 40 if BUS_DMA\n        default 10\nendmenu\n\nrsource "Kconfig.spi_extra"\n',
          "drivers/spi/Kconfig.spi_extra": 'config SPI_QUAD\n    bool "quad"\n    depends on SPI_SPEED > 20\n    default y\n'})
_F("orsource-nested-dirs", 'source "$SUB/Kconfig.sub"\n',
   files={"sub/Kconfig.sub": 'orsource "Kconfig.next"\n\nif OPT_A\norsource "deep/Kconfig.deep"\norsource "deep/Kconfig.nothing"\nendif\n',
          "sub/Kconfig.next": _INC % ("NEXT", "next"), "sub/deep/Kconfig.deep": _INC % ("DEEP", "deep")}, env={"SUB": "@ROOT@/sub"})
_F("rsource-relative-root", 'rsource "inc/Kconfig.inc"\n', files={"inc/Kconfig.inc": _INC % ("ONE", "one") + '\nrsource "Kconfig.two"\n',
                                                              "inc/Kconfig.two": _INC % ("TWO", "two")}, relroot=True)
_F("source-glob", 'rsource "parts/Kconfig.*"\n', files={"parts/Kconfig.b": _INC % ("PB", "pb"), "parts/Kconfig.a": _INC % ("PA", "pa"),
                                                       "parts/Kconfig.c": _INC % ("PC", "pc")})
_F("source-inside-menu-if-choice", 'menu "m"\n    rsource "Kconfig.inc"\nendmenu\n\nif OPT_A\n    rsource "Kconfig.two"\nendif\n\nchoice CH\n    prompt "ch"\n    rsource "Kconfig.members"\nendchoice\n',
   files={"Kconfig.inc": _INC % ("ONE", "one"), "Kconfig.two": _INC % ("TWO", "two"),
          "Kconfig.members": 'config MEM_X\n    bool "x"\n\nconfig MEM_Y\n    bool "y"\n'})
_F("source-empty-file", 'rsource "Kconfig.empty"\nrsource "Kconfig.onlycomment"\n\nconfig AFTER\n    bool "after"\n',
   files={"Kconfig.empty": "", "Kconfig.onlycomment": "# nothing here\n\n"})
_F("source-missing-rejected", 'rsource "Kconfig.not_there"\n')
_F("source-recursive-rejected", 'rsource "Kconfig.loop"\n', files={"Kconfig.loop": 'config LOOPED\n    bool "l"\n\nrsource "Kconfig.loop"\n'})
# ---- comments, menus, menuconfig, visible if ---------------------------------------------------------
_F("comment-depends", 'comment "note one"\n    depends on OPT_A\n\ncomment "note two"\n    depends on OPT_B\n    depends on NUM_N > 3\n\ncomment "plain"\n\nconfig AFTER\n    bool "after"\n')
_F("comment-last-in-file", 'comment "the end"\n    depends on OPT_A && !OPT_B\n')
_F("comment-in-menu-and-if", 'menu "m"\n    comment "inside"\n        depends on OPT_C\n    config IN_M\n        bool "in m"\nendmenu\n\nif OPT_A\ncomment "in if"\nendif\n')
_F("menuconfig-children", 'menuconfig MC\n    bool "mc"\n    default y\n\nconfig MC_ONE\n    int "one"\n    depends on MC\n    default 3\n\nif MC\n\nconfig MC_TWO\n    hex "two"\n    default 0xFF\n\nendif\n\nconfig NOT_CHILD\n    bool "nc"\n')
_F("menuconfig-nonbool", 'menuconfig MC\n    int "mc"\n    range 0 10\n    default 4\n    help\n        Numeric menuconfig.\n\nconfig MC_ONE\n    bool "one"\n    depends on MC > 2\n')
_F("menu-visible-if", 'menu "crew"\n    visible if OPT_A && NUM_N > 2\n\n    config CREW\n        int "crew"\n        default 430\n\nendmenu\n')
_F("menu-depends-and-visible", 'menu "outer"\n    depends on OPT_A\n    visible if OPT_B\n\n    menu "inner"\n        visible if !OPT_C\n        depends on NUM_N = 5\n\n        config DEEP\n            string "deep"\n            default "x"\n\n    endmenu\n\n    config SHALLOW\n        bool "shallow"\n\nendmenu\n')
_F("menu-empty", 'menu "empty"\nendmenu\n\nmenu "empty with dep"\n    depends on OPT_A\nendmenu\n\nconfig AFTER\n    bool "after"\n')
_F("menu-nested-three", 'menu "l1"\nmenu "l2"\nmenu "l3"\nconfig DEEP\n    bool "deep"\nendmenu\nconfig MID\n    bool "mid"\nendmenu\nendmenu\n')
_F("if-nested", 'if OPT_A\n\nconfig IN_ONE\n    bool "one"\n\nif !OPT_B && NUM_N > 1\n\nconfig IN_TWO\n    int "two"\n    default 2\n\nif OPT_C\nconfig IN_THREE\n    string "three"\nendif\n\nendif\n\nendif\n')
_F("if-empty", 'if OPT_A\nendif\n\nconfig AFTER\n    bool "after"\n')
_F("indented-entries", 'menu "m"\n        config DEEPLY\n                bool "deeply indented"\n                default y\n    config LESS\n      int "two spaces"\n      default 1\nendmenu\n')
_F("tab-indentation", 'config TABBED\n\tbool "tabbed"\n\tdefault y if OPT_A\n\thelp\n\t\tHelp with tabs.\n\t\tSecond line.\n\nconfig AFTER\n\tint "after"\n\tdefault 3\n')
# ---- help texts -------------------------------------------------------------------------------------------
_F("help-blank-line", 'config HLP\n    bool "hlp"\n    help\n        First paragraph.\n\n        Second paragraph.\n\nconfig AFTER\n    bool "after"\n')
_F("help-two-blank-lines", 'config HLP\n    int "hlp" if OPT_A\n    range 0 9\n    default 3\n    help\n        First paragraph.\n\n\n        Second paragraph.\n        It has two lines.\n\nconfig AFTER\n    bool "after"\n    default y if HLP > 2\n')
_F("help-three-blank-lines-then-option", 'menu "tuning"\n    depends on OPT_A\n\n    config HLP\n        int "hlp"\n        help\n            Synopsis.\n\n\n\n            Details after three blank lines.\n              - indented item\n        default 7 if OPT_A\n        default 1\n\nendmenu\n\nconfig AFTER\n    bool "after"\n')
_F("help-over-indented-lines", 'config HLP\n    bool "hlp"\n    help\n        Normal.\n            Deeper.\n                * bullet\n          odd\n        Back.\n\nconfig AFTER\n    bool "after"\n')
_F("help-first-line-deeper", 'config HLP\n    bool "hlp"\n    help\n            Starts deep.\n            Same level.\n\nconfig AFTER\n    bool "after"\n')
_F("help-whitespace-only-lines", 'config HLP\n    bool "hlp"\n    help\n        One.\n        \n   \n        Two.\n\nconfig AFTER\n    bool "after"\n')
_F("help-at-end-of-file", 'config HLP\n    bool "hlp"\n    help\n        Last thing in the file.\n\n        Really.\n')
_F("help-at-end-no-newline", 'config HLP\n    bool "hlp"\n    help\n        No newline at the end.')
_F("help-keywords-inside", 'config HLP\n    bool "hlp"\n    help\n        config NOT_A_CONFIG\n        default y if this is help\n        endmenu\n        "quoted" $(NOT_EXPANDED) ${NOR_THIS}\n        help\n\nconfig AFTER\n    bool "after"\n')
_F("help-hash-inside", 'config HLP\n    bool "hlp"\n    help\n        Use #define FOO to enable.\n        # a line that starts with a hash\n\nconfig AFTER\n    bool "after"\n')
_F("help-backslash-at-line-end", 'config HLP\n    bool "hlp"\n    help\n        A path ends here: C:\\dir\\\n        next line.\n\nconfig AFTER\n    bool "after"\n')
_F("help-then-options", 'config HLP\n    int "hlp"\n    help\n        Text.\n    default 4\n    range 0 5\n    depends on OPT_A\n')
_F("help-on-choice-and-menuconfig", 'choice CH\n    prompt "ch"\n    help\n        Choice help.\n\n        More.\n\n    config CH_X\n        bool "x"\n        help\n            Member help.\n\n    config CH_Y\n        bool "y"\n\nendchoice\n\nmenuconfig MC\n    bool "mc"\n    help\n        MC help.\n')
_F("help-trailing-spaces", 'config HLP\n    bool "hlp"\n    help\n        Trailing spaces   \n        second line.\n\nconfig AFTER\n    bool "after"\n')
_F("help-tabs", 'config HLP\n    bool "hlp"\n    help\n        a\ttab inside\n\tTab indented line.\n\nconfig AFTER\n    bool "after"\n')
# ---- line continuation, #-comments --------------------------------------------------------------------
_F("line-continuation", 'config CONT\n    bool "cont"\n    default y if OPT_A && \\\n        OPT_B || \\\n        OPT_C\n    depends on NUM_N > 1 \\\n        && NUM_M > 1\n\nconfig AFTER\n    bool "after"\n')
_F("line-continuation-in-prompt-line", 'config CONT\n    bool "cont" \\\n        if OPT_A\n    select \\\n        TGT\n\n' + _tgt())
_F("hash-comments", '# full line\nconfig HC # trailing on entry\n    bool "hc" # trailing on type\n    default y if OPT_A # trailing on default\n    # between options\n    depends on OPT_C # trailing\n\n    # indented comment after options\nconfig AFTER\n    string "after # not a comment"\n    default "a # b" # real comment\n')
_F("hash-comment-before-mainmenu", '# leading comment\n\n# another\nmainmenu "T"\n\nconfig ONLY\n    bool "only"\n', base=False)
_F("mainmenu-only", 'mainmenu "just a title"\n', base=False)
_F("mainmenu-indented-entries", 'mainmenu "T"\n\n    config IND_ONE\n        bool "one"\n        default y\n\n    menu "m"\n        config IND_TWO\n            int "two"\n            default 2\n    endmenu\n', base=False)
# ---- strings ----------------------------------------------------------------------------------------------
_F("string-escapes", 'config ESC\n    string "esc"\n    default "say \\"hi\\""\n\nconfig ESC2\n    string "esc2"\n    default "C:\\\\tmp\\\\x"\n\nconfig ESC3\n    string "esc3"\n    default "tail\\\\"\n\nconfig CMP\n    bool "cmp"\n    default y if ESC = "say \\"hi\\"" && ESC2 != "C:\\\\tmp"\n')
_F("string-single-quotes", "config SQ\n    string 'single quoted prompt'\n    default 'single \"inner\" value'\n\nconfig SQ2\n    string \"double 'inner' prompt\"\n    default \"it's\"\n")
_F("string-empty-and-spaces", 'config EMP\n    string "emp"\n    default ""\n\nconfig SPC\n    string "spc"\n    default " lead and trail "\n\nconfig CMP\n    bool "cmp"\n    default y if EMP = "" && SPC != " "\n')
_F("string-double-space-value", 'config DS\n    string "ds"\n    default "a  b"\n')
_F("string-tab-in-value", 'config TB\n    string "tb"\n    default "a\tb"\n')
_F("string-keyword-if-inside", 'config KW\n    string "kw"\n    default "x if y"\n')
_F("string-keyword-if-inside-cond", 'config KW\n    bool "kw"\n    default y if STR_S = "x if y"\n')
_F("string-hash-after-escaped-quote", 'config HQ\n    string "hq"\n    default "a\\"#b"\n')
_F("string-operators-inside", 'config OPS\n    string "ops"\n    default "a && b || !c = (d)"\n\nconfig CMP\n    bool "cmp"\n    default y if OPS = "a && b || !c = (d)"\n')
_F("string-nonascii", 'config UNI\n    string "čaj ☕"\n    default "日本 ž"\n    help\n        Ünïcode help ☕.\n')
_F("prompt-double-space", 'config PDS\n    bool "two  spaces   inside"\n')
_F("prompt-quotes-inside", 'config PQ\n    bool "say \\"hi\\" now"\n\nconfig PQ2\n    bool "it\'s"\n')
_F("prompt-leading-trailing-space", 'config PLT\n    bool " padded "\n\ncomment " padded comment "\n\nmenu " padded menu "\nendmenu\n')
_F("prompt-keyword-words", 'config PKW\n    bool "if default depends on help"\n\nconfig PKW2\n    int\n    prompt "prompt select if" if OPT_A\n')
_F("prompt-if", 'config PIF\n    int "pif" if OPT_A && NUM_N > 1\n    default 3\n\nconfig PIF2\n    string\n    prompt "pif2" if !OPT_B\n    default "v"\n')
_F("prompt-if-inside-if-and-menu", 'menu "m"\n    depends on OPT_C\n    if OPT_A\n    config PIF\n        bool "pif" if OPT_B\n        depends on NUM_N > 0\n    endif\nendmenu\n')
_F("prompt-hash-inside", 'config PH\n    bool "a # b"\n\ncomment "c # d"\n\nmenu "e # f"\nendmenu\n')
_F("menu-title-double-space", 'menu "two  spaces"\n    config IN_M\n        bool "in m"\nendmenu\n\ncomment "two  spaces"\n')
_F("menu-title-escaped-quotes", 'menu "the \\"big\\" menu"\n    config IN_M\n        bool "in m"\nendmenu\n')
_F("comment-title-escaped-quotes", 'comment "a \\"quoted\\" note"\n    depends on OPT_A\n')
_F("mainmenu-title-escaped-quotes", 'mainmenu "the \\"T\\" menu"\n\nconfig ONLY\n    bool "only"\n', base=False)
_F("prompt-macro-reference", 'MOTORS := 8\n\nconfig PMR\n    bool "uses $(MOTORS) motors"\n\nmenu "menu for $(MOTORS)"\nendmenu\n\ncomment "comment for $(MOTORS)"\n')
_F("prompt-env-reference", 'config PER\n    bool "home is $ENV_ONE"\n\nconfig PER2\n    bool "braces ${ENV_ONE} and $(ENV_ONE)"\n', env={"ENV_ONE": "one"})
_F("warning-option", 'config WRN\n    bool "wrn"\n    warning "Be careful: this is dangerous!"\n    help\n        Dangerous.\n\nmenuconfig WRN2\n    int "wrn2"\n    default 1\n    warning "second one"\n')
_F("warning-double-space-and-quotes", 'config WRN\n    bool "wrn"\n    warning "two  spaces and \\"quotes\\""\n')
# ---- option env= / environment / macros --------------------------------------------------------------
_F("option-env-set", 'config FROM_ENV\n    string "from env"\n    option env="ENV_ONE"\n\nconfig USES\n    bool "uses"\n    default y if FROM_ENV = "value one"\n', env={"ENV_ONE": "value one"})
_F("option-env-unset", 'config FROM_ENV\n    string "from env"\n    option env="ENV_NOT_SET_ANYWHERE"\n    default "fallback"\n')
_F("option-env-same-name", 'config ENV_SAME\n    string\n    option env="ENV_SAME"\n', env={"ENV_SAME": "same"})
_F("env-quoted-braces", 'config EQ\n    string "eq"\n    default "${ENV_ONE}"\n\nconfig EQ_UNSET\n    string "equ"\n    default "${ENV_NOT_SET_ANYWHERE}"\n', env={"ENV_ONE": "value one"})
_F("env-quoted-embedded", 'config EE\n    string "ee"\n    default "/p/${ENV_ONE}/x"\n\nconfig EE2\n    string "ee2"\n    default "$(ENV_ONE)/x"\n\nconfig EE3\n    string "ee3"\n    default "pre-$ENV_ONE"\n', env={"ENV_ONE": "one"})
_F("env-in-condition", 'config EC\n    bool "ec"\n    default y if "$(ENV_ONE)" = "one"\n    depends on "${ENV_ONE}" != "two"\n', env={"ENV_ONE": "one"})
_F("macro-define-and-use", 'MAX_MOTORS := 8\nMIN_MOTORS = 1\nNAME_STR := "enterprise"\n\nconfig MOTORS\n    int "motors"\n    range $(MIN_MOTORS) $(MAX_MOTORS)\n    default $(MAX_MOTORS)\n\nconfig MOTORS_STR\n    string "motors str"\n    default "$(MAX_MOTORS)"\n\nconfig SHIP\n    string "ship"\n    default $(NAME_STR)\n\nconfig CMP\n    bool "cmp"\n    default y if MOTORS > $(MIN_MOTORS)\n')
_F("macro-hex-float-bool", 'MASK := 0xFF\nRATIO = 2.5\nFLAG := y\n\nconfig MSK\n    hex "msk"\n    default $(MASK)\n\nconfig RAT\n    float "rat"\n    default $(RATIO)\n\nconfig FLG\n    bool "flg"\n    default $(FLAG)\n')
_F("macro-from-env", 'config ME\n    int "me"\n    default $(ENV_NUM)\n\nconfig ME_STR\n    string "me str"\n    default "$(ENV_NUM)"\n', env={"ENV_NUM": "42"})
_F("macro-redefined", 'LEVEL := 1\nLEVEL := 2\n\nconfig LVL\n    int "lvl"\n    default $(LEVEL)\n')
_F("macro-in-sourced-file", 'LIMIT := 9\n\nrsource "Kconfig.inc"\n\nconfig USES_INNER\n    int "ui"\n    default $(INNER)\n', files={"Kconfig.inc": 'INNER = 3\n\nconfig LIM\n    int "lim"\n    range 0 $(LIMIT)\n    default $(INNER)\n'})
_F("macro-undefined-quoted", 'config UQ\n    string "uq"\n    default "$(NOT_DEFINED_MACRO)"\n')
_F("macro-undefined-unquoted-rejected", 'config UU\n    int "uu"\n    default $(NOT_DEFINED_MACRO)\n')
_F("macro-used-before-definition-quoted", 'config EARLY\n    string "early"\n    default "$(LATER)"\n\nLATER := "v"\n\nconfig LATE\n    string "late"\n    default "$(LATER)"\n')
# ---- choices -------------------------------------------------------------------------------------------------
_F("choice-named-default-if", 'choice CH\n    prompt "ch" if OPT_A\n    default CH_Y if OPT_B\n    default CH_X\n    depends on OPT_C\n\n    config CH_X\n        bool "x"\n\n    config CH_Y\n        bool "y"\n        depends on NUM_N > 1\n\n    config CH_Z\n        bool "z" if OPT_B\n\nendchoice\n')
_F("choice-unnamed-twice", 'choice\n    prompt "first"\n\n    config F_X\n        bool "x"\n\n    config F_Y\n        bool "y"\n\nendchoice\n\nchoice\n    prompt "second"\n    default S_Y\n\n    config S_X\n        bool "x"\n\n    config S_Y\n        bool "y"\n\nendchoice\n')
_F("choice-typed-inline-prompt", 'choice CH\n    bool "typed choice" if OPT_A\n    default CH_Y\n\n    config CH_X\n        bool "x"\n\n    config CH_Y\n        bool "y"\n\nendchoice\n')
_F("choice-nested", 'choice OUTER\n    prompt "outer"\n\n    config O_X\n        bool "x"\n\n    choice INNER\n        prompt "inner"\n        default I_B\n\n        config I_A\n            bool "a"\n\n        config I_B\n            bool "b"\n\n    endchoice\n\n    config O_Y\n        bool "y"\n\nendchoice\n')
_F("choice-if-inside", 'choice CH\n    prompt "ch"\n\n    config CH_X\n        bool "x"\n\n    if OPT_A\n\n    config CH_Y\n        bool "y"\n\n    if !OPT_B\n    config CH_Z\n        bool "z"\n    endif\n\n    endif\n\nendchoice\n')
_F("choice-menu-and-comment-inside", 'choice CH\n    prompt "ch"\n\n    config CH_X\n        bool "x"\n\n    comment "inside choice"\n        depends on OPT_A\n\n    menu "inside"\n        visible if CH_X\n\n        config IN_MENU\n            int "in menu"\n            default 8\n\n    endmenu\n\n    config CH_Y\n        bool "y"\n\nendchoice\n')
_F("choice-member-selects-and-sets", 'choice CH\n    prompt "ch"\n    default CH_Y\n\n    config CH_X\n        bool "x"\n        select TGT\n        set NUM_T=1\n\n    config CH_Y\n        bool "y"\n        imply TGT if OPT_A\n        set default NUM_T=2 if OPT_A\n\nendchoice\n\n' + _tgt() + '\nconfig NUM_T\n    int "num t"\n    default 0\n')
_F("choice-defined-twice", 'choice CH\n    prompt "ch"\n\n    config CH_X\n        bool "x"\n\nendchoice\n\nchoice CH\n    prompt "ch again"\n\n    config CH_Y\n        bool "y"\n\nendchoice\n')
_F("choice-in-if-and-menu", 'menu "m"\n    visible if OPT_A\n    if OPT_C\n    choice CH\n        prompt "ch"\n        config CH_X\n            bool "x"\n        config CH_Y\n            bool "y"\n    endchoice\n    endif\nendmenu\n')
_F("choice-no-blank-lines", 'choice CH\n    prompt "ch"\n    config CH_X\n        bool "x"\n    config CH_Y\n        bool "y"\nendchoice\nconfig AFTER\n    bool "after"\n')
# ---- multiple definitions --------------------------------------------------------------------------------
_F("multi-def-same-file", 'config DUP\n    int "dup"\n    default 1\n    range 0 5\n\nmenu "again"\n    depends on OPT_A\n\n    config DUP\n        int "dup second" if OPT_B\n        default 3 if OPT_A\n        range 2 9 if OPT_B\n\nendmenu\n')
_F("multi-def-pragma", 'config DUP # ignore: multiple-definition\n    bool "dup"\n    default y\n\nconfig DUP\n    bool\n    default n if OPT_B\n    help\n        Second definition.\n')
_F("multi-def-across-files", 'config DUP\n    string "dup"\n    default "root"\n\nrsource "Kconfig.inc"\n', files={"Kconfig.inc": 'config DUP\n    string\n    default "inc" if OPT_B\n\nconfig DUP\n    string "third"\n'})
_F("multi-def-three-with-select", 'config DUP\n    bool "dup"\n    select TGT\n\nconfig DUP\n    bool\n    imply TGT2\n\nconfig DUP\n    bool\n    depends on OPT_A\n    default y\n\n' + _tgt() + '\nconfig TGT2\n    bool "tgt2"\n')
# ---- set / set default ------------------------------------------------------------------------------------
_F("set-if", 'config SRC\n    bool "src"\n    default y\n    set NUM_T=6 if OPT_A\n    set STR_T="forced" if !OPT_B && NUM_N > 1\n\nconfig NUM_T\n    int "num t"\n    default 1\n\nconfig STR_T\n    string "str t"\n    default "free"\n')
_F("set-default-if", 'config SRC\n    bool "src"\n    default y\n    set default NUM_T=6 if OPT_A\n    set default HEX_T=0xAB if OPT_A || OPT_B\n    set default FLT_T=2.5\n\nconfig NUM_T\n    int "num t"\n    depends on OPT_C\n\nconfig HEX_T\n    hex "hex t"\n    default 0x1\n\nconfig FLT_T\n    float "flt t"\n')
_F("set-spaces-around-equals", 'config SRC\n    bool "src"\n    default y\n    set NUM_T = 6\n    set default STR_T = "weak" if OPT_A\n\nconfig NUM_T\n    int "num t"\n    default 1\n\nconfig STR_T\n    string "str t"\n')
_F("set-symbol-value", 'config SRC\n    bool "src"\n    default y\n    set NUM_T=NUM_N if OPT_A\n    set default STR_T=STR_S\n\nconfig NUM_T\n    int "num t"\n    default 1\n\nconfig STR_T\n    string "str t"\n')
_F("set-string-with-spaces-and-if-word", 'config SRC\n    bool "src"\n    default y\n    set STR_T="two words" if OPT_A\n\nconfig STR_T\n    string "str t"\n')
_F("set-negative-and-range", 'config SRC\n    bool "src"\n    default y\n    set NUM_T=-3\n    set default NUM_U=100\n\nconfig NUM_T\n    int "num t"\n    default 1\n\nconfig NUM_U\n    int "num u"\n    range 0 10\n')
_F("set-on-menuconfig-and-multi-source", 'menuconfig SRC\n    bool "src"\n    default y\n    set NUM_T=1\n\nconfig SRC2\n    bool "src2"\n    default y\n    set NUM_T=2 if OPT_A\n    set default NUM_T=3\n\nconfig NUM_T\n    int "num t"\n    depends on SRC\n')
_F("set-on-nonbool-ignored", 'config SRC\n    int "src"\n    default 1\n    set NUM_T=6\n    set default NUM_T=7\n\nconfig NUM_T\n    int "num t"\n    default 1\n')
# ---- ranges, literals ----------------------------------------------------------------------------------------
_F("range-symbols", 'config RNG\n    int "rng"\n    range NUM_N NUM_M\n    default 100\n\nconfig RNG2\n    int "rng2"\n    range 0 NUM_N if OPT_A\n    range NUM_M 50\n    default 60\n')
_F("range-hex-float", 'config RH\n    hex "rh"\n    range 0x10 0xFF\n    default 0x100\n\nconfig RF\n    float "rf"\n    range -1.5 2.5 if OPT_A\n    default 3.0\n\nconfig RF2\n    float "rf2"\n    range 0 FLT_F\n    default 9.9\n')
_F("range-negative", 'config RN\n    int "rn"\n    range -10 -1\n    default 0\n')
_F("range-macro", 'LOW := 2\nHIGH := 4\n\nconfig RM\n    int "rm"\n    range $(LOW) $(HIGH) if OPT_A\n    default 9\n')
_F("int-literals", 'config IL\n    int "il"\n    default -3 if OPT_B\n    default 007 if NUM_N = 0\n    default 1234567890\n')
_F("hex-literals", 'config HL\n    hex "hl"\n    default 0XAB if OPT_B\n    default 0xabcdef if NUM_N = 0\n    default 0x0\n\nconfig HL2\n    hex "hl2"\n    default 0x1F\n\nconfig CMP\n    bool "cmp"\n    default y if HL2 = 0x1f && HL < 0x10\n')
_F("float-literals", 'config FL\n    float "fl"\n    default -2.5 if OPT_B\n    default 1e3 if NUM_N = 0\n    default 3.14\n\nconfig FL2\n    float "fl2"\n    default 2E2\n\nconfig FL3\n    float "fl3"\n    default 10.0\n\nconfig CMP\n    bool "cmp"\n    default y if FL > 3.0 && FL2 <= 2e2\n')
_F("float-decimal-exponent", 'config FE\n    float "fe"\n    default 1.5e-3\n')
_F("float-negative-exponent", 'config FE\n    float "fe"\n    default 1e-3\n\nconfig FE2\n    float "fe2"\n    default -2E-2\n    range -1e-1 1e-1\n')
_F("float-plus-exponent", 'config FE\n    float "fe"\n    default -2E+2\n')
_F("version-like-literals", 'config VER\n    string "ver"\n    default "5.3.1"\n\nconfig CMP\n    bool "cmp"\n    default y if VER = "5.3.1"\n')
_F("bool-literal-defaults", 'config BL\n    bool "bl"\n    default "y"\n\nconfig BL2\n    bool "bl2"\n    default n\n\nconfig BL3\n    bool "bl3"\n    default y if "y" = "y"\n')
_F("default-on-choice-member-ignored", 'choice CH\n    prompt "ch"\n    config CH_X\n        bool "x"\n        default y\n    config CH_Y\n        bool "y"\nendchoice\n')
_F("lowercase-symbol-names", 'config lower_case\n    bool "lc"\n    default y\n\nconfig Mixed_Case\n    int "mc"\n    default 3 if lower_case\n')
_F("type-after-options", 'config LATE\n    default 5\n    range 0 9\n    int "late typed"\n')
_F("promptless-everything", 'config HID\n    bool\n    default y if OPT_A\n\nconfig HID2\n    int\n    default NUM_N\n\nconfig HID3\n    string\n')
_F("dependency-loop-rejected", 'config LOOP_A\n    bool "la"\n    depends on LOOP_B\n\nconfig LOOP_B\n    bool "lb"\n    depends on LOOP_A\n')
_F("crlf-line-endings", 'config CR\r\n    bool "cr"\r\n    default y\r\n    help\r\n        Windows help.\r\n\r\nconfig AFTER\r\n    int "after"\r\n    default 3\r\n')
_F("no-final-newline", 'config NF\n    bool "nf"\n    default y if OPT_A')
_F("blank-lines-between-options", 'config BLK\n\n    bool "blk"\n\n    default y\n\n\n    depends on OPT_A\n\nconfig AFTER\n    bool "after"\n')

# deliberately invalid sources: each breaks one documented rule.  They are OUTSIDE the property's quantifier
# ("every Kconfig source in the documented language"); the driver evaluates them and lists what happens under
# "notes", but nothing they do is reported as a violation.
_INVALID = [
    ("missing-endmenu", _P + 'menu "m"\nconfig IN_M\n    bool "x"\n'),
    ("missing-endif", _P + 'if OPT_A\nconfig IN_IF\n    bool "x"\n'),
    ("missing-endchoice", _P + 'choice CH\n    prompt "c"\nconfig CH_X\n    bool "x"\n'),
    ("stray-endmenu", _P + 'config ONE\n    bool "x"\n\nendmenu\n'),
    ("stray-endif", _P + 'config ONE\n    bool "x"\n\nendif\n'),
    ("config-without-name", _P + 'config\n    bool "x"\n'),
    ("config-without-type", _P + 'config NOTYPE\n    prompt "x"\n'),
    ("unknown-option", _P + 'config ONE\n    bool "x"\n    frobnicate y\n'),
    ("unterminated-string", _P + 'config ONE\n    bool "x\n'),
    ("depends-without-on", _P + 'config ONE\n    bool "x"\n    depends OPT_A\n'),
    ("range-one-bound", _P + 'config ONE\n    int "x"\n    range 1\n'),
    ("dangling-operator", _P + 'config ONE\n    bool "x"\n    depends on OPT_A &&\n'),
    ("unbalanced-paren", _P + 'config ONE\n    bool "x"\n    depends on (OPT_A || OPT_B\n'),
    ("select-constant", _P + 'config ONE\n    bool "x"\n    select "str"\n'),
    ("no-mainmenu", 'config ONE\n    bool "x"\n'),
    ("two-mainmenus", _P + 'mainmenu "again"\n\nconfig ONE\n    bool "x"\n'),
    ("tristate-type", _P + 'config ONE\n    tristate "x"\n'),
    ("def-bool", _P + 'config ONE\n    def_bool y\n'),
    ("optional-choice", _P + 'choice CH\n    prompt "c"\n    optional\nconfig CH_X\n    bool "x"\nendchoice\n'),
    ("help-dashes", _P + 'config ONE\n    bool "x"\n    ---help---\n        text\n'),
    ("set-without-equals", _P + 'config ONE\n    bool "x"\n    set NUM_N 5\n'),
    ("prompt-unquoted", _P + 'config ONE\n    bool unquoted\n'),
    # not a rule violation but not a documented literal form either: language.rst / formal-base.rst only show hexadecimal literals
    # with the 0x prefix; parser 1 reads a bare '1f' as a reference to an (undefined, lower-case) symbol named '1f'
    ("hex-literal-without-prefix", _P + 'config HB\n    hex "hb"\n    default 1f\n'),
]


class _NoSpec(object):
    syms = ()


def fixture_paths():
    """root Kconfig files shipped under <repo>/test (contain a mainmenu line) + the test suite's error inputs"""
    out = []
    base = os.path.join(REPO, "test")
    for dirpath, dirnames, filenames in os.walk(base):
        dirnames.sort()
        for fn in sorted(filenames):
            if not (fn.startswith("Kconfig") or fn.endswith(".in")):
                continue
            p = os.path.join(dirpath, fn)
            try:
                with open(p, encoding="utf-8") as f:
                    text = f.read()
            except (OSError, UnicodeDecodeError):
                continue
            rel = os.path.relpath(p, REPO)
            is_root = re.search(r"^\s*mainmenu\b", text, re.M) is not None
            in_errors = os.sep + "errors" + os.sep in p
            if is_root or in_errors:
                out.append((rel, "invalid" if in_errors else "valid"))
    return out


def build_cases(tier, seed):
    """list of case descriptors (small, picklable); random trees are drawn inside the workers"""
    n_random = 160 if tier == "quick" else 4000
    cases = []
    small2 = sum(1 for _ in gen.small_trees(2))
    small3 = sum(1 for _ in gen.small_trees(3))
    for i in range(small3):
        cases.append({"kind": "small", "index": i, "id": "small:%d" % i})
    for i in range(n_random):
        cases.append({"kind": "random", "index": i, "seed": seed, "id": "random:%d:%d" % (seed, i)})
    for rel, expect in fixture_paths():
        cases.append({"kind": "fixture", "rel": rel, "expect": expect, "id": "fixture:" + rel})
    for fr in _FRAGS:
        cases.append({"kind": "frag", "frag": fr, "id": "frag:" + fr["id"]})
    for iid, text in _INVALID:
        cases.append({"kind": "invalid", "iid": iid, "text": text, "id": "invalid:" + iid})
    return cases, {"small2": small2, "small3": small3, "random": n_random}


_SMALL_CACHE = []


def _ops_fn(key, spec, length):
    def fn(k1):
        if not k1.unique_defined_syms:
            return []
        rng = random.Random(zlib.crc32(key.encode("utf-8")))
        return [list(op) for op in gen.gen_ops(rng, k1, spec, length)]
    return fn


def _materialise(case):
    """-> list of concrete sub-cases: dict(id, group, files, env, expect, root, relroot, fixture_rel, ops_fn)"""
    kind = case["kind"]
    if kind == "small":
        if not _SMALL_CACHE:
            _SMALL_CACHE.extend(gen.small_trees(3))
        spec = _SMALL_CACHE[case["index"]]
        return [{"id": case["id"], "label": spec.origin, "group": "gen", "files": {"Kconfig": spec.text}, "env": {}, "expect": "valid",
                 "ops_fn": _ops_fn(case["id"], spec, 3)}]
    if kind == "random":
        # the i-th random tree of gen.corpus(seed, count): gen_tree(Random(seed * 1000003 + i), 6); draws that the
        # generator discarded because one of the parsers rejected them are checked as well (both must reject)
        spec = gen.gen_tree(random.Random(case["seed"] * 1000003 + case["index"]), 6)
        out = [{"id": case["id"], "label": case["id"], "group": "gen", "files": {"Kconfig": spec.text}, "env": {}, "expect": "valid",
                "ops_fn": _ops_fn(case["id"], spec, 3)}]
        for j, (text, _, _) in enumerate(spec.rejects[:4]):
            out.append({"id": "%s:reject%d" % (case["id"], j), "label": case["id"] + " (discarded draw)", "group": "gen-discarded",
                        "files": {"Kconfig": text}, "env": {}, "expect": "valid", "ops_fn": _ops_fn(case["id"], _NoSpec, 3)})
        return out
    if kind == "fixture":
        return [{"id": case["id"], "label": case["rel"], "group": "fixture:" + case["rel"], "files": {}, "env": fixture_env(case["rel"]),
                 "expect": case["expect"], "fixture_rel": case["rel"], "ops_fn": _ops_fn(case["id"], _NoSpec, 4)}]
    if kind == "frag":
        fr = case["frag"]
        files = dict(fr["files"])
        files["Kconfig"] = fr["text"]
        return [{"id": case["id"], "label": fr["id"], "group": "frag:" + fr["id"], "files": files, "env": dict(fr["env"]),
                 "expect": fr["expect"], "relroot": fr["relroot"], "ops_fn": _ops_fn(case["id"], _NoSpec, 4)}]
    if kind == "invalid":
        return [{"id": case["id"], "label": case["iid"], "group": "invalid:" + case["iid"], "files": {"Kconfig": case["text"]}, "env": {},
                 "expect": "invalid", "ops_fn": _ops_fn(case["id"], _NoSpec, 2)}]
    raise ValueError(kind)


def _run_sub(sub):
    env = {k: v.replace("@REPO@", REPO) for k, v in sub["env"].items()}
    fixture = os.path.join(REPO, sub["fixture_rel"]) if sub.get("fixture_rel") else None
    res = check_case(sub["files"], env, sub["expect"], sub["ops_fn"], relroot=bool(sub.get("relroot")), fixture=fixture)
    rec = {"id": sub["id"], "label": sub["label"], "group": sub["group"], "expect": sub["expect"], "status": res.get("status"),
           "errors": res.get("errors"), "symptoms": res["symptoms"], "detail": res["detail"], "evaluations": res["evaluations"],
           "nontrivial": res["nontrivial"], "n_ops": len(res["ops"]), "both_accept_invalid": res["both_accept_invalid"],
           "digest": zlib.crc32(repr((sorted(sub["files"].items()), sub.get("fixture_rel"), sorted(sub["env"].items()))).encode("utf-8"))}
    if res["symptoms"]:
        rec["replay"] = {"files": sub["files"], "env": sub["env"], "expect": sub["expect"], "relroot": bool(sub.get("relroot")),
                         "fixture_rel": sub.get("fixture_rel"), "ops": res["ops"]}
    return rec


def _work(chunk):
    _quiet()
    out = []
    for case in chunk:
        try:
            subs = _materialise(case)
        except gen.GenError as exc:
            out.append({"id": case["id"], "gen_error": str(exc)[:300]})
            continue
        for sub in subs:
            out.append(_run_sub(sub))
    return out


_SCRIPT_HEAD = '''#!/usr/bin/env python
"""replay of rtc.drv_parsers (property C04) -- case %(id)s, class %(cls)s
exit 1 if the violation shows on the tree named by env PYVC_REPO (default /repo), 0 otherwise"""
import os
import sys

REPO = os.environ.get("PYVC_REPO", "/repo")
sys.path.insert(0, REPO)
import esp_kconfiglib.core as K  # noqa: E402
from kconfgen.core import get_json_values  # noqa: E402

import json  # noqa: E402
import re  # noqa: E402
import shutil  # noqa: E402
import signal  # noqa: E402
import tempfile  # noqa: E402

ENV_NAMES = %(env_names)r
LOAD_TIMEOUT = %(timeout)d

'''

_SCRIPT_TAIL = '''

CASE = json.loads(%(case)r)
SYMPTOM = %(symptom)r


def main():
    null = os.open(os.devnull, os.O_WRONLY)
    os.dup2(null, 2)  # the library logs to the real stderr
    env = {k: v.replace("@REPO@", REPO) for k, v in CASE["env"].items()}
    fixture = os.path.join(REPO, CASE["fixture_rel"]) if CASE["fixture_rel"] else None
    res = check_case(CASE["files"], env, CASE["expect"], lambda k1: CASE["ops"], relroot=CASE["relroot"], fixture=fixture)
    print("parsers (1, 2):", res.get("status"), "symptoms:", res["symptoms"])
    for d in res["detail"]:
        print(d)
    return 1 if SYMPTOM in res["symptoms"] else 0


if __name__ == "__main__":
    sys.exit(main())
'''


def _core_source():
    with open(__file__.replace(".pyc", ".py"), encoding="utf-8") as f:
        src = f.read()
    return src[src.index("# --- CORE BEGIN ---"):src.index("# --- CORE END ---")]


def make_script(rec, symptom, cls):
    return (_SCRIPT_HEAD % {"id": rec["id"], "cls": cls, "env_names": ENV_NAMES, "timeout": LOAD_TIMEOUT}) + _core_source() + (
        _SCRIPT_TAIL % {"case": json.dumps(rec["replay"]), "symptom": symptom})


def run(prop, tier, seed, jobs):
    t0 = time.time()
    base = {"name": NAME, "property": prop, "kind": "bounded"}
    try:
        if prop not in PROPERTIES:
            raise ValueError("drv_parsers serves %s, not %s" % (PROPERTIES, prop))
        return _run(base, prop, tier, int(seed), max(1, int(jobs)), t0)
    except Exception as exc:  # an exception of the driver itself is never a violation
        import traceback
        base.update({"status": "checker_error", "reason": "%s: %s" % (type(exc).__name__, exc), "trace": traceback.format_exc()[-3000:],
                     "violations": [], "seconds": round(time.time() - t0, 2)})
        return base


def _run(base, prop, tier, seed, jobs, t0):
    for name in ENV_NAMES:
        os.environ.pop(name, None)
    cases, counts = build_cases(tier, seed)
    # interleave so that every chunk has the same mix of cheap and expensive cases
    n_chunks = max(1, min(len(cases), jobs * 6))
    chunks = [cases[i::n_chunks] for i in range(n_chunks)]
    if jobs == 1:
        parts = [_work(c) for c in chunks]
    else:
        ctx = multiprocessing.get_context("fork")
        with ctx.Pool(jobs) as pool:
            parts = pool.map(_work, chunks, chunksize=1)
    order = {c["id"]: i for i, c in enumerate(cases)}
    recs = sorted((r for part in parts for r in part), key=lambda r: (order.get(r["id"].split(":reject")[0], len(order)), r["id"]))
    gen_errors = [r for r in recs if "gen_error" in r]
    if gen_errors:
        raise RuntimeError("generator could not draw a tree: %s" % gen_errors[0]["gen_error"])

    evaluations = sum(r["evaluations"] for r in recs)
    nontrivial = len({r["digest"] for r in recs if r["nontrivial"]})
    by_class = {}
    notes = []
    for r in recs:
        if r["expect"] == "invalid":
            if r["symptoms"] or r["both_accept_invalid"]:
                notes.append({"case": r["id"], "parsers": r["status"], "symptoms": r["symptoms"],
                              "note": "outside the documented language: not a violation of C04"})
            continue
        for k, symptom in enumerate(r["symptoms"]):
            cls = "%s|%s" % (r["group"], symptom)
            ent = by_class.setdefault(cls, {"first": r, "symptom": symptom, "detail": r["detail"][k], "cases": []})
            ent["cases"].append(r["id"])
    violations = []
    for cls in sorted(by_class):
        ent = by_class[cls]
        r, symptom = ent["first"], ent["symptom"]
        contract = ("Kconfig.__init__ ACCEPTANCE" if symptom.startswith(("accept:", "exception:", "hang:")) else
                    "Kconfig.__init__ TREE" if symptom.startswith("tree") else "Kconfig.__init__ OUTPUTS")
        violations.append({
            "case_class": cls, "contract": contract,
            "detail": "%s [%d case(s): %s]\n%s" % (r["label"], len(ent["cases"]), ", ".join(ent["cases"][:5]), ent["detail"]),
            "script": make_script(r, symptom, cls)})
    valid = [r for r in recs if r["expect"] == "valid"]
    both_ok = sum(1 for r in valid if r["status"] == ["ok", "ok"])
    both_rej = sum(1 for r in valid if r["status"] == ["reject", "reject"])
    samples = [{"case": r["id"], "label": r["label"], "parsers": r["status"], "ops": r["n_ops"], "evaluations": r["evaluations"]}
               for r in (recs[0], recs[counts["small3"]], recs[len(recs) // 2], recs[-len(_INVALID) - 1], recs[-1])]
    n_fix = sum(1 for c in cases if c["kind"] == "fixture")
    base.update({
        "status": "ok",
        "bound": ("%d sources: gen.small_trees(3) = %d tiny trees (%d of them are gen.corpus's small_trees(2) part); the %d random trees of "
                  "gen.corpus(seed=%d, count=%d, n_syms=6) (DEFAULT_FEATURES grammar of rtc/gen.py, <= 6 options) plus the draws the "
                  "generator discarded because a parser rejected them; %d root Kconfig files under <repo>/test (every Kconfig*/*.in "
                  "file with a mainmenu line, plus kconfigs/errors/*.in; environment as set by the test suite); %d hand-written "
                  "fragments (imply/select with conditions, relations with '!', chains, source/rsource/osource/orsource with "
                  "relative paths, globs and env macros, comments with depends, menuconfig, visible if, help shapes, line "
                  "continuations, #-comments, string escapes, option env=, env references, macros, named/unnamed/nested "
                  "choices, if inside choices, multiple definitions, set/set default with conditions, warning, symbolic ranges, "
                  "int/hex/float literals, conditional prompts); %d deliberately invalid sources (notes only). Each accepted "
                  "source: default configuration + a history of <= 4 user operations (rtc.gen op language) applied to both instances"
                  % (len(recs), counts["small3"], counts["small2"], counts["random"], seed, counts["random"], n_fix, len(_FRAGS),
                     len(_INVALID))),
        "rule": ("fixed enumeration (tiny trees, fixtures in sorted path order, fragments) + random trees drawn with "
                 "random.Random(seed * 1000003 + i); the history of a source is drawn with random.Random(crc32(case id)); the seed only "
                 "rotates the random trees"),
        "contracts": [
            "Kconfig.__init__(parser_version=1) vs Kconfig.__init__(parser_version=2), same files and environment: ACCEPTANCE -- both "
            "return or both raise KconfigError; any other exception / no answer within %d s of CPU time in either parser is a violation" % LOAD_TIMEOUT,
            "Kconfig.__init__ x2: TREE -- if both return, the menu trees are equal node by node in pre-order with depth: entry kind, "
            "name, type, is_menuconfig, prompt, prompt condition, help, warning, and expr_str of dep / visibility / defaults / "
            "ranges / selects / implies / sets / weak_sets",
            "Kconfig.__init__ x2 then write_config / write_autoconf / kconfgen.core.get_json_values: OUTPUTS -- equal texts / values in "
            "the default configuration and after every step of the same history applied to both instances (and equal return values "
            "of the operations)",
        ],
        "evaluations": evaluations,
        "distinct_nontrivial": nontrivial,
        "samples": samples,
        "violations": violations,
        "notes": notes,
        "stats": {"sources": len(recs), "valid_both_accept": both_ok, "valid_both_reject": both_rej,
                  "discarded_draws_checked": sum(1 for r in recs if r["group"] == "gen-discarded"), "classes": len(violations)},
        "seconds": round(time.time() - t0, 2),
    })
    return base


def main(argv):
    prop = argv[1] if len(argv) > 1 else "C04"
    tier = argv[2] if len(argv) > 2 else "quick"
    seed = int(argv[3]) if len(argv) > 3 else 0
    jobs = int(os.environ.get("VERIF_JOBS", "16"))
    res = run(prop, tier, seed, jobs)
    json.dump(res, sys.stdout, indent=1, default=str)
    sys.stdout.write("\n")
    return 0 if res.get("status") == "ok" else 3


if __name__ == "__main__":
    sys.exit(main(sys.argv))
