"""
rtc.drv_tools -- bounded run-time contracts for the tool-side properties

  C18  kconfcheck leaves compliant files alone and its fixes converge          (kconfcheck.core.validate_file, CLI)
  C19  the deprecated-options check depends only on a file's own scope          (kconfcheck.check_deprecated_options)
  C20  generated documentation omits only unreachable options, conditions are
       truth-preserving and there are no dangling links                         (esp_idf_kconfig.gen_kconfig_doc)

Everything here is a contract on REAL functions of the tree named by $PYVC_REPO (default /repo), evaluated over a stated,
deterministic small scope.  The oracles come from the property statements:

  C18  "documented format rules" = docs/en/kconfcheck/index.rst (4 spaces per level, sub-items one level deeper, help text
       two levels below its entry, no trailing blanks, no tabs, upper-case names with a common prefix >= 3, sourced files
       named Kconfig.<suffix>) -- the canonical renderer below produces such files from a tiny item model; "same
       configuration" = the node tree (every node: kind, name, type, prompt, dependencies, defaults, ranges, selects,
       implies, sets, line number, help) and gen.snapshot() of a fresh Kconfig(...) under parser 1 and parser 2.
  C19  spec function over the directory layout the driver itself created: nearest enclosing project root (CMakeLists.txt
       with project( ), global scope = IDF root rename file + components/** + explicitly passed + --includes.
  C20  brute force over all assignments to the user-settable options / choices of the small tree with the real Kconfig
       evaluator (Symbol.visibility, Kconfig.eval_string, expr_value): reachable => documented, shown condition ==
       original condition in every reachable configuration, every :ref: has its anchor in the same text.

`python -m rtc.drv_tools <prop> [quick|thorough] [seed]` prints the result dict as JSON.
"""

import itertools
import json
import multiprocessing
import os
import random
import re
import shutil
import subprocess
import sys
import tempfile
import time
import traceback

REPO = os.environ.get("PYVC_REPO", "/repo")
if REPO in sys.path:
    sys.path.remove(REPO)
sys.path.insert(0, REPO)

# The project is imported BEFORE rtc.gen: rtc.gen puts "/repo" in front of sys.path when it is not there yet, which would
# shadow the tree named by $PYVC_REPO for every later (lazy) project import.
import esp_kconfiglib.core  # noqa: E402,F401
import kconfcheck.core  # noqa: E402,F401
import kconfcheck.check_deprecated_options  # noqa: E402,F401
import esp_idf_kconfig.gen_kconfig_doc  # noqa: E402,F401
import kconfgen.core  # noqa: E402,F401

import rtc.gen as G  # noqa: E402

while REPO in sys.path:
    sys.path.remove(REPO)
sys.path.insert(0, REPO)
for _m in ("esp_kconfiglib.core", "kconfcheck.core", "esp_idf_kconfig.gen_kconfig_doc", "kconfgen.core"):
    if not os.path.abspath(sys.modules[_m].__file__).startswith(os.path.abspath(REPO) + os.sep):
        raise ImportError("%s imported from %s, not from %s" % (_m, sys.modules[_m].__file__, REPO))

K = G.K

NAME = "drv_tools"
PROPERTIES = ["C18", "C19", "C20"]

PY = sys.executable


# ======================================================================================================================
# common helpers
# ======================================================================================================================

_DEVNULL_DONE = False


def _quiet():
    """The library logs to the real stderr (fd 2); send it to /dev/null for this process (workers inherit)."""
    global _DEVNULL_DONE
    if _DEVNULL_DONE:
        return
    G.silence_library_log()
    try:
        sys.stderr.flush()
        dn = os.open(os.devnull, os.O_WRONLY)
        os.dup2(dn, 2)
        os.close(dn)
    except Exception:  # noqa: BLE001
        pass
    _DEVNULL_DONE = True


def _write(path, text):
    os.makedirs(os.path.dirname(path), exist_ok=True)
    with open(path, "w", encoding="utf-8", newline="\n") as f:
        f.write(text)


def _read(path):
    with open(path, "r", encoding="utf-8", newline="") as f:
        return f.read()


def _pool_map(fn, chunks, jobs):
    if jobs <= 1 or len(chunks) <= 1:
        return [fn(c) for c in chunks]
    ctx = multiprocessing.get_context("fork")
    with ctx.Pool(min(jobs, len(chunks))) as pool:
        return pool.map(fn, chunks, 1)


def _chunks(seq, n):
    n = max(1, n)
    out = [[] for _ in range(n)]
    for i, x in enumerate(seq):
        out[i % n].append(x)
    return [c for c in out if c]


class _Acc:
    """Accumulator of contract evaluations, non-trivial cases, samples and violations (mergeable across workers)."""

    def __init__(self):
        self.evaluations = 0
        self.nontrivial = set()
        self.samples = []
        self.viol = {}  # case_class -> [count, size, violation dict]
        self.stats = {}

    def ev(self, n=1):
        self.evaluations += n

    def nt(self, key):
        self.nontrivial.add(key)

    def stat(self, key, n=1):
        self.stats[key] = self.stats.get(key, 0) + n

    def sample(self, s):
        if len(self.samples) < 5:
            self.samples.append(s)

    def violation(self, case_class, contract, detail, script, size=0):
        cur = self.viol.get(case_class)
        v = {"case_class": case_class, "contract": contract, "detail": detail, "script": script}
        if cur is None:
            self.viol[case_class] = [1, size, v]
        else:
            cur[0] += 1
            if (size, detail) < (cur[1], cur[2]["detail"]):
                cur[1], cur[2] = size, v

    def dump(self):
        return {"evaluations": self.evaluations, "nontrivial": sorted(self.nontrivial), "samples": self.samples,
                "viol": self.viol, "stats": self.stats}

    def merge(self, d):
        self.evaluations += d["evaluations"]
        self.nontrivial.update(d["nontrivial"])
        for s in d["samples"]:
            self.sample(s)
        for k, n in d["stats"].items():
            if isinstance(n, str):
                self.stats.setdefault(k, n)
            else:
                self.stat(k, n)
        for cc, (count, size, v) in d["viol"].items():
            cur = self.viol.get(cc)
            if cur is None:
                self.viol[cc] = [count, size, v]
            else:
                cur[0] += count
                if (size, v["detail"]) < (cur[1], cur[2]["detail"]):
                    cur[1], cur[2] = size, v

    def violations(self):
        out = []
        for cc in sorted(self.viol):
            count, _, v = self.viol[cc]
            v = dict(v)
            v["detail"] = v["detail"] + "  [%d case(s) of this class in this run; smallest shown]" % count
            out.append(v)
        return out


SCRIPT_HEAD = '''import os, sys, tempfile, shutil
REPO = os.environ.get("PYVC_REPO", "/repo")
sys.path.insert(0, REPO)
try:
    _dn = os.open(os.devnull, os.O_WRONLY); os.dup2(_dn, 2)
except Exception:
    pass
'''


# ======================================================================================================================
# C18 -- kconfcheck: compliant files are left alone, whitespace fixes converge and preserve the meaning
# ======================================================================================================================
#
# Item model of the canonical renderer (kconfcheck's documented style):
#   ("entry", header, attrs, help)            config / menuconfig / comment; attrs: list of logical lines, a logical line
#                                             is a str or a tuple of str (backslash continuation over len(tuple) lines);
#                                             help: None or list of str ("" = blank line, leading blanks = deeper text)
#   ("block", open, attrs, children, close, help)   menu / choice / if (help only for choice)
#   ("line", text)                            source-like statements and '#' comments at the current level
#   ("raw0", text)                            a '#' comment in column 0
#   ("blank",)
# Rendering rules: one level = 4 spaces; attrs one level below the header; continuation lines one level below the line
# they continue; `help` one level below the header and its text two levels below; children of menu/choice/if one level
# below; everything after `mainmenu` one level below it (that is what the checker and the repo's own fixtures do).

C18_PASS_BOUND = 4   # at most 3 rewriting passes (indentation, then tabs/trailing blanks, one more for lines re-indented wrongly
#                      after a continuation), the 4th pass must report OK


def _ind(level):
    return "    " * level


def c18_render(items, level, out):
    """Append (kind, text) physical lines; kind in stmt/attr/cont/helpkw/helpbody/blank/hash."""
    for it in items:
        tag = it[0]
        if tag == "entry":
            _, header, attrs, help_ = it
            out.append(("stmt", _ind(level) + header))
            _render_attrs(attrs, level + 1, out)
            if help_ is not None:
                out.append(("helpkw", _ind(level + 1) + "help"))
                for h in help_:
                    out.append(("blank", "") if h == "" else ("helpbody", _ind(level + 2) + h))
        elif tag == "block":
            _, open_, attrs, children, close, help_ = it
            out.append(("stmt", _ind(level) + open_))
            _render_attrs(attrs, level + 1, out)
            if help_ is not None:
                out.append(("helpkw", _ind(level + 1) + "help"))
                for h in help_:
                    out.append(("blank", "") if h == "" else ("helpbody", _ind(level + 2) + h))
            c18_render(children, level + 1, out)
            out.append(("stmt", _ind(level) + close))
        elif tag == "line":
            out.append(("hash" if it[1].startswith("#") else "stmt", _ind(level) + it[1]))
        elif tag == "raw0":
            out.append(("hash", it[1]))
        elif tag == "blank":
            out.append(("blank", ""))
        else:
            raise ValueError(tag)
    return out


def _render_attrs(attrs, level, out):
    for a in attrs:
        if isinstance(a, tuple):
            for i, seg in enumerate(a):
                last = i == len(a) - 1
                out.append(("attr" if i == 0 else "cont", _ind(level if i == 0 else level + 1) + seg + ("" if last else " \\")))
        elif a.startswith("#"):
            out.append(("hash", _ind(level) + a))
        else:
            out.append(("attr", _ind(level) + a))


def c18_text(lines):
    return "".join(t + "\n" for _, t in lines)


def _E(header, attrs=(), help_=None):
    return ("entry", header, list(attrs), help_)


def _B(open_, attrs, children, close, help_=None):
    return ("block", open_, list(attrs), list(children), close, help_)


def c18_fragments(k):
    """
    dict tag -> (items, extra_files) for fragment number k (all names start with RTC_F<k>_, which keeps the common
    prefix rule satisfied for every combination).  extra_files: name -> text of sourced files (canonical style too).
    """
    P = "RTC_F%d_" % k
    inc = "Kconfig.inc%d" % k
    incfile = {inc: 'config %sINC\n    bool "included"\n    default y\n' % P}
    F = {}
    F["bool"] = ([_E("config %sA" % P, ['bool "a bool"', "default y"], ["One line of help."])], {})
    F["int_range"] = ([_E("config %sA" % P, ['bool "gate"']), ("blank",),
                       _E("config %sB" % P, ['int "an int"', "depends on %sA" % P, "range 0 10", "default 5 if %sA" % P,
                                            "default 3"])], {})
    F["string_hex"] = ([_E("config %sA" % P, ['string "a string"', 'default "two words"']),
                        _E("config %sB" % P, ['hex "a hex"', "default 0x1F", "range 0x0 0xFF"], ["Hex help."])], {})
    F["promptless"] = ([_E("config %sA" % P, ["bool", "default y"]), ("blank",),
                        _E("config %sB" % P, ["int", "default 7 if %sA" % P, "default 1"])], {})
    F["prompt_kw"] = ([_E("config %sA" % P, ['bool "gate"']),
                       _E("config %sB" % P, ["bool", 'prompt "kw prompt" if %sA' % P, "default n"])], {})
    F["help_blank"] = ([_E("config %sA" % P, ['bool "with long help"'],
                           ["First paragraph, line one.", "Line two.", "", "Second paragraph after a blank line.", "",
                            "", "Third after two blank lines."]),
                        _E("config %sB" % P, ['bool "next"'])], {})
    F["help_deeper"] = ([_E("config %sA" % P, ['bool "help with list"'],
                            ["A list:", "  - item one", "    continues deeper", "  - item two", "back to base"]),
                         _E("config %sB" % P, ['bool "next"'])], {})
    F["help_kw"] = ([_E("config %sA" % P, ['bool "help starting with keywords"'],
                        ["if enabled, something happens.", "config files are read.", "menu entries follow.",
                         "endmenu is a word too.", "source code is nice.", "help is near."]),
                     _E("config %sB" % P, ['bool "next"'])], {})
    F["cont2"] = ([_E("config %sA" % P, ['bool "a"']), _E("config %sB" % P, ['bool "b"']),
                   _E("config %sC" % P, ['bool "c"', ("depends on %sA &&" % P, "%sB" % P), "default y"])], {})
    F["cont3"] = ([_E("config %sA" % P, ['bool "a"']), _E("config %sB" % P, ['bool "b"']),
                   _E("config %sC" % P, ['bool "c"', ("depends on %sA &&" % P, "%sB &&" % P, "!%sB" % P), "default y"],
                      ["Help after a continuation."])], {})
    F["cont4"] = ([_E("config %sA" % P, ['bool "a"']), _E("config %sB" % P, ['bool "b"']),
                   _E("config %sC" % P, ['int "c"', ("default 4 if %sA &&" % P, "%sB ||" % P, "%sA ||" % P, "%sB" % P),
                                        ("range 0", "10"), "default 1"])], {})
    F["cont_last"] = ([_E("config %sA" % P, ['bool "a"']),
                       _E("config %sB" % P, ['bool "b"', ("select %sC if" % P, "%sA &&" % P, "%sA" % P)]),
                       _E("config %sC" % P, ["bool"])], {})
    F["menu_nested"] = ([_B('menu "Outer %d"' % k, [], [
        _E("config %sOUT_A" % P, ['bool "a"']),
        _B('menu "Inner %d"' % k, ["depends on %sOUT_A" % P, "visible if %sOUT_A" % P], [
            _E("config %sOUT_IN_B" % P, ['bool "b"'], ["Deep help."]),
            _B('menu "Innermost"', [], [_E("config %sOUT_IN_MOST_C" % P, ['int "c"', "default 1"])], "endmenu"),
        ], "endmenu"),
        _E("config %sOUT_D" % P, ['bool "d"']),
    ], "endmenu")], {})
    F["choice_named"] = ([_B("choice %sMODE" % P, ['prompt "mode"', "default %sMODE_B" % P, "#  a note"], [
        _E("config %sMODE_A" % P, ['bool "mode a"'], ["Member help."]),
        _E("config %sMODE_B" % P, ['bool "mode b"']),
    ], "endchoice"), _E("config %sAFTER" % P, ['bool "after choice"', "depends on %sMODE_B" % P])], {})
    F["choice_unnamed"] = ([_E("config %sG" % P, ['bool "gate"']), _B("choice", ['prompt "unnamed" if %sG' % P, "depends on %sG" % P], [
        _E("config %sSEL_A" % P, ['bool "a"']),
        _E("config %sSEL_B" % P, ['bool "b" if %sG' % P, "depends on %sG" % P]),
    ], "endchoice")], {})
    F["choice_help"] = ([_B("choice %sKIND" % P, ['prompt "kind"'], [
        _E("config %sKIND_X" % P, ['bool "x"']),
    ], "endchoice", ["Help of the choice itself.", "", "Second paragraph."])], {})
    F["if_block"] = ([_E("config %sA" % P, ['bool "a"']), _B("if %sA" % P, [], [
        _E("config %sB" % P, ['bool "b"'], ["In if."]),
        _B("if !%sB" % P, [], [_E("config %sC" % P, ['int "c"', "default 2"])], "endif"),
        _B("choice %sINIF" % P, ['prompt "in if"'], [_E("config %sINIF_A" % P, ['bool "a"']),
                                                     _E("config %sINIF_B" % P, ['bool "b"'])], "endchoice"),
    ], "endif"), _E("config %sD" % P, ['bool "d"'])], {})
    F["comment_entry"] = ([_E("config %sA" % P, ['bool "a"']), _E('comment "a comment entry"', ["depends on %sA" % P]),
                           _E('comment "bare comment"'), _E("config %sB" % P, ['bool "b"'])], {})
    F["menuconfig"] = ([_E("menuconfig %sMC" % P, ['bool "a menuconfig"'], ["MC help."]),
                        _E("config %sMC_SUB" % P, ['bool "sub"', "depends on %sMC" % P]),
                        _B("if %sMC" % P, [], [_E("config %sMC_SUB2" % P, ['int "sub2"', "default 1"])], "endif")], {})
    F["rev_deps"] = ([_E("config %sT" % P, ["bool"]), _E("config %sN" % P, ['int "n"', "default 1"]),
                      _E("config %sS" % P, ['bool "s"', "select %sT" % P, "imply %sU if %sT" % (P, P),
                                           "set %sN=5" % P, "set default %sN=6 if %sT" % (P, P)]),
                      _E("config %sU" % P, ['bool "u"'])], {})
    F["hash_comments"] = ([("line", "# comment at level"), _E("config %sA" % P, ["# between header and type", 'bool "a"',
                                                                              "# after type", "default y"], ["Help."]),
                           ("raw0", "# comment in column 0"), ("raw0", "#"),
                           _E("config %sB" % P, ['bool "b"  # inline comment', "depends on %sA  # another" % P]),
                           ("line", "# trailing comment")], {})
    F["compact"] = ([_E("config %sA" % P, ['bool "a"']), _E("config %sB" % P, ['bool "b"'], ["Help b."]),
                     _E("config %sC" % P, ['bool "c"']), _B('menu "compact %d"' % k, [], [
                         _E("config %sD" % P, ['bool "d"'], ["Help d."]), _E("config %sE" % P, ['bool "e"'])], "endmenu"),
                     _E("config %sF" % P, ['bool "f"'])], {})
    F["blank_lines"] = ([("blank",), ("blank",), _E("config %sA" % P, ['bool "a"']), ("blank",), ("blank",),
                         _E("config %sB" % P, ['bool "b"'], ["Help b.", ""]), ("blank",)], {})
    # source statements of all four kinds in every position relative to their neighbours
    for skw, path, files in (("source", inc, incfile), ("rsource", inc, incfile), ("osource", "Kconfig.absent%d" % k, {}),
                             ("orsource", "Kconfig.absent%d" % k, {}), ("osource", inc, incfile),
                             ("orsource", inc, incfile)):
        present = "p" if files else "a"
        line = ("line", '%s "%s"' % (skw, path))
        F["%s_%s_after_config" % (skw, present)] = ([_E("config %sA" % P, ['bool "a"', "default y"]), line,
                                                    _E("config %sB" % P, ['bool "b"'])], files)
        F["%s_%s_after_help" % (skw, present)] = ([_E("config %sA" % P, ['bool "a"'], ["Help before source."]), line], files)
        F["%s_%s_first" % (skw, present)] = ([line, _E("config %sB" % P, ['bool "b"'])], files)
        F["%s_%s_in_menu" % (skw, present)] = ([_B('menu "S %d"' % k, [], [line, _E("config %sA" % P, ['bool "a"']), ("blank",), line2(line)],
                                                  "endmenu"), line3(line)], files)
        F["%s_%s_after_comment" % (skw, present)] = ([_E('comment "c"'), line, _B("if %sINC" % P, [], [
            _E("menuconfig %sM" % P, ['bool "m"']), line2(line)], "endif")], files)
    F["source_env"] = ([_E("config %sA" % P, ['bool "a"']), ("line", 'source "$RTC_SRC_DIR/%s"' % inc)], incfile)
    return F


def line2(line):
    """A second source of the same (optional/relative) kind must name another file only when the file exists."""
    kw, path = line[1].split(" ", 1)
    if "absent" in path:
        return ("line", '%s "%sx"' % (kw, path.strip('"')))
    return ("line", "# (second source of an existing file would define the option twice)")


def line3(line):
    kw, path = line[1].split(" ", 1)
    if "absent" in path:
        return ("line", '%s "%sy"' % (kw, path.strip('"')))
    return ("line", "# end")


C18_WRAPPERS = ("top", "menu", "menu_if", "deep", "if_top", "nomain")


def c18_wrap(items, wrapper):
    """Return (items, has_mainmenu)."""
    if wrapper == "top":
        return items, True
    if wrapper == "menu":
        return [_B('menu "Wrap"', [], items, "endmenu")], True
    if wrapper == "menu_if":
        return [_E("config RTC_WRAP_GATE", ['bool "wrap gate"', "default y"]),
                _B('menu "Wrap"', ["depends on RTC_WRAP_GATE"], [_B("if RTC_WRAP_GATE", [], items, "endif")], "endmenu")], True
    if wrapper == "deep":
        return [_B('menu "W1"', [], [_B('menu "W2"', [], [_B('menu "W3"', [], items, "endmenu")], "endmenu")], "endmenu")], True
    if wrapper == "if_top":
        return [_E("config RTC_WRAP_GATE", ['bool "wrap gate"', "default y"]), _B("if RTC_WRAP_GATE", [], items, "endif")], True
    if wrapper == "nomain":
        return items, False
    raise ValueError(wrapper)


def c18_file(frag_tags, wrapper):
    """Canonical file for a sequence of fragment tags: returns (lines[(kind,text)], extra_files)."""
    items, files = [], {}
    for k, tag in enumerate(frag_tags, 1):
        its, fl = c18_fragments(k)[tag]
        if items:
            items.append(("blank",))
        items.extend(its)
        files.update(fl)
    items, mainmenu = c18_wrap(items, wrapper)
    out = []
    if mainmenu:
        out.append(("stmt", 'mainmenu "RTC"'))
        out.append(("blank", ""))
        c18_render(items, 1, out)
    else:
        c18_render(items, 0, out)
    return out, files


C18_FRAG_TAGS = tuple(sorted(c18_fragments(1)))


# ---- manglers: whitespace-only defects (indentation width, tabs, trailing blanks) -------------------------------------

def _lead(text):
    n = len(text) - len(text.lstrip(" "))
    return n, text[n:]


def _mk_width(w):
    def f(lines, rng):
        out = []
        for kind, t in lines:
            n, rest = _lead(t)
            out.append((kind, " " * ((n // 4) * w + n % 4) + rest))
        return out
    return f


def _m_tab_level(lines, rng):
    out = []
    for kind, t in lines:
        n, rest = _lead(t)
        out.append((kind, "\t" * (n // 4) + " " * (n % 4) + rest))
    return out


def _m_tab8(lines, rng):
    out = []
    for kind, t in lines:
        n, rest = _lead(t)
        out.append((kind, "\t" * (n // 8) + " " * (n % 8) + rest))
    return out


def _m_tab_mixed(lines, rng):
    out = []
    for i, (kind, t) in enumerate(lines):
        n, rest = _lead(t)
        out.append((kind, ("\t" * (n // 4) + " " * (n % 4) + rest) if (i % 2 and kind not in ("helpbody",)) else t))
    return out


def _m_shift2(lines, rng):
    return [(kind, ("  " + t) if t else t) for kind, t in lines]


def _m_trail_space(lines, rng):
    out = []
    for kind, t in lines:
        if t.endswith("\\"):
            out.append((kind, t))
        elif t == "":
            out.append((kind, "  "))
        else:
            out.append((kind, t + " "))
    return out


def _m_trail_tab(lines, rng):
    out = []
    for i, (kind, t) in enumerate(lines):
        out.append((kind, t + ("\t" if (i % 2 == 0 and t and not t.endswith("\\")) else "")))
    return out


def _m_trail_after_backslash(lines, rng):
    return [(kind, t + ("  " if t.endswith("\\") else "")) for kind, t in lines]


_INNER_KW = ("config ", "menuconfig ", "choice ", "bool ", "int ", "hex ", "string ", "prompt ", "default ", "select ",
             "imply ", "range ", "menu ", "comment ", "source ", "rsource ", "osource ", "orsource ", "if ", "depends on ",
             "visible if ")


def _m_inner_tab(lines, rng):
    out = []
    for kind, t in lines:
        n, rest = _lead(t)
        if kind in ("stmt", "attr"):
            for kw in _INNER_KW:
                if rest.startswith(kw):
                    rest = kw[:-1] + "\t" + rest[len(kw):]
                    break
        out.append((kind, " " * n + rest))
    return out


def _m_jitter(lines, rng):
    """Every statement line gets an arbitrary indentation; a help body moves as one block and stays below its keyword."""
    out = []
    i = 0
    while i < len(lines):
        kind, t = lines[i]
        if kind == "helpkw":
            n = rng.randrange(0, 12)
            out.append((kind, " " * n + t.lstrip(" ")))
            j = i + 1
            block = []
            while j < len(lines) and lines[j][0] in ("helpbody", "blank"):
                block.append(lines[j])
                j += 1
            while block and block[-1][0] == "blank":
                block.pop()
                j -= 1
            base = min([_lead(b)[0] for kk, b in block if kk == "helpbody"] or [0])
            new_base = n + 1 + rng.randrange(0, 6)
            for kk, b in block:
                out.append((kk, (" " * (new_base + _lead(b)[0] - base) + b.lstrip(" ")) if kk == "helpbody" else b))
            i = j
            continue
        if kind in ("stmt", "attr", "cont", "hash") and t:
            out.append((kind, " " * rng.randrange(0, 14) + t.lstrip(" ")))
        else:
            out.append((kind, t))
        i += 1
    return out


def _compose(*fs):
    def f(lines, rng):
        for g in fs:
            lines = g(lines, rng)
        return lines
    return f


C18_MANGLERS = {
    "w1": _mk_width(1), "w2": _mk_width(2), "w3": _mk_width(3), "w5": _mk_width(5), "w6": _mk_width(6), "w8": _mk_width(8),
    "tab_level": _m_tab_level, "tab8": _m_tab8, "tab_mixed": _m_tab_mixed, "shift2": _m_shift2,
    "trail_space": _m_trail_space, "trail_tab": _m_trail_tab, "trail_after_backslash": _m_trail_after_backslash,
    "inner_tab": _m_inner_tab, "jitter": _m_jitter,
    "w2+trail": _compose(_mk_width(2), _m_trail_space), "tab_level+trail_tab": _compose(_m_tab_level, _m_trail_tab),
    "w8+inner_tab": _compose(_mk_width(8), _m_inner_tab),
}


# ---- observation of "the configuration both parsers read" ---------------------------------------------------------

def _ex(e):
    return K.expr_str(e) if e is not None else None


def tree_dump(kconf):
    """
    (structure, helps): structure = one record per menu node in node_iter() order with everything the parser produced
    for it (except help), helps = list of help texts in the same order.
    """
    structure, helps = [], []
    for node in kconf.node_iter():
        item = node.item
        depth, p = 0, node.parent
        while p is not None:
            depth += 1
            p = p.parent
        if item is K.MENU:
            kind = "menu"
        elif item is K.COMMENT:
            kind = "comment"
        elif isinstance(item, K.Choice):
            kind = "choice"
        else:
            kind = "symbol"
        rec = [depth, kind, getattr(item, "name", None),
               (node.prompt[0], _ex(node.prompt[1])) if node.prompt else None, _ex(node.dep),
               os.path.basename(node.filename or ""), node.linenr, bool(getattr(node, "is_menuconfig", False))]
        if kind == "menu":
            rec.append(_ex(node.visibility))
        if kind in ("symbol", "choice"):
            rec.append(K.TYPE_TO_STR.get(item.orig_type))
            rec.append([(_ex(v), _ex(c)) for v, c in node.defaults])
            rec.append([(_ex(t), _ex(c)) for t, c in node.selects])
            rec.append([(_ex(t), _ex(c)) for t, c in node.implies])
            rec.append([(_ex(lo), _ex(hi), _ex(c)) for lo, hi, c in node.ranges])
            rec.append([tuple(_ex(x) if not isinstance(x, (str, int, type(None))) else x for x in s) for s in node.sets])
            rec.append([tuple(_ex(x) if not isinstance(x, (str, int, type(None))) else x for x in s) for s in node.weak_sets])
        structure.append(rec)
        helps.append(node.help)
    return structure, helps


def c18_load(dirpath, version):
    """Fresh Kconfig of <dirpath>/Kconfig; returns (structure, helps, snapshot) or ('error', text)."""
    G.reset_library_report()
    try:
        with G.controlled_env({"srctree": dirpath, "RTC_SRC_DIR": dirpath}):
            kconf = K.Kconfig(os.path.join(dirpath, "Kconfig"), parser_version=version)
        st, hp = tree_dump(kconf)
        return (st, hp, G.snapshot(kconf))
    except BaseException as e:  # noqa: BLE001 - the library uses SystemExit as well
        if isinstance(e, KeyboardInterrupt):
            raise
        return ("error", "%s: %s" % (type(e).__name__, str(e)[:200]))


_CAPTURE = {"fd": None, "path": None}


def _capture_fd2():
    """A per-process scratch file onto which fd 2 is switched while a checked function runs (its log is an observable)."""
    if _CAPTURE["fd"] is None or _CAPTURE.get("pid") != os.getpid():
        fd, path = tempfile.mkstemp(prefix="rtc_tools_err")
        os.unlink(path)
        _CAPTURE.update(fd=fd, pid=os.getpid())
    return _CAPTURE["fd"]


def _call_captured(fn, *args):
    """Run fn(*args) with fd 1 and fd 2 captured: returns (result, exception text or None, captured stderr text)."""
    cap = _capture_fd2()
    os.ftruncate(cap, 0)
    os.lseek(cap, 0, os.SEEK_SET)
    try:
        sys.stderr.flush()
        sys.stdout.flush()
    except Exception:  # noqa: BLE001
        pass
    saved = os.dup(2)
    saved1 = os.dup(1)
    os.dup2(cap, 2)
    os.dup2(cap, 1)
    res, exc = None, None
    try:
        try:
            res = fn(*args)
        except BaseException as e:  # noqa: BLE001 - log.die() raises SystemExit
            if isinstance(e, KeyboardInterrupt):
                raise
            exc = "%s: %s" % (type(e).__name__, str(e)[:300])
    finally:
        try:
            sys.stderr.flush()
            sys.stdout.flush()
        except Exception:  # noqa: BLE001
            pass
        os.dup2(saved, 2)
        os.dup2(saved1, 1)
        os.close(saved)
        os.close(saved1)
    os.lseek(cap, 0, os.SEEK_SET)
    chunks = []
    while True:
        b = os.read(cap, 65536)
        if not b:
            break
        chunks.append(b)
    return res, exc, re.sub(r"\x1b\[[0-9;]*m", "", b"".join(chunks).decode("utf-8", "replace"))


def _validate(path, replace):
    """Call the real validate_file; returns (result, exception text or None, log text)."""
    from kconfcheck.core import validate_file
    return _call_captured(validate_file, path, False, replace)


def _msg_class(log_text):
    """Stable class of the checker's first complaint (numbers and names removed)."""
    for line in log_text.splitlines():
        m = re.search(r":\d+: (.*)$", line)
        if m and ("ERROR" in line or "error" in line.lower() or True):
            msg = m.group(1)
            msg = re.sub(r"'[^']*'|\"[^\"]*\"", "<x>", msg)
            msg = re.sub(r"\b[A-Z][A-Z0-9_]{2,}\b", "<NAME>", msg)
            msg = re.sub(r"\d+", "<n>", msg)
            return msg.strip()[:80]
    return "no-message"


C18_SCRIPT = SCRIPT_HEAD + '''
from kconfcheck.core import validate_file
import esp_kconfiglib.core as K
FILES = %(files)r        # file name -> text; "Kconfig" (or "sdkconfig.rename") is the checked file
MAIN = %(main)r
CANONICAL = %(canonical)r   # None, or the canonical (documented style) text the file was mangled from
MODE = %(mode)r          # "compliant" | "mangled"
BOUND = %(bound)d
d = tempfile.mkdtemp(prefix="c18rep")
bad = []
def dump(v):
    import io
    os.environ["srctree"] = d; os.environ["RTC_SRC_DIR"] = d
    try:
        k = K.Kconfig(os.path.join(d, "Kconfig"), parser_version=v)
    except BaseException as e:
        return "load error: %%s" %% type(e).__name__
    out = []
    for n in k.node_iter():
        it = n.item
        out.append((getattr(it, "name", None) if it not in (K.MENU, K.COMMENT) else it, n.prompt and (n.prompt[0], K.expr_str(n.prompt[1])),
                    K.expr_str(n.dep), n.linenr, n.help, [(K.expr_str(a), K.expr_str(b)) for a, b in getattr(n, "defaults", [])]))
    return out, [(s.name, s.str_value, s.visibility) for s in k.unique_defined_syms]
try:
    for name, text in FILES.items():
        with open(os.path.join(d, name), "w", newline="\\n") as f:
            f.write(text)
    p = os.path.join(d, MAIN)
    def run(replace):
        try:
            return validate_file(p, False, replace)
        except BaseException as e:
            return "exception %%s: %%s" %% (type(e).__name__, e)
    if MODE == "compliant":
        for replace in (False, True):
            r = run(replace)
            if r is not True: bad.append("validate_file(replace=%%s) returned %%r for a compliant file" %% (replace, r))
            if open(p, newline="").read() != FILES[MAIN]: bad.append("file changed (replace=%%s)" %% replace)
            if os.path.exists(p + ".new"): bad.append(".new left behind (replace=%%s)" %% replace); os.remove(p + ".new")
    else:
        before = {v: dump(v) for v in (1, 2)} if MAIN == "Kconfig" else {}
        ok = False
        for i in range(BOUND):
            r = run(True)
            if os.path.exists(p + ".new"): bad.append(".new left behind after --replace pass %%d" %% (i + 1))
            if r is True: ok = True; break
        if not ok: bad.append("not reported OK within %%d --replace passes (last result %%r)" %% (BOUND, r))
        fixed = open(p, newline="").read()
        r = run(True)
        if ok and (r is not True or open(p, newline="").read() != fixed): bad.append("a further pass is not the identity")
        for v, b in before.items():
            if isinstance(b, str): continue
            a = dump(v)
            if a != b:
                bad.append("parser %%d reads the fixed file differently from the original" %% v)
                if not isinstance(a, str):
                    for x, y in zip(b[0] + b[1], a[0] + a[1]):
                        if x != y: bad.append("   original: %%r\\n   fixed   : %%r" %% (x, y)); break
        if bad: print("--- original ---\\n" + FILES[MAIN] + "--- after fixing ---\\n" + fixed)
finally:
    shutil.rmtree(d, ignore_errors=True)
for b in bad: print("VIOLATION:", b)
sys.exit(1 if bad else 0)
'''


def _c18_script(files, main, mode, canonical=None):
    return C18_SCRIPT % {"files": files, "main": main, "mode": mode, "bound": C18_PASS_BOUND, "canonical": canonical}


def _first_diff(a, b):
    for i, (x, y) in enumerate(zip(a, b)):
        if x != y:
            return "#%d: %r -> %r" % (i, x, y)
    if len(a) != len(b):
        return "length %d -> %d" % (len(a), len(b))
    return ""


def c18_check_compliant(acc, case_id, text, files, main="Kconfig", tags=()):
    """validate_file on a compliant file: reported OK, byte-identical, no .new -- without and with replace."""
    d = tempfile.mkdtemp(prefix="rtc18_")
    try:
        for name, t in files.items():
            _write(os.path.join(d, name), t)
        path = os.path.join(d, main)
        _write(path, text)
        listing = sorted(os.listdir(d))
        problems = []
        for replace in (False, True):
            res, exc, logtext = _validate(path, replace)
            acc.ev()
            if exc is not None:
                problems.append(("exception", "validate_file(replace=%s) raised %s" % (replace, exc)))
                break
            if res is not True:
                problems.append(("flagged:" + _msg_class(logtext), "validate_file(replace=%s) returned %r for a file in the documented style; checker said: %s"
                                 % (replace, res, " | ".join(x.strip() for x in logtext.splitlines() if re.search(r":\d+: ", x))[:300])))
            if _read(path) != text:
                problems.append(("rewritten", "file bytes changed by validate_file(replace=%s)" % replace))
                _write(path, text)
            if os.path.exists(path + ".new"):
                problems.append(("new_left", "%s.new left behind (replace=%s)" % (main, replace)))
                os.remove(path + ".new")
            if sorted(os.listdir(d)) != listing:
                problems.append(("dir_changed", "directory listing changed: %r" % sorted(os.listdir(d))))
        return problems
    finally:
        shutil.rmtree(d, ignore_errors=True)


def c18_check_mangled(acc, text, files, want_meaning=True):
    """
    Repeated validate_file(replace=True) on a file with whitespace-only defects.  Returns (problems, info) where
    problems is a list of (symptom, detail).
    """
    d = tempfile.mkdtemp(prefix="rtc18_")
    problems = []
    info = {"passes": None}
    try:
        for name, t in files.items():
            _write(os.path.join(d, name), t)
        path = os.path.join(d, "Kconfig")
        _write(path, text)
        before = {v: c18_load(d, v) for v in (1, 2)} if want_meaning else {}
        ok = False
        res = None
        for i in range(C18_PASS_BOUND):
            res, exc, logtext = _validate(path, True)
            acc.ev()
            if exc is not None:
                problems.append(("exception", "validate_file(replace=True) raised %s in pass %d" % (exc, i + 1)))
                return problems, info
            if os.path.exists(path + ".new"):
                problems.append(("new_left", ".new left behind by --replace pass %d" % (i + 1)))
                os.remove(path + ".new")
            if res is True:
                ok = True
                info["passes"] = i + 1
                break
        fixed = _read(path)
        info["fixed"] = fixed
        if not ok:
            problems.append(("no_convergence", "not reported OK within %d --replace passes" % C18_PASS_BOUND))
        else:
            res, exc, logtext = _validate(path, True)
            acc.ev()
            if exc is not None or res is not True or _read(path) != fixed:
                problems.append(("not_fixed_point", "a further --replace pass on the file reported OK is not the identity (%r, %s)" % (res, exc)))
            res, exc, logtext = _validate(path, False)
            acc.ev()
            if exc is not None or res is not True or os.path.exists(path + ".new") or _read(path) != fixed:
                problems.append(("not_fixed_point", "plain check of the fixed file: result %r, exception %s, .new exists %s"
                                 % (res, exc, os.path.exists(path + ".new"))))
        _write(path, fixed)
        for v, b in before.items():
            acc.ev()
            if b[0] == "error":
                info.setdefault("orig_unparsable", []).append(v)
                continue
            a = c18_load(d, v)
            if a[0] == "error":
                problems.append(("meaning_parse_error", "parser %d reads the original but not the fixed file: %s" % (v, a[1])))
            elif a[0] != b[0]:
                problems.append(("meaning_structure", "parser %d: node tree differs, first difference %s" % (v, _first_diff(b[0], a[0]))))
            elif a[2] != b[2]:
                problems.append(("meaning_values", "parser %d: snapshot differs: %s" % (v, _first_diff(sorted(b[2].items()), sorted(a[2].items())))))
            elif a[1] != b[1]:
                problems.append(("meaning_help", "parser %d: help text differs, first difference %s" % (v, _first_diff(b[1], a[1]))))
        return problems, info
    finally:
        shutil.rmtree(d, ignore_errors=True)


# ---- mechanism detector: which documented weak spot of the checker does a mangled file touch? -------------------------
# Used ONLY to give violations a stable, explanatory class id; it never decides whether something is a violation.

_KW_LEAD = re.compile(r"^(menu(?!config)|mainmenu|choice|config|menuconfig|comment|help|if|source|osource|rsource|orsource|endmenu|endchoice|endif)")


def c18_mechanisms(canon_lines, mangled_lines):
    """dict mechanism -> sorted list of the line indices that exhibit it."""
    mech = {}

    def add(m, ixs):
        mech.setdefault(m, set()).update(ixs)

    n = len(canon_lines)
    i = 0
    while i < n:
        kind, ct = canon_lines[i]
        mt = mangled_lines[i][1]
        cn = len(ct) - len(ct.lstrip(" "))
        mn = len(mt) - len(mt.lstrip(" \t"))
        if kind == "cont" and mn != cn:
            add("misindented-continuation", [i])
        if kind == "helpkw":
            base = cn + 4
            j = i + 1
            block = []
            while j < n and canon_lines[j][0] in ("helpbody", "blank"):
                if canon_lines[j][0] == "helpbody":
                    block.append(j)
                j += 1
            under = [x for x in block if len(mangled_lines[x][1]) - len(mangled_lines[x][1].lstrip(" \t")) < base]
            if under:
                if any(_KW_LEAD.match(mangled_lines[x][1].strip()) for x in under):
                    add("help-line-starts-with-keyword", block)
                elif any(len(canon_lines[x][1]) - len(canon_lines[x][1].lstrip(" ")) > base for x in block):
                    add("help-relative-indent", block)
                else:
                    add("help-body-under-level", block)
            # statements that follow the help text (after blank lines / comments) at or beyond the help level
            k = j
            while k < n and canon_lines[k][0] in ("blank", "hash"):
                k += 1
            if block and k < n:
                mk = mangled_lines[k][1]
                if len(mk) - len(mk.lstrip(" \t")) >= base:
                    add("statement-after-help-at-help-level", [k])
            i = j
            continue
        i += 1
    return {m: sorted(ix) for m, ix in mech.items()}


C18_MECH_PRIORITY = ("help-line-starts-with-keyword", "misindented-continuation", "statement-after-help-at-help-level",
                     "help-relative-indent", "help-body-under-level")


def _norm_help(helps):
    return [None if h is None else "\n".join(x.rstrip() for x in h.expandtabs().split("\n")) for h in helps]


def _help_shape(helps):
    return [None if h is None else [x.strip() for x in h.split("\n")] for h in helps]


_C18_REF_CACHE = {}   # canonical text -> (reported OK by the checker, {parser version: c18_load result}); per process, tiny


def _c18_eval_mangled(acc, d, text, canon, meaning=True):
    """
    The contract proper, on directory d (sourced files already there).  Returns None if the precondition does not hold
    (the file does not mean the same as the canonical one under BOTH parsers), else (problems, passes).
    """
    path = os.path.join(d, "Kconfig")
    if meaning:
        # what the checker and the parsers make of the canonical file does not depend on the directory: computed once per
        # canonical text and worker (run_c18 puts all manglings of one canonical file into the same chunk)
        cached = _C18_REF_CACHE.get(canon)
        if cached is None:
            _write(path, canon)
            res, exc, logtext = _validate(path, False)
            if os.path.exists(path + ".new"):
                os.remove(path + ".new")
            cached = (res is True, {v: c18_load(d, v) for v in (1, 2)} if res is True else None)
            if len(_C18_REF_CACHE) >= 4:
                _C18_REF_CACHE.clear()
            _C18_REF_CACHE[canon] = cached
        if not cached[0]:
            return None      # the canonical file itself is (wrongly) flagged: reported by the compliant-file contract
        ref = cached[1]
        _write(path, text)
        before = {v: c18_load(d, v) for v in (1, 2)}
        in_scope = [v for v in (1, 2) if ref[v][0] != "error" and before[v][0] != "error"
                    and before[v][0] == ref[v][0] and before[v][2] == ref[v][2] and _help_shape(before[v][1]) == _help_shape(ref[v][1])]
        readers = [v for v in (1, 2) if ref[v][0] != "error"]     # parsers that can load the canonical file at all
        if not in_scope or len(in_scope) < len(readers):
            # Precondition of the second sentence of the property: "a file whose ONLY defects are indentation width, tabs
            # or trailing whitespace", whose fixed point "BOTH parsers read as the same configuration as the original".
            # A mangled file that a parser which reads the canonical file rejects, or reads as another configuration
            # (e.g. alternating tab / blank indentation that puts a help text to the left of its "\t\t\thelp" keyword once
            # tabs are expanded to 8 columns: parser 2 stops with "Help block must be indented more than the help
            # keyword") has a defect beyond whitespace style and no single "original configuration": out of scope.
            if in_scope:
                acc.stat("c18:mangled_out_of_scope:read_like_canonical_by_parser_%d_only" % in_scope[0])
            return None
    else:
        _write(path, text)
        in_scope, before = [], {}
    problems = []
    ok, res, passes = False, None, 0
    for i in range(C18_PASS_BOUND):
        res, exc, logtext = _validate(path, True)
        acc.ev()
        passes = i + 1
        if exc is not None:
            problems.append(("abort", "validate_file(replace=True) raised %s in pass %d; log: %s"
                             % (exc, i + 1, " | ".join(x.strip() for x in logtext.splitlines() if "rror" in x or "FATAL" in x or "stack" in x)[-300:])))
            break
        if os.path.exists(path + ".new"):
            problems.append(("new_left", ".new left behind by --replace pass %d" % (i + 1)))
            os.remove(path + ".new")
        if res is True:
            ok = True
            break
    if os.path.exists(path + ".new"):
        os.remove(path + ".new")
    fixed = _read(path)
    if not ok and not problems:
        problems.append(("no_convergence", "not reported OK within %d --replace passes" % C18_PASS_BOUND))
    if ok:
        res, exc, logtext = _validate(path, True)
        acc.ev()
        if exc is not None or res is not True or _read(path) != fixed:
            problems.append(("not_fixed_point", "a further --replace pass on the file reported OK is not the identity (%r, %s)" % (res, exc)))
        res, exc, logtext = _validate(path, False)
        acc.ev()
        if exc is not None or res is not True or os.path.exists(path + ".new") or _read(path) != fixed:
            problems.append(("not_fixed_point", "plain check of the fixed file: result %r, exception %s, .new exists %s"
                             % (res, exc, os.path.exists(path + ".new"))))
        if os.path.exists(path + ".new"):
            os.remove(path + ".new")
        _write(path, fixed)
        for v in in_scope:
            acc.ev()
            b = before[v]
            a = c18_load(d, v)
            if a[0] == "error":
                problems.append(("meaning_parse_error", "parser %d reads the original but not the fixed file: %s" % (v, a[1])))
            elif a[0] != b[0]:
                problems.append(("meaning_structure", "parser %d: node tree differs, first difference %s" % (v, _first_diff(b[0], a[0]))))
            elif a[2] != b[2]:
                problems.append(("meaning_values", "parser %d: snapshot differs: %s" % (v, _first_diff(sorted(b[2].items()), sorted(a[2].items())))))
            elif _norm_help(a[1]) != _norm_help(b[1]):
                problems.append(("meaning_help", "parser %d: help text differs, first difference %s" % (v, _first_diff(_norm_help(b[1]), _norm_help(a[1])))))
    return problems, (passes if ok else None)


def c18_case_mangled(acc, frag_tags, wrapper, mname, rng_seed):
    """One mangled case; returns list of (class, contract, detail, script, size)."""
    lines, files = c18_file(frag_tags, wrapper)
    canon = c18_text(lines)
    mlines = C18_MANGLERS[mname](lines, random.Random(rng_seed))
    text = c18_text(mlines)
    if text == canon:
        return []
    d = tempfile.mkdtemp(prefix="rtc18_")
    out = []
    try:
        for name, t in files.items():
            _write(os.path.join(d, name), t)
        r = _c18_eval_mangled(acc, d, text, canon)
        if r is None:
            acc.stat("c18:mangled_out_of_scope:" + mname)
            return []
        problems, passes = r
        if passes is not None:
            acc.nt("c18m:%s:%s:%s" % ("+".join(frag_tags), wrapper, mname))
            acc.stat("c18:passes=%d" % passes)
        if problems:
            mech = c18_mechanisms(lines, mlines)
            allfiles = dict(files)
            allfiles["Kconfig"] = text
            script = _c18_script(allfiles, "Kconfig", "mangled", canon)
            seen = set()
            scratch = _Acc()
            for sym, detail in problems:
                if sym in seen:
                    continue
                seen.add(sym)
                # which mechanism is causal?  restore the lines exhibiting it to the canonical text and re-evaluate
                cause = None
                cands = [m for m in C18_MECH_PRIORITY if m in mech]
                if len(cands) == 1:
                    cause = cands[0]
                elif sym == "meaning_help" and "help-relative-indent" in cands:
                    cause = "help-relative-indent"
                for m in (cands if cause is None else ()):
                    restored = list(mlines)
                    for i in mech[m]:
                        restored[i] = lines[i]
                    r2 = _c18_eval_mangled(scratch, d, c18_text(restored), canon, meaning=sym.startswith("meaning"))
                    if r2 is not None and sym not in [x for x, _ in r2[0]]:
                        cause = m
                        break
                if cause is None:
                    cause = "joint[%s]" % "+".join(cands) if cands else "unexplained[%s]" % mname
                cc = "c18:mangled:%s:%s" % (sym, cause)
                out.append((cc, "validate_file(replace=True) repeated: converges within %d passes to a fixed point that is reported OK and "
                            "that parser 1 and 2 read like the original" % C18_PASS_BOUND,
                            "fragments=%s wrapper=%s mangling=%s (weak spots touched: %s): %s"
                            % ("+".join(frag_tags), wrapper, mname, ",".join(sorted(mech)), detail), script, len(text)))
        return out
    finally:
        shutil.rmtree(d, ignore_errors=True)


def c18_case_compliant(acc, frag_tags, wrapper):
    lines, files = c18_file(frag_tags, wrapper)
    text = c18_text(lines)
    problems = c18_check_compliant(acc, None, text, files)
    acc.nt("c18c:%s:%s" % ("+".join(frag_tags), wrapper))
    out = []
    if problems:
        allfiles = dict(files)
        allfiles["Kconfig"] = text
        script = _c18_script(allfiles, "Kconfig", "compliant")
        seen = set()
        for sym, detail in problems:
            if sym in seen:
                continue
            seen.add(sym)
            if sym.startswith("flagged:"):
                first = [s for s, _ in problems if s.startswith("flagged:")][0]
                cc = "c18:compliant:" + first
            else:
                flagged = [s for s, _ in problems if s.startswith("flagged:")]
                cc = "c18:compliant:%s%s" % (sym, (":" + flagged[0][8:]) if flagged else "")
            out.append((cc, "validate_file: a file in the documented style is reported OK, left byte-identical, no .new remains",
                        "fragments=%s wrapper=%s: %s" % ("+".join(frag_tags), wrapper, detail), script, len(text)))
    return out


# ---- sdkconfig.rename files -------------------------------------------------------------------------------------------

def c18_rename_files():
    """(tag, canonical text) of compliant sdkconfig.rename files."""
    return [
        ("plain", "CONFIG_RTC_OLD_A CONFIG_RTC_NEW_A\nCONFIG_RTC_OLD_B CONFIG_RTC_NEW_B\n"),
        ("comments_blank", "# a comment\n\nCONFIG_RTC_OLD_A CONFIG_RTC_NEW_A\n\n# another\nCONFIG_RTC_OLD_B CONFIG_RTC_NEW_B\n"),
        ("inversion", "CONFIG_RTC_OLD_A !CONFIG_RTC_NEW_A\nCONFIG_RTC_OLD_B CONFIG_RTC_NEW_B\n"),
        ("two_aliases", "CONFIG_RTC_OLD_A CONFIG_RTC_NEW_A\nCONFIG_RTC_OLDER_A CONFIG_RTC_NEW_A\nCONFIG_RTC_INV_A !CONFIG_RTC_NEW_A\n"),
        ("inline_comment", "CONFIG_RTC_OLD_A CONFIG_RTC_NEW_A # why\nCONFIG_RTC_OLD_B    CONFIG_RTC_NEW_B\n"),
        ("lowercase_old", "CONFIG_rtc_old_a CONFIG_RTC_NEW_A\n"),
    ]


def _m_ren_trail(text):
    return "".join((ln + " \n") if ln else "  \n" for ln in text.split("\n")[:-1])


def _m_ren_tabsep(text):
    return "".join(re.sub(r"(?<=\S) +(?=\S)", "\t", ln, count=1) + "\n" if not ln.startswith("#") else ln + "\n" for ln in text.split("\n")[:-1])


def _m_ren_trail_tab(text):
    return "".join((ln + "\t\n") for ln in text.split("\n")[:-1])


C18_RENAME_MANGLERS = {"trail_space": _m_ren_trail, "tab_separator": _m_ren_tabsep, "trail_tab": _m_ren_trail_tab}

_REN_KCONFIG = 'mainmenu "R"\n\n    config RTC_NEW_A\n        bool "a"\n        default y\n\n    config RTC_NEW_B\n        bool "b"\n'


def _rename_reading(dirpath, version):
    """What parser <version> makes of <dirpath>/sdkconfig.rename: (old->new, inversions) or ('error', text)."""
    G.reset_library_report()
    try:
        with G.controlled_env({"srctree": dirpath}):
            kconf = K.Kconfig(os.path.join(dirpath, "Kconfig"), parser_version=version)
            kconf.load_rename_files([os.path.join(dirpath, "sdkconfig.rename")])
        dep = None
        for attr in ("deprecated_options", "_deprecated_options", "deprecated"):
            dep = getattr(kconf, attr, None)
            if dep is not None and hasattr(dep, "r_dic"):
                break
        if dep is None or not hasattr(dep, "r_dic"):
            raise RuntimeError("cannot find DeprecatedOptions on Kconfig")
        return (sorted(dep.r_dic.items()), sorted(dep.inversions))
    except BaseException as e:  # noqa: BLE001
        if isinstance(e, KeyboardInterrupt):
            raise
        return ("error", "%s: %s" % (type(e).__name__, str(e)[:200]))


def c18_rename_cases(acc):
    out = []
    for tag, canon in c18_rename_files():
        problems = c18_check_compliant(acc, None, canon, {}, main="sdkconfig.rename")
        acc.nt("c18r:" + tag)
        for sym, detail in problems:
            out.append(("c18:rename:compliant:" + sym, "validate_file(sdkconfig.rename): compliant file reported OK, byte-identical, no .new",
                        "rename file %s: %s" % (tag, detail), _c18_script({"sdkconfig.rename": canon}, "sdkconfig.rename", "compliant"), len(canon)))
        for mname, m in sorted(C18_RENAME_MANGLERS.items()):
            text = m(canon)
            if text == canon:
                continue
            d = tempfile.mkdtemp(prefix="rtc18r_")
            try:
                _write(os.path.join(d, "Kconfig"), _REN_KCONFIG)
                path = os.path.join(d, "sdkconfig.rename")
                _write(path, canon)
                ref = {v: _rename_reading(d, v) for v in (1, 2)}
                _write(path, text)
                before = {v: _rename_reading(d, v) for v in (1, 2)}
                in_scope = [v for v in (1, 2) if before[v][0] != "error" and before[v] == ref[v]]
                if not in_scope:
                    acc.stat("c18:rename_out_of_scope:" + mname)
                    continue
                probs = []
                ok = False
                for i in range(C18_PASS_BOUND):
                    res, exc, logtext = _validate(path, True)
                    acc.ev()
                    if exc is not None:
                        probs.append(("abort", "validate_file raised %s" % exc))
                        break
                    if os.path.exists(path + ".new"):
                        probs.append(("new_left", ".new left behind by --replace"))
                        os.remove(path + ".new")
                    if res is True:
                        ok = True
                        break
                if not ok and not probs:
                    probs.append(("no_convergence", "not reported OK within %d passes" % C18_PASS_BOUND))
                fixed = _read(path)
                if ok:
                    acc.nt("c18rm:%s:%s" % (tag, mname))
                    res, exc, logtext = _validate(path, True)
                    acc.ev()
                    if res is not True or _read(path) != fixed:
                        probs.append(("not_fixed_point", "further pass not the identity"))
                    for v in in_scope:
                        acc.ev()
                        if _rename_reading(d, v) != before[v]:
                            probs.append(("meaning", "parser %d reads other renames: %r -> %r" % (v, before[v], _rename_reading(d, v))))
                for sym, detail in probs:
                    out.append(("c18:rename:mangled:%s:%s" % (sym, mname), "validate_file(sdkconfig.rename, replace=True) repeated: converges, fixed point, same renames",
                                "rename file %s mangling %s: %s" % (tag, mname, detail),
                                _c18_script({"sdkconfig.rename": text, "Kconfig": _REN_KCONFIG}, "sdkconfig.rename", "mangled"), len(text)))
            finally:
                shutil.rmtree(d, ignore_errors=True)
    return out


# ---- CLI contract ---------------------------------------------------------------------------------------------------

def _run_cli(args, cwd, env_extra=None, timeout=120):
    env = dict(os.environ)
    env["PYTHONPATH"] = REPO + (os.pathsep + env["PYTHONPATH"] if env.get("PYTHONPATH") else "")
    env.pop("IDF_PATH", None)
    env.update(env_extra or {})
    p = subprocess.run([PY, "-m", "kconfcheck"] + list(args), cwd=cwd, env=env, stdout=subprocess.PIPE, stderr=subprocess.PIPE,
                       timeout=timeout)
    txt = (p.stdout + p.stderr).decode("utf-8", "replace")
    return p.returncode, re.sub(r"\x1b\[[0-9;]*m", "", txt)


C18_CLI_SCRIPT = SCRIPT_HEAD + '''
import subprocess
DIRS = %(dirs)r     # list of {file name -> text}; each dict is one directory whose "Kconfig" is passed to the CLI
MODE = %(mode)r     # "compliant" | "mangled"
BOUND = %(bound)d
root = tempfile.mkdtemp(prefix="c18cli")
bad = []
try:
    paths = []
    for i, files in enumerate(DIRS):
        d = os.path.join(root, "d%%d" %% i); os.makedirs(d)
        for n, t in files.items():
            open(os.path.join(d, n), "w", newline="\\n").write(t)
        paths.append(os.path.join(d, "Kconfig"))
    env = dict(os.environ, PYTHONPATH=REPO)
    def cli(*a):
        p = subprocess.run([sys.executable, "-m", "kconfcheck"] + list(a) + paths, cwd=root, env=env, stdout=subprocess.PIPE, stderr=subprocess.STDOUT)
        return p.returncode, p.stdout.decode()
    if MODE == "compliant":
        for extra in ((), ("--replace",)):
            rc, out = cli(*extra)
            if rc != 0: bad.append("exit status %%d for compliant files %%s\\n%%s" %% (rc, extra, out[-600:]))
            for p_, files in zip(paths, DIRS):
                if open(p_, newline="").read() != files["Kconfig"]: bad.append("%%s changed" %% p_)
                if os.path.exists(p_ + ".new"): bad.append("%%s.new left behind" %% p_); os.remove(p_ + ".new")
    else:
        rc = None
        for i in range(BOUND):
            rc, out = cli("--replace")
            if rc == 0: break
        if rc != 0: bad.append("exit status still %%r after %%d --replace runs\\n%%s" %% (rc, BOUND, out[-600:]))
        snap = [open(p_, newline="").read() for p_ in paths]
        rc, out = cli("--replace")
        if rc != 0 or snap != [open(p_, newline="").read() for p_ in paths]: bad.append("further --replace run is not the identity")
        if any(os.path.exists(p_ + ".new") for p_ in paths): bad.append(".new left behind")
finally:
    shutil.rmtree(root, ignore_errors=True)
for b in bad: print("VIOLATION:", b)
sys.exit(1 if bad else 0)
'''


def c18_cli_case(acc, which):
    """
    CLI `python -m kconfcheck` on several files in one invocation.
    which = ("compliant", [ (tags, wrapper), ... ]) or ("mangled", [ (tags, wrapper, mangler), ... ])
    """
    mode, specs = which
    out = []
    root = tempfile.mkdtemp(prefix="rtc18cli_")
    try:
        paths, texts, dirs, inproc = [], [], [], []
        for i, sp in enumerate(specs):
            lines, files = c18_file(sp[0], sp[1])
            if mode == "mangled":
                lines = C18_MANGLERS[sp[2]](lines, random.Random(1))
            text = c18_text(lines)
            d = os.path.join(root, "d%d" % i)
            for name, t in files.items():
                _write(os.path.join(d, name), t)
            _write(os.path.join(d, "Kconfig"), text)
            paths.append(os.path.join(d, "Kconfig"))
            texts.append(text)
            allf = dict(files)
            allf["Kconfig"] = text
            dirs.append(allf)
        script = C18_CLI_SCRIPT % {"dirs": dirs, "mode": mode, "bound": C18_PASS_BOUND}
        contract = ("python -m kconfcheck [--replace] <files>: exit status 0 and `<file>: OK` for every compliant file, bytes unchanged, no .new; "
                    "for whitespace-only defects exit status 0 within %d --replace runs, then identity, and the same bytes as "
                    "validate_file(replace=True) produces in-process" % C18_PASS_BOUND)
        if mode == "compliant":
            for extra in ([], ["--replace"]):
                rc, txt = _run_cli(extra + paths, root)
                acc.ev()
                probs = []
                if rc != 0:
                    probs.append("exit status %d" % rc)
                for p_, t in zip(paths, texts):
                    if ("%s: OK" % p_) not in txt.replace("\n", ""):
                        probs.append("no `OK` line for %s" % os.path.relpath(p_, root))
                    if _read(p_) != t:
                        probs.append("%s changed" % os.path.relpath(p_, root))
                        _write(p_, t)
                    if os.path.exists(p_ + ".new"):
                        probs.append("%s.new left behind" % os.path.relpath(p_, root))
                        os.remove(p_ + ".new")
                if probs:
                    classes = sorted(set(_msg_class(x) for x in txt.splitlines() if re.search(r":\d+: ", x))) or ["no-message"]
                    for m in classes:
                        out.append(("c18:cli:compliant:" + m, contract, "kconfcheck %s on %d compliant files: %s; output: %s"
                                    % (" ".join(extra), len(paths), "; ".join(probs[:4]), txt[-300:]), script, sum(map(len, texts))))
                else:
                    acc.nt("c18cli:compliant:%s:%d" % ("r" if extra else "c", len(paths)))
        else:
            # in-process reference: the same loop with validate_file on copies
            ref = []
            for i, t in enumerate(texts):
                d2 = os.path.join(root, "r%d" % i)
                shutil.copytree(os.path.join(root, "d%d" % i), d2)
                p2 = os.path.join(d2, "Kconfig")
                for _ in range(C18_PASS_BOUND):
                    res, exc, _lt = _validate(p2, True)
                    if res is True or exc is not None:
                        break
                ref.append(_read(p2))
            rc, txt = None, ""
            n_runs = 0
            for _ in range(C18_PASS_BOUND):
                rc, txt = _run_cli(["--replace"] + paths, root)
                acc.ev()
                n_runs += 1
                if rc == 0:
                    break
            probs = []
            if rc != 0:
                probs.append("exit status still %r after %d --replace runs" % (rc, n_runs))
            got = [_read(p_) for p_ in paths]
            if got != ref:
                probs.append("bytes differ from the in-process validate_file loop for %s"
                             % [os.path.relpath(p_, root) for p_, a, b in zip(paths, got, ref) if a != b])
            rc2, txt2 = _run_cli(["--replace"] + paths, root)
            acc.ev()
            if rc == 0 and (rc2 != 0 or [_read(p_) for p_ in paths] != got):
                probs.append("a further --replace run is not the identity (exit %d)" % rc2)
            if any(os.path.exists(p_ + ".new") for p_ in paths):
                probs.append(".new left behind")
            if probs:
                out.append(("c18:cli:mangled:" + re.sub(r"[^a-z]+", "-", probs[0].lower())[:40], contract,
                            "kconfcheck --replace on %d mangled files %r: %s; output: %s" % (len(paths), [s[2] for s in specs], "; ".join(probs), txt[-300:]),
                            script, sum(map(len, texts))))
            else:
                acc.nt("c18cli:mangled:%d:%d" % (len(paths), n_runs))
    finally:
        shutil.rmtree(root, ignore_errors=True)
    return out


# ---- scope / runner ---------------------------------------------------------------------------------------------------

C18_SAFE_CLI_MANGLED = [(["bool"], "top", "w2"), (["int_range"], "menu", "tab_level"), (["choice_named"], "top", "trail_space"),
                        (["cont3"], "top", "w2+trail"), (["menu_nested"], "top", "w8+inner_tab"), (["orsource_a_after_config"], "menu", "w3")]


def c18_work(tier, seed):
    rng = random.Random(1000003 * seed + 18)
    tags = list(C18_FRAG_TAGS)
    work = []
    for w in C18_WRAPPERS:
        for t in tags:
            work.append(("compliant", (t,), w))
    pairs = [(a, b) for a in tags for b in tags]
    for a, b in pairs:
        work.append(("compliant", (a, b), "top"))
    if tier == "thorough":
        for a, b in pairs:
            for w in ("menu", "menu_if", "deep", "nomain"):
                work.append(("compliant", (a, b), w))
        triples = [tuple(rng.sample(tags, 3)) for _ in range(3000)]
        for tr in triples:
            work.append(("compliant", tr, rng.choice(C18_WRAPPERS)))
    mnames = sorted(C18_MANGLERS)
    for w in (("top", "deep") if tier == "quick" else ("top", "menu", "deep")):
        for t in tags:
            for m in mnames:
                work.append(("mangled", (t,), w, m, 1))
    n_pairs = 20 if tier == "quick" else 700
    for a, b in rng.sample(pairs, n_pairs):
        w = rng.choice(("top", "menu", "menu_if", "deep"))
        for m in mnames:
            work.append(("mangled", (a, b), w, m, rng.randrange(1 << 30)))
    if tier == "thorough":
        for w in ("menu_if", "if_top"):
            for t in tags:
                for m in mnames:
                    work.append(("mangled", (t,), w, m, 2))
        for t in tags:
            for s in range(8):
                work.append(("mangled", (t,), "menu", "jitter", 100 + s))
    work.append(("rename",))
    work.append(("cli", ("compliant", [((t,), "top") for t in tags])))
    work.append(("cli", ("compliant", [((t,), "deep") for t in tags[::3]] + [((t,), "nomain") for t in tags[1::3]])))
    work.append(("cli", ("mangled", C18_SAFE_CLI_MANGLED[:3])))
    work.append(("cli", ("mangled", C18_SAFE_CLI_MANGLED[3:])))
    return work


def _c18_worker(chunk):
    _quiet()
    acc = _Acc()
    for w in chunk:
        t_w = time.time()
        try:
            if w[0] == "compliant":
                vs = c18_case_compliant(acc, list(w[1]), w[2])
            elif w[0] == "mangled":
                vs = c18_case_mangled(acc, list(w[1]), w[2], w[3], w[4])
            elif w[0] == "rename":
                vs = c18_rename_cases(acc)
            else:
                vs = c18_cli_case(acc, w[1])
        except Exception:  # noqa: BLE001 - a bug of the driver, not of the library
            acc.stat("checker_error")
            acc.stats.setdefault("checker_error_text", traceback.format_exc()[-1500:])
            continue
        acc.stat("ms:" + w[0], int(1000 * (time.time() - t_w)))
        for cc, contract, detail, script, size in vs:
            acc.violation(cc, contract, detail, script, size)
        if w[0] in ("mangled",) and len(acc.samples) < 2:
            acc.sample({"kind": w[0], "fragments": list(w[1]), "wrapper": w[2], "mangling": w[3]})
        elif w[0] == "compliant" and len(acc.samples) < 1:
            acc.sample({"kind": w[0], "fragments": list(w[1]), "wrapper": w[2]})
    return acc.dump()


def run_c18(tier, seed, jobs):
    work = c18_work(tier, seed)
    # the slow CLI items first so that they overlap with the rest
    work.sort(key=lambda w: 0 if w[0] == "cli" else 1)
    heavy = [w for w in work if w[0] in ("cli", "rename")]
    light = [w for w in work if w[0] not in ("cli", "rename")]
    # all manglings of one canonical file stay together in one chunk (the canonical file is then read only once there)
    units = []
    for w in light:
        key = (w[1], w[2]) if w[0] == "mangled" else None
        if key is not None and units and units[-1][0] == key:
            units[-1][1].append(w)
        else:
            units.append((key, [w]))
    chunks = [[h] for h in heavy] + [[w for _, ws in c for w in ws] for c in _chunks(units, max(1, jobs) * 4)]
    acc = _Acc()
    for d in _pool_map(_c18_worker, chunks, jobs):
        acc.merge(d)
    n_c = sum(1 for w in work if w[0] == "compliant")
    n_m = sum(1 for w in work if w[0] == "mangled")
    bound = ("Kconfig files rendered in kconfcheck's documented style from %d hand-written fragments (all entry kinds: config/menuconfig of every "
             "type, promptless, prompt keyword, menus nested 3 deep with depends on/visible if, named/unnamed choices with help, if blocks, comment "
             "entries, select/imply/set, '#' comments at level / column 0 / inline, help with blank lines / deeper lines / lines starting with "
             "keywords, backslash continuations over 2, 3 and 4 physical lines, source/rsource/osource/orsource (existing and absent files, env "
             "var path) after a config, after help, first in block, inside and after a menu, after a comment) x wrappers %s; compliant clause: "
             "%d files (all single fragments x 6 wrappers, all ordered pairs x {top}%s); mangled clause: %d files = fragments/pairs x wrappers "
             "x %d whitespace manglings (level width 1,2,3,5,6,8; tab per level; tab per 8 columns; mixed; shift by 2; trailing blanks / tabs; tab "
             "between tokens; random per-line indentation; compositions), only those that every parser which loads the canonical file (1 and 2) still reads like the canonical file; "
             "%d sdkconfig.rename files x 3 manglings; 4 CLI invocations with up to %d files; pass bound %d"
             % (len(C18_FRAG_TAGS), list(C18_WRAPPERS), n_c, ", all ordered pairs x the other wrappers and 3000 random triples" if tier == "thorough" else "",
                n_m, len(C18_MANGLERS), len(c18_rename_files()), len(C18_FRAG_TAGS), C18_PASS_BOUND))
    rule = ("exhaustive over single fragments and ordered pairs; the seed selects which %d pairs (and their wrapper / jitter seeds) get all "
            "manglings%s" % (20 if tier == "quick" else 700, " and the random triples" if tier == "thorough" else ""))
    contracts = [
        "kconfcheck.core.validate_file(path, replace=False|True) on a file in the documented style: returns True, file bytes unchanged, no <file>.new, directory listing unchanged",
        "kconfcheck.core.validate_file(path, replace=True) repeated on a file whose only defects are indentation width / tabs / trailing blanks: "
        "never aborts, leaves no .new, returns True within %d passes; one more pass (and a plain check) returns True and is the identity; "
        "Kconfig(parser_version=1) and Kconfig(parser_version=2) of the result have the same node tree (all nodes, all properties, line numbers), "
        "the same gen.snapshot() and the same help texts as those of the file before fixing" % C18_PASS_BOUND,
        "the same two contracts for sdkconfig.rename files (meaning = old->new map and inversions loaded by Kconfig.load_rename_files under both parsers)",
        "python -m kconfcheck [--replace] f1..fn: exit status 0 / `OK` per compliant file / bytes unchanged / no .new; on mangled files exit 0 within "
        "%d runs, then identity, bytes equal to the in-process validate_file loop" % C18_PASS_BOUND,
    ]
    return acc, bound, rule, contracts


# ======================================================================================================================
# C19 -- kconfcheck --check deprecated: the verdict of a defaults file depends only on the file's own scope
# ======================================================================================================================
#
# Scope objects
#   layout   dict  relative path -> text   (everything below one temp root; "idf" is $IDF_PATH)
#   variant  how the global scope is configured for one invocation: IDF_PATH, explicitly passed rename files, --includes
#   history  the ordered list of defaults files handed to ONE invocation (fresh caches), i.e. what kconfcheck.core.main
#            does:  _prepare_deprecated_options(includes, (), files)  then  check_deprecated_options(f, ...) for f in files
#
# Probe files: in every "probe directory" there is one defaults file per old name of the layout
# (sdkconfig.defaults.<name> / sdkconfig.ci.<name>, each assigning exactly that one option), so that the verdict bit of a
# file says which (directory, old name) pair the checker considers in scope; plus multi-line files.
#
# Oracle (written from the statement + docs/en/kconfcheck/index.rst "sdkconfig.rename file scope", un-memoised, computed
# on the layout dict, never on the checker's data structures):
#   project(d)   = nearest ancestor-or-self directory of d whose CMakeLists.txt has a project( call; the IDF root itself is
#                  the global scope, not a user project
#   GLOBAL       = old names of  $IDF_PATH/sdkconfig.rename, every sdkconfig.rename below $IDF_PATH/components, every rename
#                  file passed explicitly, every sdkconfig.rename below an --includes directory
#   LOCAL(P)     = old names of every sdkconfig.rename r with project(dir(r)) == P
#   flagged(f)  <=>  assigned(f) & (GLOBAL | LOCAL(project(dir(f)))) != {}          (LOCAL(None) = {})

_C19_PROJECT_CALL = re.compile(r"[ \t]*project[ \t]*\(")


def _c19_is_project(layout, d):
    text = layout.get((d + "/" if d else "") + "CMakeLists.txt")
    if text is None:
        return False
    return any(_C19_PROJECT_CALL.match(line) for line in text.split("\n"))


def _c19_parent(d):
    return d.rsplit("/", 1)[0] if "/" in d else ("" if d else None)


def c19_project(layout, d, idf):
    """Nearest enclosing user project of directory d ('' = temp root), or None.  No memoisation on purpose."""
    cur = d
    while cur is not None:
        if _c19_is_project(layout, cur):
            return None if cur == idf else cur
        cur = _c19_parent(cur)
    return None


def _c19_lhs(text, sep):
    out = set()
    for line in text.split("\n"):
        line = line.strip()
        if line and not line.startswith("#"):
            out.add(line.split(sep)[0] if sep else line.split()[0])
    return out


def _c19_under(path, d):
    return d == "" or path == d or path.startswith(d + "/")


def c19_rename_files(layout):
    return sorted(p for p in layout if p.rsplit("/", 1)[-1] == "sdkconfig.rename")


def c19_scopes(layout, variant):
    """(GLOBAL: name -> sorted list of reasons, LOCAL: project -> {name: [rename file]})"""
    idf = variant["idf"]
    glob = {}

    def g(path, why):
        for n in _c19_lhs(layout[path], None):
            glob.setdefault(n, []).append(why)

    root_rename = (idf + "/" if idf else "") + "sdkconfig.rename"
    if root_rename in layout:
        g(root_rename, "idf-root")
    comp = (idf + "/" if idf else "") + "components"
    for p in c19_rename_files(layout):
        if _c19_under(p, comp) and p != comp:
            g(p, "components")
    for p in variant.get("explicit", ()):
        g(p, "explicit")
    for inc in variant.get("includes", ()):
        for p in c19_rename_files(layout):
            if _c19_under(p, inc):
                g(p, "included")
    local = {}
    for p in c19_rename_files(layout):
        proj = c19_project(layout, _c19_parent(p), idf)
        if proj is not None:
            for n in _c19_lhs(layout[p], None):
                local.setdefault(proj, {}).setdefault(n, []).append(p)
    return glob, local


def c19_expected(layout, variant, f, scopes=None):
    """(flagged?, {name: reason}) for defaults file f (relative path)."""
    glob, local = scopes or c19_scopes(layout, variant)
    proj = c19_project(layout, _c19_parent(f), variant["idf"])
    hits = {}
    for n in sorted(_c19_lhs(layout[f], "=")):
        if n in glob:
            hits[n] = "global:" + "+".join(sorted(set(glob[n])))
        elif proj is not None and n in local.get(proj, {}):
            where = sorted(set("root" if _c19_parent(r) == proj else "subdir" for r in local[proj][n]))
            hits[n] = "own-project:" + "+".join(where)
    return bool(hits), hits


def c19_relation(layout, variant, f, name):
    """How the rename files that list `name` as an old name relate to defaults file f (for class ids; sorted, '+'-joined)."""
    idf = variant["idf"]
    fproj = c19_project(layout, _c19_parent(f), idf)
    rel = set()
    for p in sorted(layout):
        base = p.rsplit("/", 1)[-1]
        if not base.startswith("sdkconfig.rename") or name not in _c19_lhs(layout[p], None):
            continue
        if base != "sdkconfig.rename":
            rel.add("target-specific-rename-file")
            continue
        rproj = c19_project(layout, _c19_parent(p), idf)
        if rproj is None:
            rel.add("orphan-rename-file")
        elif fproj is None:
            rel.add("project-of-no-concern-to-orphan-file")
        elif rproj == fproj:
            rel.add("own-project")
        elif _c19_under(rproj, fproj):
            rel.add("nested-project")
        elif _c19_under(fproj, rproj):
            rel.add("enclosing-project")
        else:
            rel.add("sibling-project")
    return "+".join(sorted(rel)) or "not-an-old-name-anywhere"


def _c19_rel_atoms(layout, variant, f, names):
    atoms = set()
    for n in names:
        atoms.update(c19_relation(layout, variant, f, n).split("+"))
    atoms.discard("not-an-old-name-anywhere")
    return "+".join(sorted(atoms)) or "not-an-old-name-anywhere"


# ---- layouts ----------------------------------------------------------------------------------------------------------

_C19_PROJ = "cmake_minimum_required(VERSION 3.22)\nproject(%s)\n"
_C19_COMP = "idf_component_register(SRCS \"x.c\")\n"


def _c19_add_probes(layout, probe_dirs, names):
    """One single-assignment defaults file per (probe dir, old name) + a clean one + two multi-line ones."""
    probes = []
    for i, d in enumerate(probe_dirs):
        for j, n in enumerate(names):
            short = n[len("CONFIG_"):].lower()
            base = ("sdkconfig.defaults.%s" if (i + j) % 2 == 0 else "sdkconfig.ci.%s") % short
            p = d + "/" + base
            layout[p] = "%s=%s\n" % (n, ("y", "n", "42", '"s"')[(i + j) % 4])
            probes.append(p)
        p = d + "/sdkconfig.defaults"
        layout[p] = "# nothing deprecated here\nCONFIG_SOMETHING_CURRENT=y\n\n# %s=y\n" % names[i % len(names)]
        probes.append(p)
        p = d + "/sdkconfig.ci.multi"
        layout[p] = ("# three assignments, old names of three different rename files\nCONFIG_SOMETHING_CURRENT=y\n%s=y\n\n  %s=n\n%s=1\n"
                     % (names[i % len(names)], names[(i + 3) % len(names)], names[(i + 7) % len(names)]))
        probes.append(p)
    return probes


def c19_hand_layout(idf_is_project=True, idf_in_super_project=False):
    """The hand-written layout: (layout, probe files, names)."""
    L = {}
    if idf_is_project:
        L["idf/CMakeLists.txt"] = "cmake_minimum_required(VERSION 3.22)\ninclude(tools/cmake/x.cmake)\nproject(esp-idf C CXX ASM)\n"
    if idf_in_super_project:
        L["CMakeLists.txt"] = _C19_PROJ % "super"
        L["sdkconfig.rename"] = "CONFIG_SUPER_OLD CONFIG_SUPER_NEW\n"
    L["idf/sdkconfig.rename"] = "# framework wide\nCONFIG_ROOT_OLD CONFIG_ROOT_NEW\n\nCONFIG_ROOTINV_OLD !CONFIG_ROOTINV_NEW\n"
    L["idf/sdkconfig.rename.esp32"] = "CONFIG_ROOTTGT_OLD CONFIG_ROOTTGT_NEW\n"
    L["idf/components/c1/CMakeLists.txt"] = _C19_COMP
    L["idf/components/c1/sdkconfig.rename"] = "CONFIG_COMP_OLD CONFIG_COMP_NEW\n"
    L["idf/components/c1/sub/deep/sdkconfig.rename"] = "CONFIG_COMPDEEP_OLD    CONFIG_COMPDEEP_NEW   # aligned\n"
    L["idf/components/c1/test_apps/CMakeLists.txt"] = _C19_PROJ % "c1_test"
    L["idf/components/c1/test_apps/sdkconfig.rename"] = "CONFIG_CTEST_OLD CONFIG_CTEST_NEW\n"
    L["idf/examples/pa/CMakeLists.txt"] = _C19_PROJ % "pa"
    L["idf/examples/pa/sdkconfig.rename"] = "CONFIG_PA_OLD CONFIG_PA_NEW\nCONFIG_SHARED_OLD CONFIG_SHARED_NEW\n"
    L["idf/examples/pa/sdkconfig.rename.esp32"] = "CONFIG_PATGT_OLD CONFIG_PATGT_NEW\n"
    L["idf/examples/pa/main/CMakeLists.txt"] = _C19_COMP
    L["idf/examples/pa/main/sdkconfig.rename"] = "\n# in a sub directory of the project\nCONFIG_PAMAIN_OLD !CONFIG_PAMAIN_NEW\n"
    L["idf/examples/pb/CMakeLists.txt"] = "cmake_minimum_required(VERSION 3.22)\n  project (pb)\n"
    L["idf/examples/pb/main/sdkconfig.rename"] = "CONFIG_PB_OLD CONFIG_PB_NEW\n"
    L["idf/examples/outer/CMakeLists.txt"] = _C19_PROJ % "outer"
    L["idf/examples/outer/sdkconfig.rename"] = "CONFIG_OUTER_OLD CONFIG_OUTER_NEW\n"
    L["idf/examples/outer/host_test/CMakeLists.txt"] = _C19_PROJ % "inner"
    L["idf/examples/outer/host_test/sdkconfig.rename"] = "CONFIG_INNER_OLD CONFIG_INNER_NEW\nCONFIG_SHARED_OLD CONFIG_SHARED_NEW2\n"
    L["idf/examples/outer/host_test/main/CMakeLists.txt"] = _C19_COMP
    L["idf/examples/outer/host_test/main/sdkconfig.rename"] = "CONFIG_INNERMAIN_OLD CONFIG_INNERMAIN_NEW\n"
    L["idf/examples/outer/host_test/main/deep/CMakeLists.txt"] = _C19_PROJ % "innermost"
    L["idf/examples/outer/host_test/main/deep/sdkconfig.rename"] = "CONFIG_INNERMOST_OLD CONFIG_INNERMOST_NEW\n"
    L["idf/examples/outer/zlast/sdkconfig.rename"] = "CONFIG_OUTERSUB_OLD CONFIG_OUTERSUB_NEW\n"
    L["idf/examples/common/CMakeLists.txt"] = "# project(commented_out)\n" + _C19_COMP
    L["idf/examples/common/shared/sdkconfig.rename"] = "CONFIG_ORPHAN_OLD CONFIG_ORPHAN_NEW\n"
    L["ext/proj/CMakeLists.txt"] = _C19_PROJ % "ext"
    L["ext/proj/sdkconfig.rename"] = "CONFIG_EXT_OLD CONFIG_EXT_NEW\n"
    L["ext/loose/sdkconfig.rename"] = "CONFIG_LOOSE_OLD CONFIG_LOOSE_NEW\n"
    L["ext/loose/sdkconfig.rename.esp32"] = "CONFIG_LOOSETGT_OLD CONFIG_LOOSETGT_NEW\n"
    names = sorted(set(n for p in L if p.rsplit("/", 1)[-1].startswith("sdkconfig.rename") for n in _c19_lhs(L[p], None)))
    probe_dirs = ["idf", "idf/tools/orphan", "idf/components/c1", "idf/components/c1/test_apps", "idf/examples/pa", "idf/examples/pa/main",
                  "idf/examples/pb", "idf/examples/outer", "idf/examples/outer/host_test", "idf/examples/outer/host_test/main",
                  "idf/examples/outer/host_test/main/deep", "idf/examples/outer/zlast", "idf/examples/common/shared", "ext/proj",
                  "ext/loose"]
    probes = _c19_add_probes(L, probe_dirs, names)
    return L, probes, names


def c19_random_layout(rng):
    """A generated layout: nested projects / component dirs / plain dirs up to depth 4 below idf/examples, idf/tools, idf/components, ext."""
    L = {}
    counter = [0]
    probe_dirs = []

    def rename_in(d):
        counter[0] += 1
        n = "CONFIG_R%d_OLD" % counter[0]
        body = "%s %sCONFIG_R%d_NEW\n" % (n, "!" if rng.random() < 0.2 else "", counter[0])
        if rng.random() < 0.25 and counter[0] > 1:
            body += "CONFIG_R%d_OLD CONFIG_ALSO%d_NEW\n" % (rng.randrange(1, counter[0]), counter[0])   # an old name listed in two scopes
        L[d + "/sdkconfig.rename"] = body

    def gen_dir(d, depth, p_project):
        role = rng.random()
        if role < p_project:
            L[d + "/CMakeLists.txt"] = _C19_PROJ % d.rsplit("/", 1)[-1]
        elif role < p_project + 0.25:
            L[d + "/CMakeLists.txt"] = _C19_COMP
        if rng.random() < 0.6:
            rename_in(d)
        if rng.random() < 0.7:
            probe_dirs.append(d)
        for i in range(rng.randrange(0, 3) if depth < 4 else 0):
            gen_dir("%s/%s%d" % (d, rng.choice(("main", "host_test", "sub", "app")), i), depth + 1, p_project)

    if rng.random() < 0.7:
        L["idf/CMakeLists.txt"] = _C19_PROJ % "esp-idf"
    if rng.random() < 0.7:
        rename_in("idf")
    probe_dirs.append("idf")
    for i in range(rng.randrange(1, 3)):
        gen_dir("idf/components/c%d" % i, 2, 0.2)
    for i in range(rng.randrange(2, 4)):
        gen_dir("idf/examples/e%d" % i, 2, 0.6)
    gen_dir("idf/tools/t0", 2, 0.3)
    for i in range(rng.randrange(1, 3)):
        gen_dir("ext/x%d" % i, 1, 0.5)
    names = sorted(set(n for p in L if p.endswith("sdkconfig.rename") for n in _c19_lhs(L[p], None)))
    if not names:
        rename_in("idf/examples/e0")
        names = sorted(_c19_lhs(L["idf/examples/e0/sdkconfig.rename"], None))
    probe_dirs = sorted(set(probe_dirs))[:10]
    probes = _c19_add_probes(L, probe_dirs, names)
    return L, probes, names


def c19_variants(layout, kind):
    """Configurations of the global scope for one layout."""
    vs = [{"tag": "plain", "idf": "idf", "explicit": (), "includes": ()}]
    if kind == "hand":
        vs.append({"tag": "explicit-rename", "idf": "idf", "explicit": ("ext/loose/sdkconfig.rename",), "includes": ()})
        vs.append({"tag": "explicit-target-rename+project-rename", "idf": "idf",
                   "explicit": ("ext/loose/sdkconfig.rename.esp32", "idf/examples/pb/main/sdkconfig.rename"), "includes": ()})
        vs.append({"tag": "includes-loose", "idf": "idf", "explicit": (), "includes": ("ext/loose",)})
        vs.append({"tag": "includes-project", "idf": "idf", "explicit": (), "includes": ("idf/examples/outer/host_test", "ext/proj")})
    else:
        rens = c19_rename_files(layout)
        ext = [p for p in rens if p.startswith("ext/")]
        if ext:
            vs.append({"tag": "explicit-rename", "idf": "idf", "explicit": (ext[0],), "includes": ()})
            vs.append({"tag": "includes", "idf": "idf", "explicit": (), "includes": (_c19_parent(ext[-1]),)})
    return vs


# ---- running one invocation -------------------------------------------------------------------------------------------

def c19_materialize(layout):
    root = os.path.realpath(tempfile.mkdtemp(prefix="rtc19_"))
    for p, t in layout.items():
        _write(os.path.join(root, p), t)
    # the temp root must not sit inside a project itself
    cur = os.path.dirname(root)
    while True:
        cm = os.path.join(cur, "CMakeLists.txt")
        if os.path.isfile(cm) and re.search(r"^\s*project\s*\(", open(cm, errors="ignore").read(), re.M):
            raise RuntimeError("temp dir %s lies inside a CMake project (%s); cannot state the scope" % (root, cur))
        nxt = os.path.dirname(cur)
        if nxt == cur:
            break
        cur = nxt
    return root


def c19_invoke(root, variant, history, explicit_at=0):
    """
    What kconfcheck.core.main does for --check deprecated, on the real functions, with fresh caches.
    history: relative paths of defaults files; explicit rename files are inserted at index explicit_at.
    Returns list of (relative path, verdict) in checking order, or raises.
    """
    from kconfcheck.check_deprecated_options import _prepare_deprecated_options, check_deprecated_options
    files = [os.path.join(root, f) for f in history]
    ex = [os.path.join(root, f) for f in variant.get("explicit", ())]
    files[explicit_at:explicit_at] = ex
    includes = tuple(os.path.join(root, d) for d in variant.get("includes", ()))
    old = os.environ.get("IDF_PATH")
    os.environ["IDF_PATH"] = os.path.join(root, variant["idf"]) if variant["idf"] else root
    try:
        files2, glob, local, ign, cache, idfabs = _prepare_deprecated_options(includes, (), files)
        out = []
        for p in files2:
            r = check_deprecated_options(p, glob, local, ign, cache, idfabs)
            out.append((os.path.relpath(p, root).replace(os.sep, "/"), r))
        return out
    finally:
        if old is None:
            os.environ.pop("IDF_PATH", None)
        else:
            os.environ["IDF_PATH"] = old


C19_SCRIPT = SCRIPT_HEAD + '''
from kconfcheck.check_deprecated_options import _prepare_deprecated_options, check_deprecated_options
LAYOUT = %(layout)r      # relative path -> text; "%(idf)s" is $IDF_PATH
HISTORY = %(history)r    # files handed to ONE invocation, in this order
EXPLICIT = %(explicit)r  # rename files passed explicitly (global scope), inserted in front
INCLUDES = %(includes)r  # --includes directories
FILE = %(file)r          # the file whose verdict is wrong
EXPECTED_OK = %(expected)r   # what the property prescribes for FILE: %(why)s
root = os.path.realpath(tempfile.mkdtemp(prefix="c19rep"))
bad = []
try:
    for p, t in LAYOUT.items():
        os.makedirs(os.path.dirname(os.path.join(root, p)), exist_ok=True)
        open(os.path.join(root, p), "w", newline="\\n").write(t)
    os.environ["IDF_PATH"] = os.path.join(root, %(idf)r)
    def invoke(history):
        files = [os.path.join(root, f) for f in EXPLICIT] + [os.path.join(root, f) for f in history]
        files, g, l, ign, cache, idf = _prepare_deprecated_options(tuple(os.path.join(root, d) for d in INCLUDES), (), files)
        return [(os.path.relpath(p, root), check_deprecated_options(p, g, l, ign, cache, idf)) for p in files]
    got = invoke(HISTORY)
    alone = invoke([FILE])
    for p, ok in got:
        if p == FILE and ok is not EXPECTED_OK:
            bad.append("%%s reported %%s after %%r but the property prescribes %%s (checked alone: %%s)"
                       %% (p, "OK" if ok else "DEPRECATED", HISTORY[:HISTORY.index(FILE)] if FILE in HISTORY else HISTORY,
                          "OK" if EXPECTED_OK else "DEPRECATED", ["OK" if o else "DEPRECATED" for q, o in alone if q == FILE]))
finally:
    shutil.rmtree(root, ignore_errors=True)
for b in bad: print("VIOLATION:", b)
sys.exit(1 if bad else 0)
'''


def _c19_prune(layout, keep_files):
    """The layout without the probe files that are not needed (rename files and CMakeLists stay)."""
    out = {}
    for p, t in layout.items():
        base = p.rsplit("/", 1)[-1]
        if base.startswith(("sdkconfig.defaults", "sdkconfig.ci")) and p not in keep_files:
            continue
        out[p] = t
    return out


def c19_judge(acc, layout, variant, scopes, root, history, results, lid, alone_cache):
    """Compare every verdict of one invocation with the oracle; returns list of violation tuples."""
    out = []
    seen_projects = set()
    for idx, (f, verdict) in enumerate(results):
        acc.ev()
        if f not in layout:
            continue
        want_flag, hits = c19_expected(layout, variant, f, scopes)
        proj = c19_project(layout, _c19_parent(f), variant["idf"])
        if idx > 0 and (seen_projects - {proj}):
            acc.nt("c19:%s:%s:%s:after-other-scope" % (lid, variant["tag"], f))
        elif idx == 0:
            acc.nt("c19:%s:%s:%s:first" % (lid, variant["tag"], f))
        seen_projects.add(proj)
        if verdict is (not want_flag):
            continue
        # ---- a wrong verdict: classify; shrink the history once per (direction, relation) of this work unit
        prior = [g for g, _ in results[:idx] if g in layout]
        key = (variant["tag"], f)
        if key not in alone_cache:
            r1 = c19_invoke(root, variant, [f])
            alone_cache[key] = [v for g, v in r1 if g == f][0]
        alone = alone_cache[key]
        assigned = sorted(_c19_lhs(layout[f], "="))
        if want_flag:
            direction = "missed"
            rel = "+".join(sorted(set(hits.values())))
        else:
            direction = "flagged-by"
            rel = _c19_rel_atoms(layout, variant, f, assigned)
        if verdict is None or alone is None:
            kind = "ignored"
        elif alone is (not want_flag):
            kind = "order-dependent"
        else:
            kind = "wrong-verdict"
            prior = []
        ckey = ("class", variant["tag"], kind, direction, rel)
        if ckey in alone_cache and (len(prior) + 1) * 1000 >= alone_cache[ckey][1]:
            acc.violation(alone_cache[ckey][0], "", alone_cache[ckey][2], "", 10 ** 9)     # counted; the recorded witness is smaller
            continue
        if kind == "order-dependent":
            # shortest prefix: first a single earlier file (one per directory), else greedy removal
            pref = None
            seen_dirs = set()
            for g in prior:
                if _c19_parent(g) in seen_dirs:
                    continue
                seen_dirs.add(_c19_parent(g))
                r2 = c19_invoke(root, variant, [g, f])
                if [v for q, v in r2[1:] if q == f][:1] == [verdict]:
                    pref = [g]
                    break
            if pref is None:
                pref = list(prior)
                i = 0
                while i < len(pref) and len(pref) <= 60:
                    trial = pref[:i] + pref[i + 1:]
                    r2 = c19_invoke(root, variant, trial + [f])
                    v2 = [v for g, v in r2[len(trial):] if g == f]
                    if v2 and v2[0] is verdict:
                        pref = trial
                    else:
                        i += 1
            prior = pref
        if kind == "order-dependent":
            prev_proj = sorted(set(_c19_prev_relation(layout, variant, f, g) for g in prior))
            cc = "c19:order-dependent:%s:%s:after[%s]" % (direction, rel, "+".join(prev_proj))
        else:
            cc = "c19:%s:%s:%s:%s" % (kind, direction, rel, variant["tag"] if variant["tag"] != "plain" else "any-history")
        hist = prior + [f]
        script = C19_SCRIPT % {"layout": _c19_prune(layout, set(hist)), "history": hist, "explicit": list(variant.get("explicit", ())),
                               "includes": list(variant.get("includes", ())), "file": f, "expected": not want_flag,
                               "why": ("assigns %s" % hits) if want_flag else ("assigns %s, none of which is an old name in the global scope or in the file's own project %r"
                                                                            % (assigned, proj)), "idf": variant["idf"]}
        detail = ("layout %s, global scope %s: %s reported %s, the property prescribes %s (%s); checked alone it is %s; shortest history showing it: %r"
                  % (lid, variant["tag"], f, "OK" if verdict else "DEPRECATED", "DEPRECATED" if want_flag else "OK",
                     ("own scope has %s" % hits) if want_flag else ("old name only in: " + rel), "OK" if alone else "DEPRECATED", hist))
        contract = ("check_deprecated_options(f) after any history of the same invocation == (assigned(f) & (GLOBAL | LOCAL(nearest project of f)) == {})"
                    if kind != "order-dependent" else
                    "check_deprecated_options(f) in an invocation that checked other files before == its verdict when checked alone")
        out.append((cc, contract, detail, script, len(hist) * 1000 + len(f)))
        alone_cache[ckey] = (cc, len(hist) * 1000, detail)
    return out


def _c19_prev_relation(layout, variant, f, g):
    """Relation of the project of an earlier checked file g to the project of f."""
    idf = variant["idf"]
    pf, pg = c19_project(layout, _c19_parent(f), idf), c19_project(layout, _c19_parent(g), idf)
    if pg is None:
        return "file-outside-any-project"
    if pf is None:
        return "file-of-some-project"
    if pf == pg:
        return "file-of-same-project"
    if _c19_under(pg, pf):
        return "file-of-nested-project"
    if _c19_under(pf, pg):
        return "file-of-enclosing-project"
    return "file-of-sibling-project"


# ---- CLI --------------------------------------------------------------------------------------------------------------

C19_CLI_SCRIPT = SCRIPT_HEAD + '''
import subprocess
LAYOUT = %(layout)r
ARGS = %(args)r          # arguments after `--check deprecated` (relative to the temp root)
CWD = %(cwd)r
IDF_PATH = %(idf_env)r   # None = unset (the tool falls back to the current directory)
EXPECT = %(expect)r      # file -> True (OK) / False (flagged) as prescribed by the property
root = os.path.realpath(tempfile.mkdtemp(prefix="c19cli"))
bad = []
try:
    for p, t in LAYOUT.items():
        os.makedirs(os.path.dirname(os.path.join(root, p)), exist_ok=True)
        open(os.path.join(root, p), "w", newline="\\n").write(t)
    env = dict(os.environ, PYTHONPATH=REPO, NO_COLOR="1", COLUMNS="10000")
    env.pop("IDF_PATH", None)
    if IDF_PATH is not None: env["IDF_PATH"] = os.path.join(root, IDF_PATH)
    p = subprocess.run([sys.executable, "-m", "kconfcheck", "--check", "deprecated"] + [a if a.startswith("-") else os.path.join(root, a) for a in ARGS],
                       cwd=os.path.join(root, CWD), env=env, stdout=subprocess.PIPE, stderr=subprocess.STDOUT)
    out = p.stdout.decode().replace("\\n", " ")
    for f, ok in EXPECT.items():
        full = os.path.join(root, f)
        got_ok, got_bad = (full + ": OK") in out, (full + ": The following options are deprecated") in out
        if got_ok == got_bad: bad.append("no unique verdict line for %%s" %% f)
        elif got_ok != ok: bad.append("%%s reported %%s, prescribed %%s" %% (f, "OK" if got_ok else "DEPRECATED", "OK" if ok else "DEPRECATED"))
    want = 0 if all(EXPECT.values()) else 1
    if p.returncode != want: bad.append("exit status %%d, expected %%d" %% (p.returncode, want))
finally:
    shutil.rmtree(root, ignore_errors=True)
for b in bad: print("VIOLATION:", b)
sys.exit(1 if bad else 0)
'''


def c19_cli_case(acc, layout, probes, spec):
    """spec: dict(tag, idf_env, cwd, args(list of relative paths / options), variant)"""
    out = []
    root = c19_materialize(layout)
    try:
        variant = spec["variant"]
        scopes = c19_scopes(layout, variant)
        args = list(spec["args"])
        env = {"NO_COLOR": "1", "COLUMNS": "10000"}
        full_args = ["--check", "deprecated"] + [a if a.startswith("-") else os.path.join(root, a) for a in args]
        envx = dict(os.environ)
        envx["PYTHONPATH"] = REPO + (os.pathsep + envx["PYTHONPATH"] if envx.get("PYTHONPATH") else "")
        envx.pop("IDF_PATH", None)
        envx.update(env)
        if spec["idf_env"] is not None:
            envx["IDF_PATH"] = os.path.join(root, spec["idf_env"])
        p = subprocess.run([PY, "-m", "kconfcheck"] + full_args, cwd=os.path.join(root, spec["cwd"]), env=envx, stdout=subprocess.PIPE,
                           stderr=subprocess.STDOUT, timeout=120)
        txt = re.sub(r"\x1b\[[0-9;]*m", "", p.stdout.decode("utf-8", "replace")).replace("\n", " ")
        checked = [a for a in args if not a.startswith("-") and a in layout and not a.rsplit("/", 1)[-1].startswith("sdkconfig.rename")
                   and a not in variant.get("includes", ())]
        for inc in variant.get("includes", ()):
            checked += [q for q in sorted(layout) if _c19_under(q, inc) and q.rsplit("/", 1)[-1].startswith(("sdkconfig.ci", "sdkconfig.defaults"))]
        expect = {}
        probs = []
        for f in checked:
            acc.ev()
            want_flag, hits = c19_expected(layout, variant, f, scopes)
            expect[f] = not want_flag
            full = os.path.join(root, f)
            got_ok = (full + ": OK") in txt
            got_bad = (full + ": The following options are deprecated") in txt
            if got_ok == got_bad:
                probs.append(("no-verdict-line", "no unique verdict line for %s" % f))
            elif got_ok is want_flag:
                direction = "missed" if want_flag else "flagged-by"
                rel = "+".join(sorted(set(hits.values()))) if want_flag else _c19_rel_atoms(layout, variant, f, _c19_lhs(layout[f], "="))
                probs.append(("%s:%s" % (direction, rel), "%s reported %s, prescribed %s" % (f, "OK" if got_ok else "DEPRECATED", "DEPRECATED" if want_flag else "OK")))
        want_rc = 0 if all(expect.values()) else 1
        acc.ev()
        if p.returncode != want_rc:
            probs.append(("exit-status", "exit status %d, expected %d; output tail: %s" % (p.returncode, want_rc, txt[-300:])))
        if probs:
            script = C19_CLI_SCRIPT % {"layout": _c19_prune(layout, set(checked)), "args": args, "cwd": spec["cwd"], "idf_env": spec["idf_env"], "expect": expect}
            seen = set()
            for sym, detail in probs:
                if sym in seen:
                    continue
                seen.add(sym)
                out.append(("c19:cli:%s" % sym, "python -m kconfcheck --check deprecated <files>: one verdict line per file as prescribed by the "
                            "scope rule, exit status 1 iff some file is flagged", "CLI case %s (%d files): %s" % (spec["tag"], len(checked), detail), script, len(checked)))
        else:
            acc.nt("c19cli:" + spec["tag"])
    finally:
        shutil.rmtree(root, ignore_errors=True)
    return out


# ---- scope / runner ---------------------------------------------------------------------------------------------------

def _c19_layout(lid, seed):
    if lid == "hand":
        return c19_hand_layout()
    if lid == "hand-idf-not-a-project":
        return c19_hand_layout(idf_is_project=False)
    if lid == "hand-idf-inside-a-project":
        return c19_hand_layout(idf_is_project=False, idf_in_super_project=True)
    k = int(lid.split("-")[1])
    return c19_random_layout(random.Random(7919 * seed + 104729 * k + 19))


def c19_histories(lid, probes, layout, variant, tier, rng):
    """List of histories (lists of probe files) for one (layout, variant)."""
    H = []
    by_dir = {}
    for p in probes:
        by_dir.setdefault(_c19_parent(p), []).append(p)
    dirs = sorted(by_dir)
    H.extend([p] for p in probes)                                    # every file alone
    hand = lid.startswith("hand")
    # ordered pairs: a representative of every directory first, then every file
    reps = [by_dir[d][0] for d in dirs]
    if variant["tag"] == "plain":
        for r in reps:
            rest = [p for p in probes if p != r]
            if lid != "hand" and not (hand and tier != "quick"):
                H.append([r] + rest)             # one long history per leading directory
            else:
                H.extend([r, p] for p in rest)   # all ordered pairs (rep, file)
        # ordered triples of directories, the third one with all its files
        if hand:
            trip = [(a, b, c) for a in dirs for b in dirs for c in dirs if len({a, b, c}) == 3]
            rng.shuffle(trip)
            for a, b, c in trip[: ((250 if lid == "hand" else 60) if tier == "quick" else 2500)]:
                H.append([by_dir[a][rng.randrange(len(by_dir[a]))], by_dir[b][rng.randrange(len(by_dir[b]))]] + by_dir[c])
    else:
        for r in reps:
            H.append([r] + [p for p in probes if p != r])
    # full set: sorted, reversed, random orders; random subsets in random order
    H.append(sorted(probes))
    H.append(sorted(probes, reverse=True))
    for _ in range(4 if tier == "quick" else 40):
        h = list(probes)
        rng.shuffle(h)
        H.append(h)
    for _ in range(30 if tier == "quick" else 400):
        k = rng.randrange(2, min(len(probes), 25) + 1)
        H.append(rng.sample(probes, k))
    return H


def _c19_worker(chunk):
    _quiet()
    acc = _Acc()
    mat = {}
    try:
        for w in chunk:
            try:
                if w[0] == "cli":
                    _, lid, seed, spec = w
                    layout, probes, names = _c19_layout(lid, seed)
                    for v in c19_cli_case(acc, layout, probes, spec):
                        acc.violation(*v)
                    continue
                _, lid, seed, vidx, hseed, part, nparts = w
                layout, probes, names = _c19_layout(lid, seed)
                variant = c19_variants(layout, "hand" if lid.startswith("hand") else "random")[vidx]
                if lid not in mat:
                    mat[lid] = c19_materialize(layout)
                root = mat[lid]
                scopes = c19_scopes(layout, variant)
                H = c19_histories(lid, probes, layout, variant, _C19_TIER[0], random.Random(hseed))
                alone_cache = {}
                for hi, h in enumerate(H):
                    if hi % nparts != part:
                        continue
                    at = (0, len(h) // 2, len(h))[hi % 3] if variant.get("explicit") else 0
                    results = c19_invoke(root, variant, h, explicit_at=at)
                    passed = set(h)
                    missing = passed - set(f for f, _ in results)
                    if missing:
                        acc.violation("c19:file-not-checked:%s" % variant["tag"], "every defaults file passed to the invocation gets a verdict",
                                      "files %r were passed but never checked" % sorted(missing)[:3], "", 1)
                    for v in c19_judge(acc, layout, variant, scopes, root, h, results, lid, alone_cache):
                        acc.violation(*v)
                    if len(acc.samples) < 1 and len(h) > 2:
                        acc.sample({"layout": lid, "global_scope": variant["tag"], "history_length": len(h), "first_files": h[:3]})
                acc.stat("c19:histories:%s" % ("hand" if lid.startswith("hand") else "random"), len([1 for hi in range(len(H)) if hi % nparts == part]))
            except Exception:  # noqa: BLE001
                acc.stat("checker_error")
                acc.stats.setdefault("checker_error_text", traceback.format_exc()[-1500:])
    finally:
        for r in mat.values():
            shutil.rmtree(r, ignore_errors=True)
    return acc.dump()


_C19_TIER = ["quick"]


def c19_cli_specs(layout, probes):
    plain = {"tag": "plain", "idf": "idf", "explicit": (), "includes": ()}
    some = [p for p in probes if p.endswith((".pa_old", ".inner_old", ".outer_old", ".comp_old", ".orphan_old", ".loose_old", "sdkconfig.defaults", ".multi"))]
    specs = [
        {"tag": "all-files-sorted", "idf_env": "idf", "cwd": "", "args": sorted(some), "variant": plain},
        {"tag": "all-files-reversed", "idf_env": "idf", "cwd": "", "args": sorted(some, reverse=True), "variant": plain},
        {"tag": "idf-path-unset-cwd-is-idf", "idf_env": None, "cwd": "idf", "args": sorted(some)[::2], "variant": plain},
        {"tag": "explicit-rename-last", "idf_env": "idf", "cwd": "", "args": sorted(some)[1::2] + ["ext/loose/sdkconfig.rename"],
         "variant": {"tag": "explicit-rename", "idf": "idf", "explicit": ("ext/loose/sdkconfig.rename",), "includes": ()}},
        {"tag": "includes", "idf_env": "idf", "cwd": "", "args": sorted(some)[::3] + ["--includes", "ext/loose", "idf/examples/outer/host_test"],
         "variant": {"tag": "includes", "idf": "idf", "explicit": (), "includes": ("ext/loose", "idf/examples/outer/host_test")}},
        {"tag": "only-ok-files", "idf_env": "idf", "cwd": "", "args": [p for p in sorted(some) if p.endswith("sdkconfig.defaults")], "variant": plain},
    ]
    return specs


def run_c19(tier, seed, jobs):
    _C19_TIER[0] = tier
    n_random = 10 if tier == "quick" else 60
    lids = ["hand", "hand-idf-not-a-project", "hand-idf-inside-a-project"] + ["rnd-%d" % k for k in range(n_random)]
    work = []
    n_hist = 0
    for lid in lids:
        layout, probes, names = _c19_layout(lid, seed)
        variants = c19_variants(layout, "hand" if lid.startswith("hand") else "random")
        if lid != "hand":
            variants = variants[:1] if lid.startswith("hand") else variants
        for vidx, v in enumerate(variants):
            nparts = 8 if (lid == "hand" and v["tag"] == "plain") else (2 if lid.startswith("hand") else 1)
            for part in range(nparts):
                work.append(("hist", lid, seed, vidx, 1000003 * seed + 31 * vidx + 19, part, nparts))
    layout, probes, names = _c19_layout("hand", seed)
    for spec in c19_cli_specs(layout, probes):
        work.append(("cli", "hand", seed, spec))
    work.sort(key=lambda w: 0 if w[0] == "cli" else 1)
    acc = _Acc()
    for d in _pool_map(_c19_worker, [[w] for w in work], jobs):
        acc.merge(d)
    hl, hp, hn = c19_hand_layout()
    bound = ("directory layouts below one temp root with $IDF_PATH=<root>/idf: 3 hand-written layouts (IDF root with / without project(); IDF root inside "
             "an enclosing project; components with nested rename files and a test app project; sibling projects with rename files in the project root and "
             "in main/; a project nested in a project nested in a project, with rename files in root and sub directories; sub directory of the outer "
             "project after the nested one; orphan directories; a CMakeLists.txt with a commented-out project( call; `  project (x)`; projects outside "
             "$IDF_PATH; target-specific sdkconfig.rename.esp32 files; an old name listed by two projects; %d old names x %d probe directories = %d "
             "single-assignment defaults files + clean and multi-line files) and %d generated layouts (random nesting up to depth 4, seed-dependent); global "
             "scope configurations: plain, rename file(s) passed explicitly (first / middle / last), --includes directories (incl. a nested project); "
             "histories per layout: every file alone; one file of every directory followed by all other files (as all ordered pairs "
             "(one file per directory, any file) on the main hand layout, as one long history elsewhere); %s ordered triples of directories (third one with "
             "all its files); the full set sorted / reversed / random orders; random subsets in random order; explicit rename files first / in the middle / last; 6 CLI invocations (IDF_PATH set / unset, explicit rename, --includes)"
             % (len(hn), len(set(_c19_parent(p) for p in hp)), len(hp), n_random, 250 if tier == "quick" else 2500))
    rule = ("hand layouts and the pair enumeration are fixed; the seed selects the generated layouts and the random orders / subsets / triples")
    contracts = [
        "kconfcheck.check_deprecated_options.check_deprecated_options(f, ...) (state prepared by _prepare_deprecated_options, shared over the whole "
        "invocation as in kconfcheck.core.main): returns False exactly when f assigns an old name of a rename file of the global scope (IDF root file, "
        "components/**, explicitly passed, below --includes) or of a rename file whose nearest enclosing project is f's nearest enclosing project "
        "(oracle: un-memoised spec function over the generated layout)",
        "the verdict for f at any position of any history equals the verdict for f checked alone (order / subset independence)",
        "every defaults file passed gets a verdict",
        "python -m kconfcheck --check deprecated <files> [--includes ...]: verdict line per file as above, exit status 1 iff some file is flagged",
    ]
    return acc, bound, rule, contracts


# ======================================================================================================================
# C20 -- gen_kconfig_doc: only unreachable options are omitted, shown conditions are truth-preserving, no dangling :ref:
# ======================================================================================================================
#
# Ground truth = brute force with the real evaluator: for one (tree, target, parser) every assignment of user values to the
# prompted options / choices the checked conditions can depend on is applied to one Kconfig instance (unset_values() +
# Symbol.set_value()), and Symbol.visibility / expr_value() are read.  The set of configurations "the user can reach" is
# the image of these assignments (that is what loading an sdkconfig does).
#
# Contracts (all on the tree named by $PYVC_REPO):
#   R  kconfgen.core.write_docs -> RST text: every option (symbol, choice member, named choice) with a prompt for which some
#      reachable configuration has visibility > 0 has its anchor `.. _CONFIG_<name>:` in the text (and
#      ConfigTargetVisibility.visible() is True for one of its prompted nodes / its choice)
#   C  every condition that is SHOWN: gen_kconfig_doc._prepare_cond(cond, ...) as called by write_menu_item for
#      "Symbol can be set when" (prompt condition), the shown Range / Default value rows (direct dependency stripped: compared
#      in the configurations in which the direct dependency holds, as the text says "already covered by can-be-set-when")
#      and the "forcefully enabled by / set by" rows, has in every reachable configuration the truth value of the original;
#      the rendered "Symbol can be set when" TEXT, parsed back (":ref:`CONFIG_X`" -> X, "X is enabled/disabled" -> X / !X)
#      and evaluated with Kconfig.eval_string, as well
#   L  every :ref:`X` / :ref:`t<X>` of the text (incl. the deprecated-options section) has `.. _X:` in the same text
#      (labels compared the way Sphinx normalises them: case-insensitive, white space collapsed)

C20_TARGETS = ("chipa", "chipb", "chipc")

C20_PRE = '''mainmenu "T"

config IDF_TARGET
    string
    default "$IDF_TARGET"

config IDF_TARGET_CHIPA
    bool
    default "y" if IDF_TARGET="chipa"

config IDF_TARGET_CHIPB
    bool
    default "y" if IDF_TARGET="chipb"

'''

# operand tag -> (text used in expressions, type, definition text, requires (tags), candidate user values {symbol: [..]})
C20_OPERANDS = {
    # ---- bool
    "UA": ("UA", "bool", 'config UA\n    bool "ua"\n', (), {}),
    "UB": ("UB", "bool", 'config UB\n    bool "ub"\n    default y\n', (), {}),
    "TA": ("IDF_TARGET_CHIPA", "bool", "", (), {}),
    "TB": ("IDF_TARGET_CHIPB", "bool", "", (), {}),
    "P1": ("P1", "bool", "config P1\n    bool\n    default y\n", (), {}),
    "P0": ("P0", "bool", "config P0\n    bool\n", (), {}),
    "PT": ("PT", "bool", "config PT\n    bool\n    default y if IDF_TARGET_CHIPA\n", (), {}),
    "PU": ("PU", "bool", "config PU\n    bool\n    default y if UA\n", ("UA",), {}),
    "SU": ("SU", "bool", 'config SU\n    bool\n\nconfig SU_SRC\n    bool "su src"\n    select SU\n', (), {}),
    "ST": ("ST", "bool", "config ST\n    bool\n\nconfig ST_SRC\n    bool\n    default y if IDF_TARGET_CHIPA\n    select ST\n", (), {}),
    "IU": ("IU", "bool", 'config IU\n    bool\n\nconfig IU_SRC\n    bool "iu src"\n    imply IU\n', (), {}),
    "IP": ("IP", "bool", 'config IP\n    bool "ip" if IDF_TARGET_CHIPB\n\nconfig IP_SRC\n    bool "ip src"\n    imply IP\n', (), {}),
    "GT": ("GT", "bool", 'config GT\n    bool "gt"\n    depends on IDF_TARGET_CHIPA\n', (), {}),
    "GP": ("GP", "bool", 'config GP\n    bool "gp" if IDF_TARGET_CHIPA\n    default y\n', (), {}),
    "M1": ("M1", "bool", 'choice CH\n    prompt "ch"\n    default M2\n\n    config M1\n        bool "m1"\n\n    config M2\n        bool "m2"\nendchoice\n', (), {}),
    "MT": ("MT1", "bool", 'choice CHT\n    prompt "cht"\n    depends on IDF_TARGET_CHIPA\n\n    config MT1\n        bool "mt1"\n\n    config MT2\n        bool "mt2"\nendchoice\n', (), {}),
    "UND": ("NOSUCH", "bool", "", (), {}),
    # ---- int
    "NI": ("NI", "int", 'config NI\n    int "ni"\n    default 3\n', (), {"NI": ["5", "7"]}),
    "NP": ("NP", "int", "config NP\n    int\n    default 3\n", (), {}),
    "NT": ("NT", "int", "config NT\n    int\n    default 5 if IDF_TARGET_CHIPA\n    default 3\n", (), {}),
    "NS": ("NS", "int", 'config NS\n    int\n    default 3\n\nconfig NS_SRC\n    bool "ns src"\n    set NS=5\n', (), {}),
    "ND": ("ND", "int", 'config ND\n    int\n    default 3\n\nconfig ND_SRC\n    bool "nd src"\n    set default ND=5\n', (), {}),
    # ---- string
    "SI": ("IDF_TARGET", "string", "", (), {}),
    "SM": ("SM", "string", 'config SM\n    string "sm"\n    default "slow"\n', (), {"SM": ["fast", "chipa", "n"]}),
    "SP": ("SP", "string", 'config SP\n    string\n    default "fast"\n', (), {}),
}
C20_BOOL_OPS = ("UA", "UB", "TA", "TB", "P1", "P0", "PT", "PU", "SU", "ST", "IU", "IP", "GT", "GP", "M1", "MT", "UND")
C20_INT_OPS = ("NI", "NP", "NT", "NS", "ND")
C20_STR_OPS = ("SI", "SM", "SP")


def c20_expressions(tier, seed):
    """Deterministic list of (expression text, operand tags)."""
    def t(tag):
        return C20_OPERANDS[tag][0]
    out = []
    for a in C20_BOOL_OPS:
        for form in ("%s", "!%s", "%s = y", "%s != y", "%s = n", "%s != n"):
            out.append((form % t(a), (a,)))
    for a in C20_BOOL_OPS:
        for b in ("UA", "TA", "P1", "UND", "IU"):
            if a == b:
                continue
            for form in ("%s && %s", "%s || %s", "%s = %s", "%s != %s"):
                out.append((form % (t(a), t(b)), (a, b)))
    for a in C20_INT_OPS:
        for form in ("%s = 5", "%s != 5", "%s < 5", "%s >= 5", "%s = 3", "5 != %s"):
            out.append((form % t(a), (a,)))
        for b in ("NI", "NP"):
            if a == b:
                continue
            for form in ("%s = %s", "%s != %s", "%s < %s"):
                out.append((form % (t(a), t(b)), (a, b)))
    for a in C20_STR_OPS:
        for lit in ('"chipa"', '"fast"', "fast"):      # the last one is an (unquoted) undefined symbol: it evaluates to its name
            for form in ("%s = %s", "%s != %s"):
                out.append((form % (t(a), lit), (a,)))
    for a, b in (("SM", "SP"), ("SI", "SM"), ("SI", "SP")):
        for form in ("%s = %s", "%s != %s"):
            out.append((form % (t(a), t(b)), (a, b)))
    # seed-dependent compound expressions of depth 2
    rng = random.Random(1000003 * seed + 20)
    atoms = [e for e in out if len(e[1]) <= 2]
    for _ in range(60 if tier == "quick" else 1500):
        (e1, t1), (e2, t2) = rng.choice(atoms), rng.choice(atoms)
        form = rng.choice(("(%s) && (%s)", "(%s) || (%s)", "!(%s) && (%s)", "(%s) || !(%s)", "!((%s) && (%s))"))
        out.append((form % (e1, e2), tuple(t1) + tuple(t2)))
    return out


def c20_expr_tree(expr, tags):
    """One tree that uses `expr` in every position the docs generator folds; returns dict(text, rename, candidates, sinks)."""
    need = []

    def add(tag):
        for r in C20_OPERANDS[tag][3]:
            add(r)
        if tag not in need:
            need.append(tag)
    for tg in tags:
        add(tg)
    order = [k for k in C20_OPERANDS if k in need]
    defs = "".join(C20_OPERANDS[k][2] + "\n" for k in order if C20_OPERANDS[k][2])
    cands = {}
    for k in order:
        cands.update(C20_OPERANDS[k][4])
    body = '''config X_DEP
    bool "x dep"
    depends on %(e)s

config X_PIF
    bool "x prompt if" if %(e)s

if %(e)s

config X_IF
    bool "x in if"

endif

menu "Menu dep"
    depends on %(e)s

    config X_MD
        bool "x in menu dep"

endmenu

menu "Menu vis"
    visible if %(e)s

    config X_MV
        bool "x in menu vis"

endmenu

choice X_CH
    prompt "x choice"
    depends on %(e)s

    config X_CH_A
        bool "a"

    config X_CH_B
        bool "b"

endchoice

config X_INT
    int "x int"
    range 0 10 if %(e)s
    range 0 100
    default 7 if %(e)s
    default 1

config X_TGT
    bool "x tgt"

config X_SRC
    bool "x src"
    select X_TGT if %(e)s

menuconfig X_MC
    bool "x menuconfig"
    depends on %(e)s

config X_MC_SUB
    bool "x sub"
    depends on X_MC
''' % {"e": expr}
    return {"text": C20_PRE + defs + body, "rename": "", "candidates": cands,
            "sinks": ("X_DEP", "X_PIF", "X_IF", "X_MD", "X_MV", "X_CH", "X_INT", "X_TGT", "X_SRC", "X_MC", "X_MC_SUB")}


def c20_hand_trees():
    """Hand-written trees for structural shapes: name -> dict(text, rename, candidates, sinks)."""
    H = {}
    H["multi-def-hidden-menu-first"] = {"text": C20_PRE + '''menu "Chip B peripherals"
    visible if IDF_TARGET_CHIPB

    config CHIPB_ONLY
        bool "only on chip b"

    config SHARED_DMA
        bool "use dma"
endmenu

menu "Common peripherals"

    config COMMON_OPT
        bool "common"

    config SHARED_DMA
        bool "use dma"

    config DMA_BURST
        int "burst"
        depends on SHARED_DMA
        default 16
endmenu

menu "Chip A only"
    depends on IDF_TARGET_CHIPA

    config TWICE
        bool "twice"
endmenu

config TWICE
    bool "twice (second definition, top level)"
    depends on COMMON_OPT

config AFTER_TWICE
    bool "after twice"
    depends on TWICE
''', "rename": "", "candidates": {"DMA_BURST": ["4"]}, "sinks": ("DMA_BURST", "AFTER_TWICE", "CHIPB_ONLY")}
    H["promptless-choice-members-referenced"] = {"text": C20_PRE + '''choice FLASH_MODE
    prompt "flash mode"
    default FLASH_MODE_QIO

    config FLASH_MODE_QIO
        bool "qio"

    config FLASH_MODE_DIO
        bool "dio"
endchoice

choice FLASH_VENDOR
    default FLASH_VENDOR_FAST

    config FLASH_VENDOR_FAST
        bool "fast vendor"

    config FLASH_VENDOR_SLOW
        bool "slow vendor"
endchoice

menu "Hidden on chip b"
    depends on !IDF_TARGET_CHIPB

    choice HID_CH
        prompt "hidden choice"

        config HID_CH_A
            bool "a"

        config HID_CH_B
            bool "b"
    endchoice

    config HID_OPT
        bool "hidden opt"
endmenu

config USES_MEMBERS
    int "uses members"
    range 1 4 if FLASH_VENDOR_FAST
    range 1 8 if FLASH_MODE_DIO
    range 1 16
    default 2 if FLASH_VENDOR_SLOW
    default 3 if HID_CH_B
    default 4 if HID_OPT
    default 1

config DEP_ON_MEMBERS
    bool "dep on members"
    depends on FLASH_VENDOR_FAST || FLASH_MODE_DIO || HID_CH_A
    select SEL_TARGET if FLASH_VENDOR_FAST

config SEL_TARGET
    bool "sel target"
''', "rename": "CONFIG_OLD_VENDOR CONFIG_FLASH_VENDOR\nCONFIG_OLD_VENDOR_FAST CONFIG_FLASH_VENDOR_FAST\nCONFIG_OLD_MODE CONFIG_FLASH_MODE\nCONFIG_OLD_HID_CH CONFIG_HID_CH\n",
        "candidates": {"USES_MEMBERS": ["2"]}, "sinks": ("USES_MEMBERS", "SEL_TARGET")}
    H["excluded-menu-with-children"] = {"text": C20_PRE + '''menu "Component config"

    config NORMAL_OPT
        bool "normal"
endmenu

menu "Configuration for components not included in the build"

    config IN_EXCLUDED
        bool "option of a component that is not in the build"

    menu "Sub menu of excluded"

        config DEEP_IN_EXCLUDED
            int "deep"
            default 1 if IN_EXCLUDED
            default 0
    endmenu
endmenu

config USES_EXCLUDED
    bool "uses"
    depends on IN_EXCLUDED
''', "rename": "", "candidates": {"DEEP_IN_EXCLUDED": ["2"]}, "sinks": ("DEEP_IN_EXCLUDED", "USES_EXCLUDED", "NORMAL_OPT")}
    H["menus-menuconfig-rename"] = {"text": C20_PRE + '''menu "Top menu"

    config TOP_A
        bool "top a"

    menu "Inner menu"
        visible if TOP_A

        config INNER_B
            bool "inner b"

        menu "Target menu"
            depends on IDF_TARGET_CHIPA

            config DEEP_C
                int "deep c"
                default 1
        endmenu
    endmenu

    menuconfig MC
        bool "a menuconfig"

    config MC_SUB
        bool "mc sub"
        depends on MC

    config IMPLICIT_PARENT
        bool "implicit parent"

    config IMPLICIT_CHILD
        bool "implicit child"
        depends on IMPLICIT_PARENT

    config PROMPT_GATED_PARENT
        bool "gated parent" if IDF_TARGET_CHIPB
        default y

    config CHILD_OF_GATED
        bool "child of gated"
        depends on PROMPT_GATED_PARENT
endmenu

choice NAMED_CH
    prompt "named choice"

    config NAMED_CH_X
        bool "x"

    config NAMED_CH_Y
        bool "y"
endchoice

config NOPROMPT
    bool
    default y

config FORCED
    bool "forced"

config FORCER_HIDDEN
    bool "forcer hidden"
    depends on IDF_TARGET_CHIPB
    select FORCED

config FORCER_VISIBLE
    bool "forcer visible"
    select FORCED if TOP_A && !IDF_TARGET_CHIPA
''', "rename": ("CONFIG_OLD_TOP_A CONFIG_TOP_A\nCONFIG_OLD_DEEP_C CONFIG_DEEP_C\nCONFIG_OLD_MEMBER CONFIG_NAMED_CH_X\nCONFIG_OLD_CHOICE CONFIG_NAMED_CH\n"
                 "CONFIG_OLD_NOPROMPT CONFIG_NOPROMPT\nCONFIG_OLD_MC !CONFIG_MC\nCONFIG_OLD_HIDDEN CONFIG_FORCER_HIDDEN\n"),
        "candidates": {"DEEP_C": ["2"]}, "sinks": ("DEEP_C", "MC_SUB", "IMPLICIT_CHILD", "CHILD_OF_GATED", "INNER_B")}
    H["two-definitions-top-level"] = {"text": C20_PRE + '''config EXT
    bool "ext (chip a definition)"
    depends on IDF_TARGET_CHIPA

config EXT
    bool "ext (chip b definition)"
    depends on IDF_TARGET_CHIPB

config USES_EXT
    bool "uses ext"
    depends on EXT

config SECOND_PROMPTLESS
    bool "first def has the prompt"
    depends on USES_EXT

config SECOND_PROMPTLESS
    bool
    default y if IDF_TARGET_CHIPA
''', "rename": "", "candidates": {}, "sinks": ()}
    H["forced-and-set-by"] = {"text": C20_PRE + '''config GATE
    bool "gate"

config NUM
    int "num"
    default 1

config SETTER
    bool "setter"
    depends on GATE
    set NUM=5 if GATE
    set default NUM=6 if !IDF_TARGET_CHIPA

config TSETTER
    bool
    default y if IDF_TARGET_CHIPB
    set NUM=9

config VICTIM
    bool "victim"

config SELECTOR
    bool "selector"
    depends on GATE || IDF_TARGET_CHIPA
    select VICTIM if GATE || IDF_TARGET_CHIPA
    select VICTIM2 if NUM = 5

config VICTIM2
    bool "victim 2"
    depends on NUM < 7
''', "rename": "", "candidates": {"NUM": ["5", "8"]}, "sinks": ("VICTIM", "VICTIM2")}
    return H


def c20_tree(tid, tier, seed):
    if tid[0] == "h":
        return c20_hand_trees()[tid[1]]
    expr, tags = _c20_expressions_memo(tier, seed)[tid[1]]
    return c20_expr_tree(expr, tags)


# ---- reachable configurations ---------------------------------------------------------------------------------------------

class _C20Configs:
    """All assignments of user values to the user-settable options that are not declared pure sinks."""

    LIMIT = 1024

    def __init__(self, kconf, candidates, sinks):
        self.kconf = kconf
        self.domains = []
        for ch in kconf.unique_choices:
            if ch.name in sinks or not any(n.prompt for n in ch.nodes):
                continue
            self.domains.append((ch, [None] + list(ch.syms)))
        for sym in kconf.unique_defined_syms:
            if sym.choice is not None or sym.name in sinks or not any(n.prompt for n in sym.nodes):
                continue
            if sym.orig_type == K.BOOL:
                three = bool(sym.defaults) or sym.weak_rev_dep is not kconf.n
                self.domains.append((sym, ([None] if three else []) + ["n", "y"]))
            else:
                self.domains.append((sym, [None] + list(candidates.get(sym.name, ()))))
        n = 1
        for _, vals in self.domains:
            n *= len(vals)
        if n > self.LIMIT:
            raise RuntimeError("too many assignments (%d) for a brute force; declare sinks" % n)
        self.count = n

    def describe(self, combo):
        out = []
        for (obj, _), v in zip(self.domains, combo):
            if v is None:
                continue
            out.append((v.name, "y") if isinstance(obj, K.Choice) else (obj.name, v))
        return out

    def apply(self, combo):
        for sym in self.kconf.unique_defined_syms:
            sym.unset_value()
        for ch in self.kconf.unique_choices:
            ch.unset_value()
        for (obj, _), v in zip(self.domains, combo):
            if v is None:
                continue
            if isinstance(obj, K.Choice):
                v.set_value(2)
            else:
                obj.set_value(v)

    def reset(self):
        """Back to the state in which the docs are generated: no user values."""
        self.apply(())

    def __iter__(self):
        for combo in itertools.product(*[vals for _, vals in self.domains]):
            self.apply(combo)
            yield combo
        self.reset()


def _c20_truth(e):
    return K.expr_value(e) > 0


def _c20_load(d, tree, target, version, write=True):
    if write:
        _write(os.path.join(d, "Kconfig"), tree["text"])
        if tree["rename"]:
            _write(os.path.join(d, "sdkconfig.rename"), tree["rename"])
    G.reset_library_report()
    kconf = K.Kconfig(os.path.join(d, "Kconfig"), parser_version=version)
    if tree["rename"]:
        kconf.load_rename_files([os.path.join(d, "sdkconfig.rename")])
    return kconf


def _c20_norm(label):
    return " ".join(label.lower().split())


_C20_ANCHOR = re.compile(r"^[ \t]*\.\. _([^\n]+?):[ \t]*$", re.M)
_C20_REF = re.compile(r":ref:`([^`]*)`")


def _c20_ref_target(body):
    m = re.match(r"^.*<([^<>]*)>\s*$", body, re.S)
    return m.group(1) if m else body


def c20_scan_refs(rst):
    """[(target label, section kind)] for every :ref: of the text."""
    out = []
    section = "entry"
    for line in rst.split("\n"):
        s = line.strip()
        if s.startswith(".. _configuration-deprecated-options:"):
            section = "deprecated-list"
        elif s.startswith(".. _"):
            if section != "deprecated-list":
                section = "entry"
        elif s == "Symbol can be set when:":
            section = "can-be-set-when"
        elif s == "Range:":
            section = "range"
        elif s == "Default value:":
            section = "default"
        elif s == "This symbol affects the value of following symbols:":
            section = "affects"
        elif s == "Following symbols affect the value of this symbol:":
            section = "forced-by"
        elif s == "Contains:":
            section = "contains"
        kind = "breadcrumbs" if s.startswith(":emphasis:`Found in:`") else section
        for m in _C20_REF.finditer(line):
            out.append((_c20_ref_target(m.group(1)), kind))
    return out


def c20_target_kind(kconf, vis, label):
    name = label[len("CONFIG_"):] if label.startswith("CONFIG_") else None
    if name is None:
        from esp_idf_kconfig import gen_kconfig_doc as D
        for node in kconf.node_iter():
            if node.item is K.MENU and node.prompt and D.get_link_anchor(node) == label:
                return "menu-with-excluded-name" if node.prompt[0] in D.EXCLUDED_MENU_NAMES else "menu-not-documented"
        return "unknown-label"
    if name in kconf.named_choices:
        ch = kconf.named_choices[name]
        return "choice-without-prompt" if not any(n.prompt for n in ch.nodes) else "choice-not-documented"
    sym = kconf.syms.get(name)
    if sym is None or not sym.nodes:
        return "no-such-option"
    if sym.choice is not None:
        chn = sym.choice.nodes
        if not any(n.prompt for n in chn):
            return "member-of-choice-without-prompt"
        return "member-of-choice-not-documented"
    if not any(n.prompt for n in sym.nodes):
        return "promptless-option"
    return "option-not-documented-for-target"


# ---- diagnosis of a wrong fold (used only to name the class) -------------------------------------------------------------

_C20_OPNAME = {K.EQUAL: "=", K.UNEQUAL: "!=", K.LESS: "<", K.LESS_EQUAL: "<=", K.GREATER: ">", K.GREATER_EQUAL: ">=", K.AND: "&&", K.OR: "||",
               K.NOT: "!"}


class _C20Diag:
    def __init__(self, kconf, vis, configs, D):
        self.kconf, self.vis, self.configs, self.D = kconf, vis, configs, D
        self._memo = {}
        self._kind_memo = {}
        self._set_targets = set()
        for s in kconf.unique_defined_syms:
            for tgt, _v, _c in list(s.sets) + list(getattr(s, "weak_sets", ())):
                self._set_targets.add(tgt)

    def mismatch(self, a, b):
        """First assignment under which expressions a and b differ in truth value, or None."""
        found = None
        for combo in self.configs:
            if found is None and _c20_truth(a) != _c20_truth(b):
                found = combo
        return found

    def varies(self, sym):
        seen = set()
        for _ in self.configs:
            seen.add(sym.str_value)
        return len(seen) > 1

    def kind(self, sym):
        if type(sym) is not K.Symbol:
            return "expr"
        if sym not in self._kind_memo:
            self._kind_memo[sym] = self._kind(sym)
        return self._kind_memo[sym]

    def _kind(self, sym):
        if sym.is_constant:
            return "literal"
        if not sym.nodes:
            return "undefined-symbol"
        typ = K.TYPE_TO_STR.get(sym.orig_type, "?")
        if sym.name.startswith("IDF_TARGET"):
            return "idf-target-" + typ
        self.configs.reset()
        claimed = self.vis._is_item_target_constant(sym)
        if claimed and self.varies(sym):
            how = []
            if sym.weak_rev_dep is not self.kconf.n:
                how.append("imply")
            if sym in self._set_targets:
                how.append("set")
            return "%s-treated-as-target-constant-but-varies-by-%s" % (typ, "+".join(how) or "other")
        if claimed:
            return "target-constant-" + typ
        if sym.choice is not None:
            return "choice-member"
        if any(n.prompt for n in sym.nodes):
            return "user-" + typ
        return "derived-" + typ

    def fold(self, m):
        if m is self.kconf.y:
            return "y"
        if m is self.kconf.n:
            return "n"
        return "rewritten"

    def diagnose(self, e):
        """Class fragment naming the innermost sub-expression whose simplification changes the truth value; None if e is fine."""
        key = K.expr_str(e)
        if key not in self._memo:
            self._memo[key] = self._diagnose(e)
        return self._memo[key]

    def _diagnose(self, e):
        self.configs.reset()
        m = self.D._minimize_expr(e, self.vis, self.kconf)
        if type(e) is tuple:
            op = e[0]
            if op in (K.AND, K.OR, K.NOT):
                # operands that were folded to a constant first: they are what decides a folded whole
                subs = sorted(e[1:], key=lambda s_: 0 if self.fold(self.D._minimize_expr(s_, self.vis, self.kconf)) != "rewritten" else 1)
                for sub in subs:
                    r = self.diagnose(sub)
                    if r:
                        return r
                return ("logic(%s)" % _C20_OPNAME[op]) if self.mismatch(e, m) is not None else None
            if self.mismatch(e, m) is None:
                return None
            ka, kb, fold = self.kind(e[1]), self.kind(e[2]), self.fold(m)
            hows = sorted(set(re.findall(r"varies-by-([a-z+]+)", ka + " " + kb)))
            if hows:
                return "constancy-ignores-" + "+".join(hows)
            if op == K.UNEQUAL and fold == "n":
                return "unequal-of-different-operands-folded-to-n"
            if "undefined-symbol" in (ka, kb):
                return "undefined-symbol-operand-of-relation-replaced-by-n"
            return "relation[%s %s %s]->%s" % (ka, _C20_OPNAME[op], kb, fold)
        if self.mismatch(e, m) is None:
            return None
        ks = self.kind(e)
        hows = sorted(set(re.findall(r"varies-by-([a-z+]+)", ks)))
        if hows:
            return "constancy-ignores-" + "+".join(hows)
        return "symbol[%s]->%s" % (ks, self.fold(m))


# ---- replay script ----------------------------------------------------------------------------------------------------

C20_SCRIPT = SCRIPT_HEAD + '''
import re
import esp_kconfiglib.core as K
from esp_idf_kconfig import gen_kconfig_doc as D
import kconfgen.core as KG
KCONFIG = %(text)r
RENAME = %(rename)r
TARGET, PARSER = %(target)r, %(version)d
MODE = %(mode)r            # "omitted" | "cond" | "cond-text" | "ref"
SYMBOL = %(symbol)r        # option concerned
WITNESS = %(witness)r      # user assignments (name, value) of the configuration that shows it
WHAT = %(what)r            # cond: ("prompt", node index) | ("range"|"default", row index) | ("selected-by"|"set-by", source name, row index); ref: label
d = tempfile.mkdtemp(prefix="c20rep")
bad = []
try:
    open(os.path.join(d, "Kconfig"), "w").write(KCONFIG)
    os.environ["IDF_TARGET"] = TARGET
    k = K.Kconfig(os.path.join(d, "Kconfig"), parser_version=PARSER)
    if RENAME:
        open(os.path.join(d, "sdkconfig.rename"), "w").write(RENAME)
        k.load_rename_files([os.path.join(d, "sdkconfig.rename")])
    out = os.path.join(d, "out.rst")
    KG.write_docs(k, out)
    rst = open(out).read()
    vis = D.ConfigTargetVisibility(k, TARGET)
    norm = lambda s: " ".join(s.lower().split())
    anchors = set(norm(a) for a in re.findall(r"^[ \\t]*\\.\\. _([^\\n]+?):[ \\t]*$", rst, re.M))
    def apply():
        for s_ in k.unique_defined_syms: s_.unset_value()
        for c_ in k.unique_choices: c_.unset_value()
        for name, v in WITNESS:
            k.syms[name].set_value(v)
    truth = lambda e: K.expr_value(e) > 0
    if MODE == "omitted":
        apply()
        item = k.syms.get(SYMBOL) or k.named_choices[SYMBOL]
        if item.visibility > 0 and norm("CONFIG_" + SYMBOL) not in anchors:
            bad.append("with %%r the prompt of %%s is visible (the user can set it) but the docs for %%s have no entry `.. _CONFIG_%%s:`" %% (WITNESS, SYMBOL, TARGET, SYMBOL))
    elif MODE == "ref":
        for body in re.findall(r":ref:`([^`]*)`", rst):
            m = re.match(r"^.*<([^<>]*)>\\s*$", body, re.S)
            label = m.group(1) if m else body
            if label == WHAT and norm(label) not in anchors:
                bad.append("the text contains :ref:`%%s` but no `.. _%%s:`" %% (body, label)); break
    else:
        sym = k.syms[SYMBOL]
        guard = None
        if WHAT[0] == "prompt":
            orig = sym.nodes[WHAT[1]].prompt[1]; shown = D._prepare_cond(orig, vis, k)
        elif WHAT[0] in ("range", "default"):
            rows = [c for _lo, _hi, c in sym.ranges] if WHAT[0] == "range" else [c for _v, c in sym.defaults]
            orig = rows[WHAT[1]]; guard = sym.direct_dep; shown = D._prepare_cond(orig, vis, k, direct_deps=guard)
        else:
            src = k.syms[WHAT[1]]
            rows = [c for t, c in src.selects if t is sym] if WHAT[0] == "selected-by" else [c for t, _v, c in src.sets if t is sym]
            orig = rows[WHAT[2]]; guard = src.direct_dep; shown = D._prepare_cond(orig, vis, k, direct_deps=guard)
        if MODE == "cond-text":
            m = re.search(r"^\\.\\. _CONFIG_%%s:\\n.*?Symbol can be set when:\\n\\s*(.*?)\\n" %% SYMBOL, rst, re.M | re.S)
            text = m.group(1)
            expr = re.sub(r":ref:`CONFIG_(\\w+)(?:<CONFIG_\\w+>)?`", r"\\1", text)
            expr = re.sub(r"\\bCONFIG_(\\w+)", r"\\1", expr)
            expr = re.sub(r"(\\w+) is enabled", r"\\1", expr); expr = re.sub(r"(\\w+) is disabled", r"!\\1", expr)
            apply()
            if (k.eval_string(expr) > 0) != truth(orig):
                bad.append("with %%r: shown text %%r is %%s, the Kconfig condition %%s is %%s" %% (WITNESS, text, k.eval_string(expr) > 0, K.expr_str(orig), truth(orig)))
        else:
            apply()
            s = k.n if shown is None else shown
            if (guard is None or truth(guard)) and truth(s) != truth(orig):
                bad.append("with %%r: shown condition %%s is %%s, the Kconfig condition %%s is %%s" %% (WITNESS, K.expr_str(s), truth(s), K.expr_str(orig), truth(orig)))
finally:
    shutil.rmtree(d, ignore_errors=True)
for b in bad: print("VIOLATION:", b)
sys.exit(1 if bad else 0)
'''


def _c20_script(tree, target, version, mode, symbol, witness, what):
    return C20_SCRIPT % {"text": tree["text"], "rename": tree["rename"], "target": target, "version": version, "mode": mode, "symbol": symbol,
                         "witness": witness, "what": what}


def _c20_text_cond(rst, name, k_th):
    """The text under 'Symbol can be set when:' of the k-th entry `.. _CONFIG_<name>:` (None if that entry has no such section)."""
    starts = [m.start() for m in re.finditer(r"^\.\. _CONFIG_%s:\n" % re.escape(name), rst, re.M)]
    if k_th >= len(starts):
        return None
    nxt = re.search(r"^\.\. _", rst[starts[k_th] + 4:], re.M)
    block = rst[starts[k_th]: starts[k_th] + 4 + nxt.start()] if nxt else rst[starts[k_th]:]
    m = re.search(r"Symbol can be set when:\n\s*(.*?)\n", block)
    return m.group(1) if m else None


def _c20_text_to_expr(text):
    expr = re.sub(r":ref:`CONFIG_(\w+)(?:<CONFIG_\w+>)?`", r"\1", text)
    expr = re.sub(r"\bCONFIG_(\w+)", r"\1", expr)
    expr = re.sub(r"(\w+) is enabled", r"\1", expr)
    expr = re.sub(r"(\w+) is disabled", r"!\1", expr)
    return expr


# ---- one (tree, target, parser) case ---------------------------------------------------------------------------------------

def c20_case(acc, tid, tree, target, version, workdir=None):
    """Returns list of violation tuples (class, contract, detail, script, size).  workdir: scratch directory to reuse."""
    from esp_idf_kconfig import gen_kconfig_doc as D
    import kconfgen.core as KG
    out = []
    d = workdir or tempfile.mkdtemp(prefix="rtc20_")
    where = "tree %s target=%s parser=%d" % (tid[1] if tid[0] == "h" else repr(c20_label(tid)), target, version)
    size = len(tree["text"])
    try:
        with G.controlled_env({"IDF_TARGET": target}):
            try:
                kconf = _c20_load(d, tree, target, version)
            except BaseException as e:  # noqa: BLE001
                if isinstance(e, KeyboardInterrupt):
                    raise
                acc.stat("c20:tree-rejected-by-parser-%d" % version)
                return out
            rst_path = os.path.join(d, "out.rst")
            try:
                KG.write_docs(kconf, rst_path)
                rst = _read(rst_path)
            except BaseException as e:  # noqa: BLE001
                if isinstance(e, KeyboardInterrupt):
                    raise
                tb = traceback.extract_tb(e.__traceback__)
                fn = [f.name for f in tb if "gen_kconfig_doc" in f.filename or "kconfgen" in f.filename][-1:] or ["?"]
                out.append(("c20:exception:%s:%s" % (fn[0], type(e).__name__), "kconfgen.core.write_docs does not raise on a well-formed tree",
                            "%s: %s: %s" % (where, type(e).__name__, str(e)[:200]), _c20_script(tree, target, version, "ref", "", [], ""), size))
                return out
            vis = D.ConfigTargetVisibility(kconf, target)
            configs = _C20Configs(kconf, tree["candidates"], set(tree["sinks"]))
            diag = _C20Diag(kconf, vis, configs, D)
            anchors = set(_c20_norm(a) for a in _C20_ANCHOR.findall(rst))

            # ---- L: no dangling :ref:
            seen = set()
            for label, kind in c20_scan_refs(rst):
                acc.ev()
                if _c20_norm(label) in anchors:
                    acc.nt("c20:ref:%s:%s" % (kind, "member" if label.startswith("CONFIG_") and kconf.syms.get(label[7:]) is not None
                                                and kconf.syms[label[7:]].choice else "other"))
                    continue
                tk = c20_target_kind(kconf, vis, label)
                cc = "c20:dangling-ref:in-%s:to-%s" % (kind, tk)
                if cc in seen:
                    continue
                seen.add(cc)
                out.append((cc, "every :ref: of the generated text points at an anchor defined in the same text",
                            "%s: :ref: to `%s` (%s) in a %s line, but the text has no `.. _%s:`" % (where, label, tk, kind, label),
                            _c20_script(tree, target, version, "ref", "", [], label), size))

            # ---- gather what has to be evaluated in every configuration
            items = []       # prompted options: (name, item, kind)
            for sym in kconf.unique_defined_syms:
                if any(n.prompt for n in sym.nodes):
                    items.append((sym.name, sym))
            for ch in kconf.unique_choices:
                if ch.name and any(n.prompt for n in ch.nodes):
                    items.append((ch.name, ch))
            conds = []       # shown conditions: dict(kind, sym, what, orig, shown, guard)
            selected_by, set_by = D._cache_reverse_dependency_mappings(kconf)
            for sym in kconf.unique_defined_syms:
                if sym.choice is not None:
                    continue
                doc_nodes = [n for n in sym.nodes if n.prompt and vis.visible(n)]
                if not doc_nodes:
                    continue
                for k_th, node in enumerate(doc_nodes):
                    shown = D._prepare_cond(node.prompt[1], vis, kconf)
                    if shown is not None and shown is not kconf.y:
                        conds.append({"kind": "can-be-set-when", "sym": sym, "what": ("prompt", sym.nodes.index(node)), "orig": node.prompt[1],
                                      "shown": shown, "guard": None, "k_th": k_th})
                for kind, rows in (("range", [c for _lo, _hi, c in sym.ranges]), ("default", [c for _v, c in sym.defaults])):
                    tagged = [(i, c) for i, c in enumerate(rows)]
                    for i, shown in D._filter_possibly_applicable_rows(tagged, vis, kconf, direct_deps=sym.direct_dep):
                        conds.append({"kind": kind, "sym": sym, "what": (kind, i), "orig": rows[i], "shown": shown, "guard": sym.direct_dep})
                for kind, mapping in (("selected-by", selected_by), ("set-by", set_by)):
                    per_src = {}
                    for row in mapping.get(sym, []):
                        src, cond = row[0], row[-1]
                        i = per_src.get(src, 0)
                        per_src[src] = i + 1
                        if not D._source_sym_may_force(src, vis):
                            continue
                        shown = D._prepare_cond(cond, vis, kconf, direct_deps=src.direct_dep)
                        if shown is None:
                            continue
                        conds.append({"kind": kind, "sym": sym, "what": (kind, src.name, i), "orig": cond, "shown": shown, "guard": src.direct_dep})
            text_conds = []
            for c in conds:
                if c["kind"] == "can-be-set-when":
                    t = _c20_text_cond(rst, c["sym"].name, c["k_th"])
                    if t is not None:
                        text_conds.append((c, t, _c20_text_to_expr(t)))

            # ---- the brute force
            reach = {}          # name -> witness assignment
            reach_combo = {}
            bad_cond = {}       # index in conds -> witness
            bad_text = {}
            last_combo = here = None
            for combo in configs:
                last_combo, here = combo, None
                for name, item in items:
                    if name not in reach and item.visibility > 0:
                        reach[name] = configs.describe(combo)
                        reach_combo[name] = combo
                for i, c in enumerate(conds):
                    if i in bad_cond:
                        continue
                    if c["guard"] is not None and not _c20_truth(c["guard"]):
                        continue
                    if _c20_truth(c["shown"]) != _c20_truth(c["orig"]):
                        bad_cond[i] = configs.describe(combo)
                for j, (c, t, ex) in enumerate(text_conds):
                    if j in bad_text:
                        continue
                    try:
                        tv = kconf.eval_string(ex) > 0
                    except Exception as e:  # noqa: BLE001
                        bad_text[j] = ("unparsable", "%s: %s" % (type(e).__name__, str(e)[:100]))
                        continue
                    if tv != _c20_truth(c["orig"]):
                        bad_text[j] = ("differs", configs.describe(combo))
            acc.ev(configs.count * (len(items) + len(conds) + len(text_conds)))
            # self-check of the harness: the last configuration, re-created on a fresh instance, has the same values
            last = configs.describe(last_combo)
            configs.apply(last_combo)
            here = [(s.name, s.str_value) for s in kconf.unique_defined_syms]
            configs.reset()
            fresh = _c20_load(d, tree, target, version, write=False)
            for name, v in last:
                fresh.syms[name].set_value(v)
            if here != [(s.name, s.str_value) for s in fresh.unique_defined_syms]:
                raise RuntimeError("harness: re-used instance and fresh instance disagree for %r" % (last,))
            acc.stat("c20:configurations", configs.count)

            # ---- R: reachable => documented
            for name, item in items:
                if name not in reach:
                    acc.nt("c20:unreachable:%s:%s:%s" % (tid, target, name)) if _c20_norm("CONFIG_" + name) not in anchors else None
                    continue
                documented = _c20_norm("CONFIG_" + name) in anchors
                if isinstance(item, K.Choice):
                    api = any(vis.visible(n) for n in item.nodes)
                elif item.choice is not None:
                    api = any(vis.visible(n) for n in item.choice.nodes)
                else:
                    api = any(vis.visible(n) for n in item.nodes if n.prompt)
                if documented and api:
                    acc.nt("c20:documented:%s:%s:%s" % (tid, target, name))
                    continue
                # why?  find the gating dependency that was folded to n, from the outside in
                cause = None
                nodes = item.nodes if (isinstance(item, K.Choice) or item.choice is None) else item.choice.nodes
                configs.apply(reach_combo[name])
                nodes = [n for n in nodes if n.prompt and _c20_truth(n.prompt[1])]      # the definitions through which it is reachable
                configs.reset()
                for node in nodes:
                    chain = []
                    n = node
                    while n is not None and n.parent is not None:
                        chain.append(n)
                        n = n.parent
                    for n in reversed(chain):
                        if type(n.item) in (K.Symbol, K.Choice):
                            dep = n.item.direct_dep
                        else:
                            dep = kconf._make_and(n.visibility, n.dep)
                        configs.reset()
                        if D._minimize_expr(dep, vis, kconf) is kconf.n:
                            cause = diag.diagnose(dep) or "folded-to-n-unexplained"
                            break
                    if cause:
                        break
                if cause is None:
                    multi = (not isinstance(item, K.Choice)) and len(item.nodes) > 1
                    cause = "no-dependency-folds-to-n:%s" % ("option-defined-at-several-places" if multi else "single-definition")
                cc = "c20:omitted:%s" % cause
                out.append((cc, "an option with a prompt that some assignment of user values makes visible is documented for the target",
                            "%s: with %r the prompt of %s is visible, but %s; cause: %s"
                            % (where, reach[name], name, "the text has no `.. _CONFIG_%s:`" % name if not documented else
                               "ConfigTargetVisibility.visible() is False for all its prompted nodes", cause),
                            _c20_script(tree, target, version, "omitted", name, reach[name], ""), size))

            # ---- C: shown conditions
            for i, c in enumerate(conds):
                if i not in bad_cond:
                    if type(c["shown"]) is tuple or c["shown"] is not kconf.y:
                        acc.nt("c20:cond:%s:%s:%s:%s" % (tid, target, c["sym"].name, c["what"]))
                    continue
                stripped = D._remove_deps_from_expr(c["orig"], c["guard"], kconf.y) if c["guard"] is not None else c["orig"]
                cause = diag.diagnose(stripped) or "unexplained"
                cc = "c20:shown-condition:%s" % cause
                out.append((cc, "a condition shown in the docs has, in every reachable configuration, the truth value of the Kconfig condition it was simplified from",
                            "%s: %s of %s: Kconfig condition `%s` is shown as `%s`; they differ with %r; cause: %s"
                            % (where, c["kind"], c["sym"].name, K.expr_str(c["orig"]), K.expr_str(c["shown"]), bad_cond[i], cause),
                            _c20_script(tree, target, version, "cond", c["sym"].name, bad_cond[i], c["what"]), size))
            for j, (c, t, ex) in enumerate(text_conds):
                if j not in bad_text:
                    continue
                i = conds.index(c)
                if i in bad_cond:
                    continue      # already reported at the function level
                how, wit = bad_text[j]
                cc = "c20:shown-text:can-be-set-when:%s" % how
                out.append((cc, "the rendered `Symbol can be set when` text, read back as a Kconfig expression, has the truth value of the prompt condition",
                            "%s: %s: text %r (read as %r) vs Kconfig condition `%s`: %s %r" % (where, c["sym"].name, t, ex, K.expr_str(c["orig"]), how, wit),
                            _c20_script(tree, target, version, "cond-text", c["sym"].name, wit if how == "differs" else [], c["what"]), size))
    finally:
        if workdir is None:
            shutil.rmtree(d, ignore_errors=True)
    return out


_C20_STATE = {"tier": "quick", "seed": 0}


def c20_label(tid):
    if tid[0] == "h":
        return tid[1]
    return _c20_expressions_memo(_C20_STATE["tier"], _C20_STATE["seed"])[tid[1]][0]


_C20_EXPR_MEMO = {}


def _c20_expressions_memo(tier, seed):
    if (tier, seed) not in _C20_EXPR_MEMO:
        _C20_EXPR_MEMO[(tier, seed)] = c20_expressions(tier, seed)
    return _C20_EXPR_MEMO[(tier, seed)]


def _c20_worker(chunk):
    _quiet()
    acc = _Acc()
    workdir = tempfile.mkdtemp(prefix="rtc20_")       # one scratch directory per chunk (the Kconfig file is overwritten per case)
    try:
        for tid, target, version in chunk:
            try:
                for stale in ("sdkconfig.rename", "out.rst"):
                    if os.path.exists(os.path.join(workdir, stale)):
                        os.remove(os.path.join(workdir, stale))
                tree = c20_tree(tid, _C20_STATE["tier"], _C20_STATE["seed"])
                for v in c20_case(acc, tid, tree, target, version, workdir=workdir):
                    acc.violation(*v)
                if len(acc.samples) < 1:
                    acc.sample({"tree": c20_label(tid), "target": target, "parser": version})
            except Exception:  # noqa: BLE001
                acc.stat("checker_error")
                acc.stats.setdefault("checker_error_text", "%r %s %d\n%s" % (tid, target, version, traceback.format_exc()[-1500:]))
    finally:
        shutil.rmtree(workdir, ignore_errors=True)
    return acc.dump()


def run_c20(tier, seed, jobs):
    _C20_STATE.update(tier=tier, seed=seed)
    exprs = c20_expressions(tier, seed)
    work = []
    for name in sorted(c20_hand_trees()):
        for target in C20_TARGETS:
            for version in (1, 2):
                work.append((("h", name), target, version))
    for i in range(len(exprs)):
        for ti, target in enumerate(C20_TARGETS):
            if tier == "quick" and target == "chipc" and i % 3:
                continue        # chipc (no IDF_TARGET_* option is y) for every third expression only
            versions = (1, 2) if tier != "quick" else ((1 + (i + ti) % 2),)
            for version in versions:
                work.append((("e", i), target, version))
    acc = _Acc()
    for d in _pool_map(_c20_worker, _chunks(work, max(1, jobs) * 4), jobs):
        acc.merge(d)
    n_rand = 60 if tier == "quick" else 1500
    bound = ("%d expression trees + %d hand-written trees x targets %s (quick tier: chipc for every third expression) x parser %s.  Expression trees: a preamble (IDF_TARGET from the environment, "
             "IDF_TARGET_CHIPA/B), the definitions of the operands and ONE expression used as: depends on of an option / prompt condition / enclosing if / "
             "menu depends on / menu visible if / choice depends on / range and default condition / select condition / menuconfig depends on.  "
             "Expressions: every bool operand kind (user option with and without default, IDF_TARGET_*, promptless constant y / n, promptless with "
             "target default, promptless with user-dependent default, promptless selected by a user option / by a target-constant option, promptless "
             "implied by a user option, target-gated prompt with imply, option depending on the target, prompt gated by the target, member of a user "
             "choice / of a target-gated choice, undefined symbol) as A, !A, A = y/n, A != y/n and combined with 5 second operands by && || = !=; int "
             "operands (user, promptless constant, target default, target of set / of set default) against literals and each other with = != < >=; "
             "string operands (IDF_TARGET, user string, promptless) against quoted literals, an unquoted undefined symbol and each other; %d "
             "seed-dependent compound expressions of depth 2.  Hand trees: option defined twice with the first definition in a target-hidden menu; "
             "choice without prompt and choice in a target-hidden menu whose members are referenced from range / default / depends on / select; nested "
             "menus, menuconfig, implicit sub-menus, prompt gated by the target, sdkconfig.rename with renames to documented / hidden / promptless "
             "options, a choice and a choice member; two definitions at top level; select / set from hidden and target-constant sources.  "
             "Configurations: ALL assignments (unset / n / y; choices: unset / each member; int and string: unset / listed literals) to the user-settable "
             "options other than the pure sinks of the template (max %d per case)"
             % (len(exprs), len(c20_hand_trees()), list(C20_TARGETS), "1 and 2 (alternating per expression in the quick tier)", n_rand, _C20Configs.LIMIT))
    rule = "all expressions and hand trees are fixed; the seed selects the %d compound expressions" % n_rand
    contracts = [
        "kconfgen.core.write_docs(kconfig, file) [ConfigTargetVisibility + gen_kconfig_doc.write_docs + deprecated section]: every option / named choice "
        "with a prompt whose Symbol.visibility / Choice.visibility is > 0 in some reachable configuration has `.. _CONFIG_<name>:` in the text and "
        "ConfigTargetVisibility.visible(node) is True for one of its prompted nodes (choice members: for their choice)",
        "gen_kconfig_doc._prepare_cond as called by write_menu_item (prompt condition; rows kept by _filter_possibly_applicable_rows for Range / Default "
        "value with the direct dependency stripped; selected-by / set-by rows of sources kept by _source_sym_may_force): a condition that is shown has in "
        "every reachable configuration (in which the stripped direct dependency holds) the truth value (expr_value) of the original condition",
        "the `Symbol can be set when` text of an entry, read back as a Kconfig expression and evaluated with Kconfig.eval_string, has in every reachable "
        "configuration the truth value of the prompt condition of that node",
        "every :ref:`label` / :ref:`text<label>` in the text written by kconfgen.core.write_docs has `.. _label:` in the same text",
        "kconfgen.core.write_docs does not raise",
    ]
    return acc, bound, rule, contracts


# ======================================================================================================================
# entry points
# ======================================================================================================================

def run(prop, tier="quick", seed=0, jobs=None):
    t0 = time.time()
    jobs = jobs or min(16, os.cpu_count() or 1)
    base = {"name": NAME, "property": prop, "kind": "bounded"}
    try:
        _quiet()
        G.scrub_env()
        runner = {"C18": run_c18, "C19": globals().get("run_c19"), "C20": globals().get("run_c20")}.get(prop)
        if runner is None:
            raise ValueError("unknown property %r (served: %s)" % (prop, PROPERTIES))
        acc, bound, rule, contracts = runner(tier, seed, jobs)
        if acc.stats.get("checker_error"):
            base.update(status="checker_error", reason="driver exception in %d work items: %s"
                        % (acc.stats["checker_error"], acc.stats.get("checker_error_text", "")))
        else:
            base["status"] = "ok"
        stats = {k: v for k, v in sorted(acc.stats.items()) if k != "checker_error_text"}
        base.update(bound=bound, rule=rule, contracts=contracts, evaluations=acc.evaluations,
                    distinct_nontrivial=len(acc.nontrivial), samples=acc.samples[:5], violations=acc.violations(), stats=stats,
                    seconds=round(time.time() - t0, 2))
    except Exception as e:  # noqa: BLE001
        base.update(status="checker_error", reason="%s: %s\n%s" % (type(e).__name__, e, traceback.format_exc()[-2000:]),
                    seconds=round(time.time() - t0, 2))
    return base


def main(argv=None):
    argv = list(sys.argv[1:] if argv is None else argv)
    if not argv:
        print("usage: python -m rtc.drv_tools <C18|C19|C20> [quick|thorough] [seed] [jobs]")
        return 2
    prop = argv[0]
    tier = argv[1] if len(argv) > 1 else "quick"
    seed = int(argv[2]) if len(argv) > 2 else 0
    jobs = int(argv[3]) if len(argv) > 3 else None
    res = run(prop, tier, seed, jobs)
    sys.stdout.write(json.dumps(res, indent=1, sort_keys=True) + "\n")
    return 0 if res.get("status") == "ok" else 1


if __name__ == "__main__":
    sys.exit(main())
